import subprocess, sys, json, os, re
WT = "/tmp/wt-c20"
NODE = WT + "/vls-core/src/node.rs"
CHAN = WT + "/vls-core/src/channel.rs"
MON = WT + "/vls-core/src/monitor.rs"
PATCHES = ["forget-channel-state-last", "persist-all-scoped-state", "new-channel-height-before-map",
           "sign-onchain-tracker-first", "monitor-compact-decode-unlocked", "monitor-push-unlocked-listener"]

def sh(c):
    return subprocess.run(c, shell=True, stdout=subprocess.PIPE, stderr=subprocess.STDOUT, text=True).stdout

def reset(skip=()):
    sh("git -C %s checkout -- ." % WT)
    for p in skip:   # the repairs are in the tree: skipping one = reverting it
        o = sh("git -C %s apply -R /verif/notes/fixes/C20-%s.patch" % (WT, p))
        assert not o.strip(), o

def rep(f, old, new):
    s = open(f).read()
    assert s.count(old) == 1, (f, old, s.count(old))
    open(f, "w").write(s.replace(old, new))

MUTS = {
 "V1-revert-forget-channel-state-last": lambda: reset(skip=("forget-channel-state-last",)),
 "V2-revert-persist-all-scoped-state": lambda: reset(skip=("persist-all-scoped-state",)),
 "V3-revert-new-channel-height-before-map": lambda: reset(skip=("new-channel-height-before-map",)),
 "V4-revert-sign-onchain-tracker-first": lambda: reset(skip=("sign-onchain-tracker-first",)),
 "V5-revert-monitor-compact-decode-unlocked": lambda: reset(skip=("monitor-compact-decode-unlocked",)),
 "V6-revert-monitor-push-unlocked-listener": lambda: reset(skip=("monitor-push-unlocked-listener",)),
 "M2-heartbeat-keeps-node-state-while-pruning": lambda: rep(NODE, "        drop(state); // minimize lock time\n", ""),
 "M3-new-channel-holds-node-state-across-creation": lambda: rep(NODE,
    "        if self.get_state().dbid_high_water_mark >= dbid {",
    "        let node_state = self.get_state();\n        if node_state.dbid_high_water_mark >= dbid {"),
 "M4-revoke-reads-channel-map-under-slot-and-state": lambda: rep(CHAN,
    "        let node = self.get_node();\n        let mut state = node.get_state();\n\n        let delta =\n            self.enforcement_state.claimable_balances(&*state, Some(&info2), None, &self.setup);",
    "        let node = self.get_node();\n        let mut state = node.get_state();\n        let _nchan = node.get_channels().len();\n\n        let delta =\n            self.enforcement_state.claimable_balances(&*state, Some(&info2), None, &self.setup);"),
 "M5-with-channel-works-on-a-copy-and-writes-back": lambda: rep(NODE,
    "        let slot_arc = self.get_channel(channel_id)?;\n        let mut slot = slot_arc.lock().unwrap();\n        match &mut *slot {\n            ChannelSlot::Stub(_) =>\n                Err(invalid_argument(format!(\"channel not ready: {}\", &channel_id))),\n            ChannelSlot::Ready(chan) => f(chan),\n        }",
    "        let slot_arc = self.get_channel(channel_id)?;\n        // shorten the lock hold time: work on a copy\n        let mut copy = slot_arc.lock().unwrap().clone();\n        let res = match &mut copy {\n            ChannelSlot::Stub(_) =>\n                Err(invalid_argument(format!(\"channel not ready: {}\", &channel_id))),\n            ChannelSlot::Ready(chan) => f(chan),\n        };\n        *slot_arc.lock().unwrap() = copy;\n        res"),
 "M6-add-keysend-reenters-node-state": lambda: rep(NODE,
    "        let now = self.clock.now().as_secs();\n        if !state.velocity_control.insert(now, payment_state.amount_msat) {\n            warn!(\n                \"policy-commitment-payment-velocity velocity would be exceeded - += {} = {} > {}\",",
    "        let now = self.clock.now().as_secs();\n        let _nallow = self.allowables().len();\n        if !state.velocity_control.insert(now, payment_state.amount_msat) {\n            warn!(\n                \"policy-commitment-payment-velocity velocity would be exceeded - += {} = {} > {}\","),
 "M8-setup-channel-takes-channel-map-before-tracker": lambda: rep(NODE,
    "        let mut tracker = self.get_tracker();\n        let validator = self.validator_factory().make_validator(\n            self.network(),\n            self.get_id(),\n            Some(channel_id0.clone()),\n        );",
    "        let _early = self.get_channels();\n        let mut tracker = self.get_tracker();\n        drop(_early);\n        let validator = self.validator_factory().make_validator(\n            self.network(),\n            self.get_id(),\n            Some(channel_id0.clone()),\n        );"),
 "R1-harmless-refactor (finer locking in channel_balance, get instead of get_mut, scoped state in heartbeat)": lambda: (
    rep(NODE,
    "        let channels_lock = self.get_channels();\n        for (_, slot_arc) in channels_lock.iter() {\n            let slot = slot_arc.lock().unwrap();\n            let balance = match &*slot {\n                ChannelSlot::Ready(chan) => chan.balance(),",
    "        let slots: Vec<_> = self.get_channels().values().cloned().collect();\n        for slot_arc in slots.iter() {\n            let slot = slot_arc.lock().unwrap();\n            let balance = match &*slot {\n                ChannelSlot::Ready(chan) => chan.balance(),"),
    rep(NODE, "        let mut guard = self.get_channels();\n        let elem = guard.get_mut(channel_id);", "        let guard = self.get_channels();\n        let elem = guard.get(channel_id);")),
}
which = sys.argv[1:] or list(MUTS)
for name in MUTS:
    if not any(name.startswith(w) for w in which):
        continue
    reset(); MUTS[name]()
    out = sh("cd /verif && VERIF_C20_NO_FALLBACK=1 VERIF_REPO=%s timeout 2400 python3 tools/verif.py check C20 --tier quick 2>&1" % WT)
    vio = [l for l in out.splitlines() if l.startswith("VIOLATION") or l.startswith("KNOWN")]
    whats = []
    for l in vio:
        m = re.search(r"replay=(\S+)", l)
        if m and os.path.exists(m.group(1)):
            whats.append(json.load(open(m.group(1)))["what"][:330])
    print("==", name, "| violations:", len(vio), "with-input:", sum(1 for l in vio if "no-failing" not in l))
    for w in whats[:3]:
        print("     -", w)
    if "build failed" in out:
        print(out[-2500:])
    sys.stdout.flush()
reset()
