//! Domain `velocity` (C12): the bare VelocityControl against the Gallina model, and the
//! node-level approve / restart histories with a sliding-window monitor.
use crate::common::*;
use lightning_signer::bitcoin::secp256k1::{PublicKey, Secp256k1, SecretKey};
use lightning_signer::lightning::types::payment::PaymentHash;
use lightning_signer::persist::Persist;
use lightning_signer::signer::derive::KeyDerivationStyle;
use lightning_signer::util::velocity::{
    VelocityControl, VelocityControlIntervalType, VelocityControlSpec,
};
use serde_json::json;
use std::time::Duration;

const U64MAX: u64 = u64::MAX;

fn gen_amount(rng: &mut Rng, limit: u64) -> u64 {
    match rng.below(10) {
        0 => 0,
        1 => limit,
        2 => limit.saturating_add(1),
        3 => limit / 2,
        4 => limit / 2 + 1,
        5 => U64MAX,
        6 => U64MAX - 1,
        7 => 1,
        _ => {
            let m = (limit / 3).max(2);
            rng.below(m) + 1
        }
    }
}

/// bare struct: traces of (ok, start, buckets)
pub fn bare(args: &Args) {
    let mut rng = Rng::new(args.seed);
    let mut n_ok = 0u64;
    let mut n_ref = 0u64;
    let mut n_sat = 0u64;
    for case in 0..args.n {
        let nb = *rng.pick(&[1usize, 2, 3, 4, 12, 24]);
        let interval = *rng.pick(&[1u32, 2, 3, 10, 300, 3600]);
        let limit = *rng.pick(&[0u64, 1, 5, 100, 1_000_000, 1u64 << 40, U64MAX - 1, U64MAX]);
        let mut c = if limit == U64MAX {
            VelocityControl::new_unlimited(interval, nb)
        } else {
            VelocityControl::new_with_intervals(limit, interval, nb)
        };
        let len = 1 + rng.below(14) as usize;
        let mut now = if rng.chance(1, 4) { rng.below(1 << 40) } else { rng.below(100) };
        let mut ops = vec![];
        let mut obs = vec![];
        let mut jops = vec![];
        for _ in 0..len {
            let gap = match rng.below(8) {
                0 | 1 => 0,
                2 => interval as u64 - 1,
                3 => interval as u64,
                4 => interval as u64 * (nb as u64 - 1),
                5 => interval as u64 * nb as u64,
                6 => interval as u64 * nb as u64 + 1,
                _ => rng.below(interval as u64 * 2 + 1),
            };
            now = now.saturating_add(gap);
            let amt = gen_amount(&mut rng, limit);
            let ok = c.insert(now, amt);
            if ok {
                n_ok += 1
            } else {
                n_ref += 1
            }
            if c.buckets.iter().any(|b| *b == U64MAX) {
                n_sat += 1
            }
            ops.push(format!("({}, {})", now, amt));
            obs.push(format!("({}, {}, {})", coq_bool(ok), c.start_sec, coq_nlist(&c.buckets)));
            jops.push(json!([now, amt, ok]));
        }
        let coq = format!(
            "(({}%nat, {}, {}), {}, {})",
            nb,
            interval,
            limit,
            coq_list(&ops),
            coq_list(&obs)
        );
        emit("CASE", json!({"id": case, "kind": "bare", "nb": nb, "interval": interval, "limit": limit.to_string(), "ops": jops, "coq": coq}));
    }
    emit("STATS", json!({"kind": "bare", "approved": n_ok, "refused": n_ref, "steps_with_saturated_bucket": n_sat}));
}

fn payee() -> PublicKey {
    let secp = Secp256k1::new();
    PublicKey::from_secret_key(&secp, &SecretKey::from_slice(&[3u8; 32]).unwrap())
}

fn vc_obs(c: &VelocityControl) -> String {
    format!("({}, {}, {}, {})", c.start_sec, c.bucket_interval, coq_nlist(&c.buckets), c.limit)
}

/// sliding-window monitor: the property itself, checked on the implementation's answers
fn window_violation(log: &[(u64, u64)], limit: u64, interval: u64, nb: u64) -> Option<(u64, u64, u128)> {
    let len = interval * (nb - 1);
    if len == 0 {
        return None;
    }
    // it suffices to start windows at approval times
    for (i, (t0, _)) in log.iter().enumerate() {
        let mut sum: u128 = 0;
        for (t, a) in &log[i..] {
            if *t >= *t0 && (*t as u128) < *t0 as u128 + len as u128 {
                sum += *a as u128;
            }
        }
        if sum > limit as u128 {
            return Some((*t0, len, sum));
        }
    }
    None
}

/// node-level: add_keysend approvals with a manual clock, restarts in between
pub fn node(args: &Args) {
    let mut rng = Rng::new(args.seed ^ 0x55aa);
    let mut n_restart = 0u64;
    let mut n_ok = 0u64;
    let mut n_ref = 0u64;
    let mut monitor_failures = 0u64;
    for case in 0..args.n {
        let (itype, it_name) = match rng.below(3) {
            0 => (VelocityControlIntervalType::Hourly, "Hourly"),
            1 => (VelocityControlIntervalType::Daily, "Daily"),
            _ => (VelocityControlIntervalType::Hourly, "Hourly"),
        };
        let limit = *rng.pick(&[1_000u64, 1_000_000, 5_000_000_000]);
        let (interval, nb) = match it_name {
            "Hourly" => (300u64, 12u64),
            _ => (3600u64, 24u64),
        };
        let mut policy = World::default_policy();
        policy.global_velocity_control = VelocityControlSpec { limit_msat: limit, interval_type: itype };
        let mut seed = [0u8; 32];
        seed[0] = (case % 251) as u8;
        let world = World::new(policy, seed, KeyDerivationStyle::Native);
        let mut node = world.new_node();
        let node_id = node.get_id();
        let len = 2 + rng.below(10) as usize;
        let mut now = rng.below(1_000_000);
        let mut ops = vec![];
        let mut obs = vec![];
        let mut jops = vec![];
        let mut log: Vec<(u64, u64)> = vec![];
        let mut hash_ctr = 0u8;
        for _ in 0..len {
            if rng.chance(1, 3) {
                node = world.restart(&node_id);
                n_restart += 1;
                ops.push("Restart".to_string());
                jops.push(json!("restart"));
            } else {
                let gap = match rng.below(8) {
                    0 | 1 | 2 => 0,
                    3 => interval - 1,
                    4 => interval,
                    5 => interval * (nb - 1),
                    6 => interval * nb,
                    _ => rng.below(interval * 2),
                };
                now += gap;
                world.clock.set(Duration::from_secs(now));
                let amt = match rng.below(6) {
                    0 => limit,
                    1 => limit + 1,
                    2 => limit / 2 + 1,
                    3 => 1,
                    _ => rng.below(limit / 2) + 1,
                };
                hash_ctr += 1;
                let mut h = [0u8; 32];
                h[0] = hash_ctr;
                h[1] = (case & 0xff) as u8;
                let r = node.add_keysend(payee(), PaymentHash(h), amt).expect("add_keysend");
                if r {
                    n_ok += 1;
                    log.push((now, amt));
                } else {
                    n_ref += 1;
                }
                ops.push(format!("Approve {} {}", now, amt));
                jops.push(json!(["approve", now, amt, r]));
                // observable: result, memory image, persisted image
                let mem = node.get_state().velocity_control.clone();
                let disk = {
                    let nodes = world.persister.get_nodes().expect("get_nodes");
                    nodes.into_iter().find(|(id, _)| *id == node_id).unwrap().1.state.velocity_control
                };
                obs.push(format!("({}, {}, {})", coq_bool(r), vc_obs(&mem), vc_obs(&disk)));
                continue;
            }
            let mem = node.get_state().velocity_control.clone();
            let disk = {
                let nodes = world.persister.get_nodes().expect("get_nodes");
                nodes.into_iter().find(|(id, _)| *id == node_id).unwrap().1.state.velocity_control
            };
            obs.push(format!("(false, {}, {})", vc_obs(&mem), vc_obs(&disk)));
        }
        let viol = window_violation(&log, limit, interval, nb);
        if viol.is_some() {
            monitor_failures += 1;
        }
        let coq = format!("(({}, {}), {}, {})", it_name, limit, coq_list(&ops), coq_list(&obs));
        emit(
            "CASE",
            json!({"id": case, "kind": "node", "itype": it_name, "limit": limit, "ops": jops,
                   "monitor_violation": viol.map(|(t0, len, sum)| json!({"window_start": t0, "window_len": len, "approved_sum": sum.to_string()})),
                   "coq": coq}),
        );
    }
    emit("STATS", json!({"kind": "node", "approved": n_ok, "refused": n_ref, "restarts": n_restart, "monitor_failures": monitor_failures}));
}
