//! Shared helpers for all harness domains (one binary per domain under src/bin/).
#![allow(dead_code)]
use std::sync::Arc;
use lightning_signer::bitcoin::hashes::Hash as _;
use std::time::Duration;

use lightning_signer::bitcoin::secp256k1::PublicKey;
use lightning_signer::bitcoin::Network;
use lightning_signer::node::{Node, NodeConfig, NodeServices};
use lightning_signer::persist::Persist;
use lightning_signer::policy::simple_validator::{
    make_default_simple_policy, SimplePolicy, SimpleValidatorFactory,
};
use lightning_signer::signer::derive::KeyDerivationStyle;
use lightning_signer::signer::StartingTimeFactory;
use lightning_signer::util::clock::{Clock, ManualClock};
use lightning_signer::util::test_utils::make_genesis_starting_time_factory;
use vls_persist::kvv::memory::MemoryKVVStore;
use vls_persist::kvv::{JsonFormat, KVVPersister};

/// splitmix64: every random choice of a run derives from one seed
#[derive(Clone)]
pub struct Rng(pub u64);
impl Rng {
    pub fn new(seed: u64) -> Self {
        // scrambled, so that neighbouring seeds do not give shifted copies of one stream
        let mut z = seed.wrapping_add(0x1234567).wrapping_mul(0x9E3779B97F4A7C15);
        z = (z ^ (z >> 30)).wrapping_mul(0xBF58476D1CE4E5B9);
        z = (z ^ (z >> 27)).wrapping_mul(0x94D049BB133111EB);
        Rng(z ^ (z >> 31))
    }
    pub fn next(&mut self) -> u64 {
        self.0 = self.0.wrapping_add(0x9E3779B97F4A7C15);
        let mut z = self.0;
        z = (z ^ (z >> 30)).wrapping_mul(0xBF58476D1CE4E5B9);
        z = (z ^ (z >> 27)).wrapping_mul(0x94D049BB133111EB);
        z ^ (z >> 31)
    }
    pub fn below(&mut self, n: u64) -> u64 {
        if n == 0 {
            0
        } else {
            self.next() % n
        }
    }
    pub fn pick<'a, T>(&mut self, xs: &'a [T]) -> &'a T {
        &xs[self.below(xs.len() as u64) as usize]
    }
    pub fn chance(&mut self, num: u64, den: u64) -> bool {
        self.below(den) < num
    }
    pub fn bytes32(&mut self) -> [u8; 32] {
        let mut b = [0u8; 32];
        for i in 0..4 {
            b[i * 8..i * 8 + 8].copy_from_slice(&self.next().to_le_bytes());
        }
        b
    }
}

pub struct Args {
    pub seed: u64,
    pub n: usize,
    pub tier: String,
    pub rest: Vec<String>,
}

pub fn parse_args(args: &[String]) -> Args {
    let mut a = Args { seed: 1, n: 100, tier: "quick".to_string(), rest: vec![] };
    let mut i = 0;
    while i < args.len() {
        match args[i].as_str() {
            "--seed" => {
                a.seed = args[i + 1].parse().expect("seed");
                i += 1;
            }
            "--n" => {
                a.n = args[i + 1].parse().expect("n");
                i += 1;
            }
            "--tier" => {
                a.tier = args[i + 1].clone();
                i += 1;
            }
            other => a.rest.push(other.to_string()),
        }
        i += 1;
    }
    a
}

pub fn coq_bool(b: bool) -> &'static str {
    if b {
        "true"
    } else {
        "false"
    }
}

pub fn coq_list<T: AsRef<str>>(xs: &[T]) -> String {
    let mut s = String::from("[");
    for (i, x) in xs.iter().enumerate() {
        if i > 0 {
            s.push_str("; ");
        }
        s.push_str(x.as_ref());
    }
    s.push(']');
    s
}

pub fn coq_nlist(xs: &[u64]) -> String {
    coq_list(&xs.iter().map(|x| x.to_string()).collect::<Vec<_>>())
}

/// one JSON object per line on stdout, prefixed so that log noise cannot be confused with it
pub fn emit(kind: &str, v: serde_json::Value) {
    println!("@@{} {}", kind, v);
}

pub type MemPersister = KVVPersister<MemoryKVVStore, JsonFormat>;
/// the transactional store of a daemon that keeps its state in the cloud: writes are staged
/// between enter() and commit(), prepare() reports them for the cloud
pub type CloudPersister = KVVPersister<vls_persist::kvv::cloud::CloudKVVStore<MemoryKVVStore>, JsonFormat>;
/// what the cloud holds: key -> (version, value)
pub type Replica = std::collections::BTreeMap<String, (u64, Vec<u8>)>;

/// a transactional store over a local store with the given contents
pub fn cloud_from(entries: &[(String, (u64, Vec<u8>))]) -> Arc<CloudPersister> {
    use vls_persist::kvv::{KVVStore, KVV};
    let local = MemoryKVVStore::new([7u8; 16]);
    local.put_batch(entries.iter().map(|(k, (v, x))| KVV(k.clone(), (*v, x.clone()))).collect()).expect("fill local store");
    Arc::new(KVVPersister(vls_persist::kvv::cloud::CloudKVVStore::new(local), JsonFormat))
}

/// every entry of the local store under a transactional store (outside a transaction)
pub fn raw_dump(p: &CloudPersister) -> Vec<(String, (u64, Vec<u8>))> {
    use vls_persist::kvv::KVVStore;
    let mut v: Vec<(String, (u64, Vec<u8>))> = p.0.get_prefix("").expect("get_prefix").map(|kvv| kvv.into_inner()).collect();
    v.sort();
    v
}

/// the cloud takes a reported record only at a version above the one it holds (at the same
/// version only with the same value); returns what it would refuse
pub fn replica_apply(r: &mut Replica, muts: &lightning_signer::persist::Mutations) -> Vec<String> {
    let mut bad = vec![];
    for (k, (ver, val)) in muts.clone().into_iter() {
        match r.get(&k) {
            Some((v0, x0)) if *v0 > ver || (*v0 == ver && *x0 != val) => {
                bad.push(format!("{} reported at version {} while the cloud holds version {}", k, ver, v0))
            }
            _ => {
                r.insert(k, (ver, val));
            }
        }
    }
    bad
}

/// A persister that refuses the next channel write on demand and otherwise hands every call to
/// the real one: a crash (or a store failure) at the very point where a request writes the
/// channel.  What the request did in memory before that write is then ahead of the store.
pub struct FaultyPersister {
    pub inner: Arc<MemPersister>,
    /// armed: the next update_channel fails
    pub armed: std::sync::atomic::AtomicBool,
    /// number of writes refused so far
    pub fired: std::sync::atomic::AtomicU64,
}

impl lightning_signer::SendSync for FaultyPersister {}

impl FaultyPersister {
    pub fn new(inner: Arc<MemPersister>) -> FaultyPersister {
        FaultyPersister { inner, armed: Default::default(), fired: Default::default() }
    }
    pub fn arm(&self) {
        self.armed.store(true, std::sync::atomic::Ordering::SeqCst);
    }
    /// disarm; true if it was still armed (the request wrote no channel)
    pub fn disarm(&self) -> bool {
        self.armed.swap(false, std::sync::atomic::Ordering::SeqCst)
    }
    pub fn fired(&self) -> u64 {
        self.fired.load(std::sync::atomic::Ordering::SeqCst)
    }
}

impl Persist for FaultyPersister {
    fn new_node(&self, node_id: &PublicKey, config: &NodeConfig, state: &lightning_signer::node::NodeState) -> Result<(), lightning_signer::persist::Error> {
        self.inner.new_node(node_id, config, state)
    }
    fn update_node(&self, node_id: &PublicKey, state: &lightning_signer::node::NodeState) -> Result<(), lightning_signer::persist::Error> {
        self.inner.update_node(node_id, state)
    }
    fn delete_node(&self, node_id: &PublicKey) -> Result<(), lightning_signer::persist::Error> {
        self.inner.delete_node(node_id)
    }
    fn new_channel(&self, node_id: &PublicKey, stub: &lightning_signer::channel::ChannelStub) -> Result<(), lightning_signer::persist::Error> {
        self.inner.new_channel(node_id, stub)
    }
    fn delete_channel(&self, node_id: &PublicKey, channel: &lightning_signer::channel::ChannelId) -> Result<(), lightning_signer::persist::Error> {
        self.inner.delete_channel(node_id, channel)
    }
    fn new_tracker(&self, node_id: &PublicKey, tracker: &lightning_signer::chain::tracker::ChainTracker<lightning_signer::monitor::ChainMonitor>) -> Result<(), lightning_signer::persist::Error> {
        self.inner.new_tracker(node_id, tracker)
    }
    fn update_tracker(&self, node_id: &PublicKey, tracker: &lightning_signer::chain::tracker::ChainTracker<lightning_signer::monitor::ChainMonitor>) -> Result<(), lightning_signer::persist::Error> {
        self.inner.update_tracker(node_id, tracker)
    }
    fn get_tracker(
        &self,
        node_id: PublicKey,
        validator_factory: Arc<dyn lightning_signer::policy::validator::ValidatorFactory>,
    ) -> Result<(lightning_signer::chain::tracker::ChainTracker<lightning_signer::monitor::ChainMonitor>, Vec<lightning_signer::persist::ChainTrackerListenerEntry>), lightning_signer::persist::Error> {
        self.inner.get_tracker(node_id, validator_factory)
    }
    fn update_channel(&self, node_id: &PublicKey, channel: &lightning_signer::channel::Channel) -> Result<(), lightning_signer::persist::Error> {
        if self.armed.swap(false, std::sync::atomic::Ordering::SeqCst) {
            self.fired.fetch_add(1, std::sync::atomic::Ordering::SeqCst);
            return Err(lightning_signer::persist::Error::Unavailable("injected: the channel write did not happen".to_string()));
        }
        self.inner.update_channel(node_id, channel)
    }
    fn get_channel(&self, node_id: &PublicKey, channel_id: &lightning_signer::channel::ChannelId) -> Result<lightning_signer::persist::model::ChannelEntry, lightning_signer::persist::Error> {
        self.inner.get_channel(node_id, channel_id)
    }
    fn get_node_channels(&self, node_id: &PublicKey) -> Result<Vec<(lightning_signer::channel::ChannelId, lightning_signer::persist::model::ChannelEntry)>, lightning_signer::persist::Error> {
        self.inner.get_node_channels(node_id)
    }
    fn update_node_allowlist(&self, node_id: &PublicKey, allowlist: Vec<String>) -> Result<(), lightning_signer::persist::Error> {
        self.inner.update_node_allowlist(node_id, allowlist)
    }
    fn get_node_allowlist(&self, node_id: &PublicKey) -> Result<Vec<String>, lightning_signer::persist::Error> {
        self.inner.get_node_allowlist(node_id)
    }
    fn get_nodes(&self) -> Result<Vec<(PublicKey, lightning_signer::persist::model::NodeEntry)>, lightning_signer::persist::Error> {
        self.inner.get_nodes()
    }
    fn clear_database(&self) -> Result<(), lightning_signer::persist::Error> {
        self.inner.clear_database()
    }
    fn signer_id(&self) -> lightning_signer::persist::SignerId {
        self.inner.signer_id()
    }
}

pub struct World {
    /// Some: every node of this world runs on a persister that can refuse a channel write
    pub faulty: Option<Arc<FaultyPersister>>,
    /// Some: the node runs on the transactional store (and `persister` is unused)
    pub cloud: Option<Arc<CloudPersister>>,
    pub replica: Arc<std::sync::Mutex<Replica>>,
    /// validators are OnchainValidator (what the daemon runs) around the simple one
    pub onchain: bool,
    pub persister: Arc<MemPersister>,
    pub clock: Arc<ManualClock>,
    pub policy: SimplePolicy,
    pub seed: [u8; 32],
    pub config: NodeConfig,
}

pub const NETWORK: Network = Network::Regtest;

/// A policy filter an operator could write when a lenient base configuration is merged under a
/// strict one: an error rule for everything placed AHEAD of the permissive rule.  The first
/// matching rule decides, so nothing is downgraded - the signer must behave exactly as under the
/// default (empty) filter.
pub fn shadowed_permissive_filter() -> lightning_signer::policy::filter::PolicyFilter {
    use lightning_signer::policy::filter::{FilterResult, FilterRule, PolicyFilter};
    let mut f = PolicyFilter { rules: vec![FilterRule { tag: "policy-".to_string(), is_prefix: true, action: FilterResult::Error }] };
    f.merge(PolicyFilter::new_permissive());
    f
}

impl World {
    pub fn new(policy: SimplePolicy, seed: [u8; 32], style: KeyDerivationStyle) -> World {
        World::new_on(NETWORK, policy, seed, style)
    }

    /// a world on another network (Testnet has compiled-in checkpoints and the short stub horizon)
    pub fn new_on(network: Network, policy: SimplePolicy, seed: [u8; 32], style: KeyDerivationStyle) -> World {
        let store = MemoryKVVStore::new([7u8; 16]);
        let persister = Arc::new(KVVPersister(store, JsonFormat));
        let clock = Arc::new(ManualClock::new(Duration::from_secs(0)));
        let config = NodeConfig {
            network,
            key_derivation_style: style,
            use_checkpoints: false,
            allow_deep_reorgs: true,
        };
        World { faulty: None, cloud: None, replica: Default::default(), onchain: false, persister, clock, policy, seed, config }
    }

    pub fn default_policy() -> SimplePolicy {
        make_default_simple_policy(NETWORK)
    }

    pub fn dyn_persister(&self) -> Arc<dyn Persist> {
        if let Some(f) = &self.faulty {
            return f.clone();
        }
        match &self.cloud {
            Some(c) => c.clone(),
            None => self.persister.clone(),
        }
    }

    /// from now on the nodes of this world run on a persister that can refuse a channel write
    pub fn make_faulty(&mut self) -> Arc<FaultyPersister> {
        let f = Arc::new(FaultyPersister::new(self.persister.clone()));
        self.faulty = Some(f.clone());
        f
    }

    pub fn services(&self) -> NodeServices {
        self.services_with(self.dyn_persister())
    }

    pub fn services_with(&self, persister: Arc<dyn Persist>) -> NodeServices {
        let simple = SimpleValidatorFactory::new_with_policy(self.policy.clone());
        let validator_factory: Arc<dyn lightning_signer::policy::validator::ValidatorFactory> = if self.onchain {
            Arc::new(lightning_signer::policy::onchain_validator::OnchainValidatorFactory::new_with_simple_factory(simple))
        } else {
            Arc::new(simple)
        };
        let starting_time_factory: Arc<dyn StartingTimeFactory> =
            make_genesis_starting_time_factory(self.config.network);
        let clock: Arc<dyn Clock> = self.clock.clone();
        NodeServices {
            validator_factory,
            starting_time_factory,
            persister,
            clock,
            trusted_oracle_pubkeys: vec![],
        }
    }

    /// create and persist a fresh node the way MultiSigner::new_node_with_seed does
    pub fn new_node(&self) -> Arc<Node> {
        let services = self.services();
        let node = Node::new(self.config, &self.seed, vec![], services);
        let node_id = node.get_id();
        let p = self.dyn_persister();
        if self.cloud.is_some() {
            p.enter().expect("enter");
        }
        node.add_allowlist(&vec![]).expect("initial allowlist");
        p.new_node(&node_id, &self.config, &*node.get_state()).expect("new node");
        p.new_tracker(&node_id, &node.get_tracker()).expect("new tracker");
        if self.cloud.is_some() {
            let muts = p.prepare();
            replica_apply(&mut self.replica.lock().unwrap(), &muts);
            p.commit().expect("commit");
        }
        Arc::new(node)
    }

    /// a signer started on the transactional store `p` (one transaction, as the daemon's start-up):
    /// the node and what the start-up itself reported for the cloud
    pub fn restore_on_cloud(&self, p: &Arc<CloudPersister>, node_id: &PublicKey) -> (Arc<Node>, lightning_signer::persist::Mutations) {
        let dynp: Arc<dyn Persist> = p.clone();
        dynp.enter().expect("enter");
        let services = self.services_with(dynp.clone());
        let mut found = None;
        for (id, entry) in dynp.get_nodes().expect("get_nodes") {
            if id == *node_id {
                found = Some(Node::restore_node(&id, entry, &self.seed, services.clone()).expect("restore"));
            }
        }
        let muts = dynp.prepare();
        dynp.commit().expect("commit");
        (found.expect("node not found in store"), muts)
    }

    /// a signer restored from a COPY of the store: what it is asked afterwards leaves the store of
    /// the running signer alone (None: the restore panics)
    pub fn restore_on_copy(&self, node_id: &PublicKey) -> Option<Arc<Node>> {
        use vls_persist::kvv::{KVVStore, KVV};
        std::panic::catch_unwind(std::panic::AssertUnwindSafe(|| {
            let store = MemoryKVVStore::new([7u8; 16]);
            let all: Vec<KVV> = self.persister.0.get_prefix("").expect("get_prefix").collect();
            store.put_batch(all).expect("copy");
            let p: Arc<dyn Persist> = Arc::new(KVVPersister(store, JsonFormat));
            let services = self.services_with(p.clone());
            for (id, entry) in p.get_nodes().expect("get_nodes") {
                if id == *node_id {
                    return Node::restore_node(&id, entry, &self.seed, services).expect("restore");
                }
            }
            panic!("node not found in store");
        }))
        .ok()
    }

    /// every key / version / value of the (local) store the node runs on
    pub fn dump(&self) -> Vec<(String, u64, String)> {
        match &self.cloud {
            Some(c) => raw_dump(c).into_iter().map(|(k, (v, x))| (k, v, String::from_utf8_lossy(&x).to_string())).collect(),
            None => store_dump(&self.persister),
        }
    }

    /// a signer restart: a second Node built from the store alone
    pub fn restart(&self, node_id: &PublicKey) -> Arc<Node> {
        let services = self.services();
        let nodes = self.persister.get_nodes().expect("get_nodes");
        for (id, entry) in nodes {
            if id == *node_id {
                return Node::restore_node(&id, entry, &self.seed, services).expect("restore");
            }
        }
        panic!("node not found in store");
    }
}


// ---------------------------------------------------------------- handler and invoices

/// the node-level protocol handler around `node` (approves whatever reaches the approver)
pub fn make_root_handler(node: &Arc<Node>, proto: u32) -> vls_protocol_signer::handler::RootHandler {
    use vls_protocol::model;
    use vls_protocol::msgs::{self, Message};
    use vls_protocol_signer::approver::PositiveApprover;
    use vls_protocol_signer::handler::{Handler, InitHandler, RootHandler};
    let mut init = InitHandler::new(0, node.clone(), Arc::new(PositiveApprover()), proto);
    let m = msgs::HsmdInit {
        key_version: model::Bip32KeyVersion { pubkey_version: 0, privkey_version: 0 },
        chain_params: lightning_signer::bitcoin::BlockHash::from_byte_array([0u8; 32]),
        encryption_key: None,
        dev_privkey: None,
        dev_bip32_seed: None,
        dev_channel_secrets: None,
        dev_channel_secrets_shaseed: None,
        hsm_wire_min_version: 2,
        hsm_wire_max_version: proto,
    };
    init.handle(Message::HsmdInit(m)).expect("init");
    let root: RootHandler = init.into();
    root
}

/// `setup` as the SetupChannel protocol message (channel_value is satoshi, push_value millisatoshi,
/// to_self_delay the delay the holder selected, remote_to_self_delay the counterparty's, an empty
/// script means none)
pub fn setup_channel_msg(setup: &lightning_signer::channel::ChannelSetup) -> vls_protocol::msgs::SetupChannel {
    use vls_protocol::model::{Basepoints, PubKey};
    use vls_protocol::serde_bolt::Octets;
    let pts = &setup.counterparty_points;
    vls_protocol::msgs::SetupChannel {
        is_outbound: setup.is_outbound,
        channel_value: setup.channel_value_sat,
        push_value: setup.push_value_msat,
        funding_txid: setup.funding_outpoint.txid,
        funding_txout: setup.funding_outpoint.vout as u16,
        to_self_delay: setup.holder_selected_contest_delay,
        local_shutdown_script: Octets(setup.holder_shutdown_script.as_ref().map(|x| x.to_bytes()).unwrap_or_default()),
        local_shutdown_wallet_index: None,
        remote_basepoints: Basepoints {
            revocation: PubKey(pts.revocation_basepoint.0.serialize()),
            payment: PubKey(pts.payment_point.serialize()),
            htlc: PubKey(pts.htlc_basepoint.0.serialize()),
            delayed_payment: PubKey(pts.delayed_payment_basepoint.0.serialize()),
        },
        remote_funding_pubkey: PubKey(pts.funding_pubkey.serialize()),
        remote_to_self_delay: setup.counterparty_selected_contest_delay,
        remote_shutdown_script: Octets(setup.counterparty_shutdown_script.as_ref().map(|x| x.to_bytes()).unwrap_or_default()),
        channel_type: Octets(vls_protocol_signer::util::commitment_type_to_channel_type(setup.commitment_type)),
    }
}

/// send `setup` as a SetupChannel message (through the wire encoding) to the channel handler of
/// (peer, dbid) at protocol `proto`
pub fn setup_channel_via_handler(node: &Arc<Node>, proto: u32, peer: [u8; 33], dbid: u64, setup: &lightning_signer::channel::ChannelSetup) -> bool {
    use vls_protocol::msgs::{self, SerBolt};
    use vls_protocol_signer::handler::Handler;
    let root = make_root_handler(node, proto);
    let handler = root.for_new_client(1, vls_protocol::model::PubKey(peer), dbid);
    let m = setup_channel_msg(setup);
    handler.handle(msgs::from_vec(m.as_vec()).expect("SetupChannel survives the wire")).is_ok()
}

/// a signed BOLT11 invoice for `hash`, created at `now_secs`
pub fn make_bolt11(hash: [u8; 32], amount_msat: u64, now_secs: u64) -> lightning_signer::invoice::Invoice {
    use lightning_signer::bitcoin::hashes::{sha256::Hash as Sha256Hash, Hash};
    use lightning_signer::bitcoin::secp256k1::{Secp256k1, SecretKey};
    use lightning_signer::lightning::types::payment::PaymentSecret;
    use lightning_signer::lightning_invoice::{Currency, InvoiceBuilder};
    let private_key = SecretKey::from_slice(&[42; 32]).unwrap();
    let b = InvoiceBuilder::new(Currency::Regtest)
        .description("verif".into())
        .payment_hash(Sha256Hash::from_byte_array(hash))
        .payment_secret(PaymentSecret([7; 32]))
        .duration_since_epoch(Duration::from_secs(now_secs))
        .min_final_cltv_expiry_delta(144);
    // amount 0: an invoice that names no amount
    let b = if amount_msat > 0 { b.amount_milli_satoshis(amount_msat) } else { b };
    lightning_signer::invoice::Invoice::Bolt11(
        b.build_signed(|h| Secp256k1::new().sign_ecdsa_recoverable(h, &private_key)).unwrap(),
    )
}

/// the same invoice before it is signed (what SignInvoice is handed)
pub fn make_raw_bolt11(hash: [u8; 32], amount_msat: u64, now_secs: u64) -> lightning_signer::lightning_invoice::RawBolt11Invoice {
    use lightning_signer::bitcoin::hashes::{sha256::Hash as Sha256Hash, Hash};
    use lightning_signer::lightning::types::payment::PaymentSecret;
    use lightning_signer::lightning_invoice::{Currency, InvoiceBuilder};
    let b = InvoiceBuilder::new(Currency::Regtest)
        .description("verif".into())
        .payment_hash(Sha256Hash::from_byte_array(hash))
        .payment_secret(PaymentSecret([7; 32]))
        .duration_since_epoch(Duration::from_secs(now_secs))
        .min_final_cltv_expiry_delta(144);
    let b = if amount_msat > 0 { b.amount_milli_satoshis(amount_msat) } else { b };
    b.build_raw().expect("raw invoice")
}

// ---------------------------------------------------------------- snapshots (C10 / C11 monitors)

use lightning_signer::channel::ChannelSlot;
use vls_persist::kvv::KVVStore;

/// every key / version / value of the store, in key order
pub fn store_dump(p: &MemPersister) -> Vec<(String, u64, String)> {
    let mut v: Vec<(String, u64, String)> = p
        .0
        .get_prefix("")
        .expect("get_prefix")
        .map(|kvv| {
            let (k, (ver, val)) = kvv.into_inner();
            (k, ver, String::from_utf8_lossy(&val).to_string())
        })
        .collect();
    v.sort();
    v
}

/// the channel's key material as seen from outside: base points, funding key, the first two
/// per-commitment points
fn keys_fp(keys: &lightning_signer::lightning::sign::InMemorySigner) -> String {
    use lightning_signer::lightning::sign::ChannelSigner;
    let secp = lightning_signer::bitcoin::secp256k1::Secp256k1::new();
    let pk = keys.pubkeys();
    let p0 = keys.get_per_commitment_point((1u64 << 48) - 1, &secp).map(|p| p.to_string()).unwrap_or_default();
    let p1 = keys.get_per_commitment_point((1u64 << 48) - 2, &secp).map(|p| p.to_string()).unwrap_or_default();
    // the signer as LDK serialises it: keys, channel parameters, channel value, key id
    use lightning_signer::lightning::util::ser::Writeable;
    let ser = hex::encode(keys.encode());
    format!(
        "funding={} rev={} pay={} delayed={} htlc={} p0={} p1={} signer={}",
        pk.funding_pubkey, pk.revocation_basepoint.0, pk.payment_point, pk.delayed_payment_basepoint.0, pk.htlc_basepoint.0, p0, p1, ser
    )
}

/// The state that C10 / C11 enumerate, as comparable strings keyed by component:
/// per channel the enforcement state and the monitor state, the tracker's tip / height /
/// remembered headers, the allowlist, the approved invoices, the high-water mark and the two
/// velocity controls.
pub fn fingerprint(node: &Node) -> Vec<(String, String)> {
    let mut out = vec![];
    {
        let st = node.get_state();
        let mut invs: Vec<String> = st
            .invoices
            .iter()
            .map(|(h, p)| format!("{}:{}:{}", hex::encode(h.0), p.amount_msat, hex::encode(p.invoice_hash)))
            .collect();
        invs.sort();
        out.push(("invoices".to_string(), invs.join(",")));
// (the invoices the node ISSUED are in fingerprint_full only: sign_bolt11_invoice writes nothing, they travel
        // with the next write of the node entry, and C11 lists the approved invoices, not these)
        out.push(("hwm".to_string(), st.dbid_high_water_mark.to_string()));
        // the payment ledger as far as it carries value: (hash, channel) -> in-flight amounts.
        // Entries without value are left out: a restart rebuilds the ledger from the current
        // commitments and does not recreate them.
        let mut pays: Vec<String> = vec![];
        for (h, p) in st.payments.iter() {
            let mut chans: std::collections::BTreeMap<String, (u64, u64)> = Default::default();
            for (c, v) in p.incoming.iter() {
                chans.entry(format!("{}", c)).or_default().0 = *v;
            }
            for (c, v) in p.outgoing.iter() {
                chans.entry(format!("{}", c)).or_default().1 = *v;
            }
            for (c, (i, o)) in chans {
                if i != 0 || o != 0 {
                    pays.push(format!("{}@{}:in={}:out={}", hex::encode(h.0), c, i, o));
                }
            }
        }
        pays.sort();
        out.push(("payments".to_string(), pays.join(",")));
        // (preimages the signer was given are not among the things C11 lists: they are part of
        // fingerprint_full, which C10 compares around refused requests)
        out.push(("velocity".to_string(), format!("{:?}", st.velocity_control)));
        out.push(("fee_velocity".to_string(), format!("{:?}", st.fee_velocity_control)));
    }
    let mut al = node.allowlist().unwrap_or_default();
    al.sort();
    out.push(("allowlist".to_string(), al.join(",")));
    {
        let tr = node.get_tracker();
        out.push(("tracker".to_string(), format!("tip={} height={} headers={}", tr.tip().0.block_hash(), tr.height(), tr.headers.len())));
        // the tracker as it would be stored: headers, and per listener the whole monitor state
        // (funding inputs, heights, closing outpoints, flags) and its watches
        let entry = vls_persist::model::ChainTrackerEntry::from(&*tr);
        out.push(("tracker_entry".to_string(), serde_json::to_string(&entry).unwrap_or_default()));
        // ... and read directly, not through the conversions and serde attributes of the persistence
        // path (a field dropped there would be missing on both sides of the comparison above)
        let hdr = |h: &lightning_signer::chain::tracker::Headers| format!("{}/{}", h.0.block_hash(), h.1);
        let hs: Vec<String> = tr.headers.iter().map(|h| hdr(h)).collect();
        out.push(("tracker_direct".to_string(), format!("tip={} headers=[{}]", hdr(tr.tip()), hs.join(","))));
        for (key, (listener, slot)) in tr.listeners.iter() {
            let mut a: Vec<String> = slot.txid_watches.iter().map(|x| x.to_string()).collect();
            let mut b: Vec<String> = slot.watches.iter().map(|x| x.to_string()).collect();
            let mut c: Vec<String> = slot.seen.iter().map(|x| x.to_string()).collect();
            a.sort();
            b.sort();
            c.sort();
            out.push((format!("listener:{}", key), format!("state={:?} txid_watches={:?} watches={:?} seen={:?}", &*listener.get_state(), a, b, c)));
        }
    }
    let chans: Vec<_> = { node.get_channels().iter().map(|(k, v)| (k.clone(), v.clone())).collect() };
    for (id, slot) in chans {
        let g = slot.lock().unwrap();
        match &*g {
            ChannelSlot::Stub(s) => {
                out.push((format!("chan:{}", id), format!("stub@{}", s.blockheight)));
                out.push((format!("keys:{}", id), keys_fp(&s.keys)));
            }
            ChannelSlot::Ready(c) => {
                out.push((format!("chan:{}", id), format!("{:?}", c.enforcement_state)));
                out.push((format!("keys:{}", id), keys_fp(&c.keys)));
                out.push((
                    format!("monitor:{}", id),
                    format!(
                        "forget_seen={} done={} chain_state={:?} funding_outpoint={:?} diag={}",
                        c.monitor.forget_seen(),
                        c.monitor.is_done(),
                        c.monitor.as_chain_state(),
                        c.monitor.funding_outpoint(),
                        c.monitor.diagnostic(c.enforcement_state.channel_closed)
                    ),
                ));
            }
        }
    }
    out.sort();
    out.dedup();
    out
}

/// `fingerprint` plus the bookkeeping a restart legitimately normalises (empty ledger entries,
/// CLTV bounds, fulfilment flags, the excess amount): compared around REFUSED requests only (C10)
pub fn fingerprint_full(node: &Node) -> Vec<(String, String)> {
    let mut out = fingerprint(node);
    let st = node.get_state();
    let mut pays: Vec<String> = st.payments.iter().map(|(h, p)| format!("{}:{:?}", hex::encode(h.0), p)).collect();
    pays.sort();
    out.push(("payments_full".to_string(), pays.join(",")));
    let mut invs: Vec<String> =
        st.invoices.iter().chain(st.issued_invoices.iter()).map(|(h, p)| format!("{}:{:?}", hex::encode(h.0), p)).collect();
    invs.sort();
    out.push(("invoices_full".to_string(), invs.join(",")));
    out.push(("excess_amount".to_string(), st.excess_amount.to_string()));
    out
}

/// what a signer restored from the store alone would differ in from the running one; a restore
/// that panics is reported as such instead of taking the harness down
pub fn restart_gap(world: &World, node: &Arc<Node>) -> Vec<String> {
    let id = node.get_id();
    match std::panic::catch_unwind(std::panic::AssertUnwindSafe(|| {
        let shadow = world.restart(&id);
        fingerprint_diff(&fingerprint(node), &fingerprint(&shadow))
    })) {
        Ok(d) => d,
        Err(_) => vec!["the signer cannot be restored from its store (restore panics)".to_string()],
    }
}

/// components on which two fingerprints differ
pub fn fingerprint_diff(a: &[(String, String)], b: &[(String, String)]) -> Vec<String> {
    let mut d = vec![];
    let ma: std::collections::BTreeMap<_, _> = a.iter().cloned().collect();
    let mb: std::collections::BTreeMap<_, _> = b.iter().cloned().collect();
    for (k, v) in &ma {
        match mb.get(k) {
            Some(w) if w == v => {}
            Some(w) if k == "payments" => d.push(format!("{} differs [{}] vs [{}]", k, v, w)),
            Some(_) => d.push(format!("{} differs", k)),
            None => d.push(format!("{} missing after", k)),
        }
    }
    for k in mb.keys() {
        if !ma.contains_key(k) {
            d.push(format!("{} appeared", k));
        }
    }
    d
}

pub fn store_diff(a: &[(String, u64, String)], b: &[(String, u64, String)]) -> Vec<String> {
    let ma: std::collections::BTreeMap<_, _> = a.iter().map(|(k, v, x)| (k.clone(), (*v, x.clone()))).collect();
    let mb: std::collections::BTreeMap<_, _> = b.iter().map(|(k, v, x)| (k.clone(), (*v, x.clone()))).collect();
    let mut d = vec![];
    for (k, (v, x)) in &ma {
        match mb.get(k) {
            Some((w, y)) if w == v && x == y => {}
            Some((w, y)) => d.push(format!("store key {}: version {} -> {}{}", k, v, w, if x == y { " (same value)" } else { " (value changed)" })),
            None => d.push(format!("store key {} deleted", k)),
        }
    }
    for k in mb.keys() {
        if !ma.contains_key(k) {
            d.push(format!("store key {} created", k));
        }
    }
    d
}
