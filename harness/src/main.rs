mod common;
mod velocity;

fn main() {
    let argv: Vec<String> = std::env::args().collect();
    if argv.len() < 2 {
        eprintln!("usage: vharness <domain> [--seed S] [--n N] [--tier T] ...");
        std::process::exit(2);
    }
    let args = common::parse_args(&argv[2..]);
    match argv[1].as_str() {
        "velocity-bare" => velocity::bare(&args),
        "velocity-node" => velocity::node(&args),
        other => {
            eprintln!("unknown domain {}", other);
            std::process::exit(2);
        }
    }
}
