//! Domain `chan` (C01, C02, C03; snapshots reused by C10, C11): one real Node with one real
//! channel on a MemoryKVVStore, driven through Channel methods and through real protocol
//! messages handled by `ChannelHandler` at protocol versions 4, 5 and 6, with restarts from the
//! store.  Every operation is emitted as a Coq `op` term of Model/Enforcement.v together with the
//! observed reply and the projected memory / persisted enforcement state.
use std::panic::{catch_unwind, AssertUnwindSafe};
use std::sync::Arc;

use lightning_signer::bitcoin::bip32::DerivationPath;
use lightning_signer::bitcoin::hashes::Hash;
use lightning_signer::bitcoin::secp256k1::ecdsa::Signature;
use lightning_signer::bitcoin::secp256k1::{PublicKey, Secp256k1, SecretKey};
use lightning_signer::bitcoin::BlockHash;
use lightning_signer::channel::{ChannelBase, ChannelId, ChannelSlot};
use lightning_signer::lightning::ln::chan_utils::build_commitment_secret;
use lightning_signer::lightning::sign::ChannelSigner;
use lightning_signer::node::Node;
use lightning_signer::persist::Persist;
use lightning_signer::policy::filter::{FilterRule, PolicyFilter};
use lightning_signer::policy::validator::EnforcementState;
use lightning_signer::signer::derive::KeyDerivationStyle;
use lightning_signer::lightning::types::payment::PaymentHash;
use lightning_signer::tx::tx::{CommitmentInfo2, HTLCInfo2};
use lightning_signer::util::test_utils::{
    build_tx_scripts, channel_commitment, counterparty_sign_holder_commitment, make_test_channel_setup,
    make_test_counterparty_keys, TestChannelContext, TestNodeContext,
};
use lightning_signer::bitcoin::{ScriptBuf, Transaction};
use lightning_signer::channel::Channel;
use serde_json::json;
use vharness::*;
use vls_protocol::model::{self, BitcoinSignature, PubKey};
use vls_protocol::msgs::{self, Message, SerBolt};
use vls_protocol::serde_bolt::{Array, Octets};
use vls_protocol_signer::approver::PositiveApprover;
use vls_protocol_signer::handler::{ChannelHandler, Handler, InitHandler, RootHandler};

const INITIAL: u64 = (1 << 48) - 1;
const VALUE: u64 = 3_000_000;
const CP_SEED: [u8; 32] = [3u8; 32]; // commitment seed of make_test_counterparty_keys

/// holder commitment contents: id -> (to_holder, to_counterparty).  Ids 0..3 are acceptable as
/// the initial commitment (nothing to the fundee), 4..7 as later ones, 9 violates the dust rule.
fn holder_content(id: u64) -> (u64, u64) {
    match id {
        0..=3 => (VALUE - 1000 - 100 * id, 0),
        // (content 8 is content 7 with another expiry on its second HTLC: same balances, same amounts, same hashes)
        4..=8 => (
            1_000_000 + 10_000 * (id.min(7) - 4),
            VALUE - 20_000 - (1_000_000 + 10_000 * (id.min(7) - 4)) - HTLC_SAT * n_htlcs(id),
        ),
        _ => (VALUE - 1000 - 100, 100),
    }
}
/// contents 6 and 7 carry one / two HTLCs offered TO the node (no invoice needed), so that the
/// per-HTLC counterparty signatures are part of what is verified
const HTLC_SAT: u64 = 10_000;
fn n_htlcs(id: u64) -> u64 {
    match id {
        6 => 1,
        7 | 8 => 2,
        _ => 0,
    }
}
/// HTLCs the node receives in content `id`
fn incoming_htlcs(id: u64) -> Vec<HTLCInfo2> {
    (0..n_htlcs(id))
        .map(|k| HTLCInfo2 {
            value_sat: HTLC_SAT,
            payment_hash: PaymentHash([0x40 + k as u8; 32]),
            cltv_expiry: if id == 8 && k == 1 { 1500 } else { 1000 + k as u32 },
        })
        .collect()
}
fn content_ok(id: u64, n: u64) -> bool {
    match id {
        0..=3 => true,
        4..=8 => n > 0,
        _ => false,
    }
}
/// counterparty commitment contents (their commitment: they broadcast)
fn cp_content(id: u64) -> (u64, u64) {
    // (to_holder, to_counterparty)
    holder_content(id)
}
fn content_id_of(info: &CommitmentInfo2, holder: bool) -> u64 {
    let (to_holder, to_cp) = if holder {
        (info.to_broadcaster_value_sat, info.to_countersigner_value_sat)
    } else {
        (info.to_countersigner_value_sat, info.to_broadcaster_value_sat)
    };
    for id in 0..10 {
        if holder_content(id) == (to_holder, to_cp) {
            // 7 and 8 differ in the expiry of an HTLC only
            if id == 7 && info.received_htlcs.iter().chain(info.offered_htlcs.iter()).any(|h| h.cltv_expiry == 1500) {
                return 8;
            }
            return id;
        }
    }
    999
}

struct Sys {
    world: World,
    node: Arc<Node>,
    node_id: PublicKey,
    channel_id: ChannelId,
    peer_id: [u8; 33],
    dbid: u64,
    proto: u32,
    handler: ChannelHandler,
    chan_ctx: Option<TestChannelContext>,
    secp: Secp256k1<lightning_signer::bitcoin::secp256k1::All>,
    /// the harness's own record: a set-up request was accepted
    set_up: bool,
    /// Some: the node runs on a persister that can refuse a channel write
    fault: Option<Arc<vharness::FaultyPersister>>,
    /// the choice code of the last request (so that the same request can be sent again)
    last_choice: u64,
}

fn make_handler(node: &Arc<Node>, proto: u32, peer_id: [u8; 33], dbid: u64) -> ChannelHandler {
    let mut init = InitHandler::new(0, node.clone(), Arc::new(PositiveApprover()), proto);
    let m = msgs::HsmdInit {
        key_version: model::Bip32KeyVersion { pubkey_version: 0, privkey_version: 0 },
        chain_params: BlockHash::all_zeros(),
        encryption_key: None,
        dev_privkey: None,
        dev_bip32_seed: None,
        dev_channel_secrets: None,
        dev_channel_secrets_shaseed: None,
        hsm_wire_min_version: 2,
        hsm_wire_max_version: proto,
    };
    init.handle(Message::HsmdInit(m)).expect("init");
    let root: RootHandler = init.into();
    root.for_new_client(1, PubKey(peer_id), dbid)
}

fn cp_secret(n: u64) -> [u8; 32] {
    build_commitment_secret(&CP_SEED, INITIAL - n)
}
/// a secret outside the counterparty's derivation tree: its point can be signed for and it
/// matches that point on revocation, but it does not chain with the tree's secrets
fn rogue_secret(n: u64) -> [u8; 32] {
    let mut s = [0x77u8; 32];
    s[31] = n as u8;
    s[30] = (n >> 8) as u8;
    s
}
/// secret behind a point code (tree number n: n; rogue n: 3000+n)
fn secret_of_code(code: u64) -> [u8; 32] {
    if code >= 3000 { rogue_secret(code - 3000) } else { cp_secret(code) }
}
fn point_code(secp: &Secp256k1<lightning_signer::bitcoin::secp256k1::All>, p: &PublicKey) -> Option<u64> {
    for n in 0..40u64 {
        if point_of(secp, &cp_secret(n)) == *p {
            return Some(n);
        }
        if point_of(secp, &rogue_secret(n)) == *p {
            return Some(3000 + n);
        }
    }
    None
}
fn point_of(secp: &Secp256k1<lightning_signer::bitcoin::secp256k1::All>, s: &[u8; 32]) -> PublicKey {
    PublicKey::from_secret_key(secp, &SecretKey::from_slice(s).unwrap())
}

impl Sys {
    fn new(case: usize, proto: u32, warn_tags: &[&str]) -> Sys {
        Sys::new_on(case, proto, warn_tags, false)
    }

    fn new_on(case: usize, proto: u32, warn_tags: &[&str], faulty: bool) -> Sys {
        let mut policy = World::default_policy();
        policy.filter = PolicyFilter {
            // "!tag": an error rule for the tag placed AHEAD of the others (the first matching rule decides)
            rules: warn_tags
                .iter()
                .filter(|t| t.starts_with('!'))
                .map(|t| FilterRule::new_error(&t[1..]))
                .chain(warn_tags.iter().map(|t| FilterRule::new_warn(t.trim_start_matches('!'))))
                .collect(),
        };
        let mut seed = [0u8; 32];
        seed[0] = (case % 251) as u8;
        seed[1] = 0xc1;
        let mut world = World::new(policy, seed, KeyDerivationStyle::Native);
        // every second case runs under the on-chain validator (what the daemon uses), with the
        // funding buried at set-up: it must then answer like the simple one
        world.onchain = case % 2 == 1;
        let fault = if faulty { Some(world.make_faulty()) } else { None };
        let node = world.new_node();
        let node_id = node.get_id();
        let secp = Secp256k1::new();
        let peer_id = PublicKey::from_secret_key(&secp, &SecretKey::from_slice(&[9u8; 32]).unwrap())
            .serialize();
        let dbid = 1u64;
        let (channel_id, _) = node.new_channel(dbid, &peer_id, &node).expect("new_channel");
        let handler = make_handler(&node, proto, peer_id, dbid);
        Sys { world, node, node_id, channel_id, peer_id, dbid, proto, handler, chan_ctx: None, secp, set_up: false, fault, last_choice: 0 }
    }

    /// what the phase-1 entry point wants for holder commitment `n` with content `id`: the
    /// transaction itself and the witness script of every output (None when the channel cannot
    /// even derive the point of `n`)
    fn phase1_args(&self, n: u64, id: u64) -> Option<(Transaction, Vec<Vec<u8>>)> {
        let next = self.estate()?.next_holder_commit_num;
        if n > next + 1 {
            return None;
        }
        let (to_h, to_c) = holder_content(id);
        let nctx = self.node_ctx();
        let cctx = self.chan_ctx.as_ref()?;
        let ctx = channel_commitment(&nctx, cctx, n, 1100, to_h, to_c, vec![], incoming_htlcs(id));
        let tx = ctx.tx.as_ref()?.trust().built_transaction().transaction.clone();
        let htlcs = Channel::htlcs_info2_to_oic(&vec![], &incoming_htlcs(id));
        self.node
            .with_channel(&self.channel_id, |chan| {
                let cp = chan.make_channel_parameters();
                let params = cp.as_holder_broadcastable();
                let pt = chan.get_per_commitment_point(n)?;
                let hp = chan.keys.pubkeys();
                let cpp = chan.counterparty_pubkeys();
                let keys = lightning_signer::lightning::ln::chan_utils::TxCreationKeys::derive_new(
                    &Secp256k1::new(),
                    &pt,
                    &hp.delayed_payment_basepoint,
                    &hp.htlc_basepoint,
                    &cpp.revocation_basepoint,
                    &cpp.htlc_basepoint,
                );
                let scripts = build_tx_scripts(
                    &keys,
                    to_h,
                    to_c,
                    &htlcs,
                    &params,
                    &chan.keys.pubkeys().funding_pubkey,
                    &chan.setup.counterparty_points.funding_pubkey,
                )
                .expect("scripts");
                Ok(scripts.iter().map(|s| s.as_bytes().to_vec()).collect::<Vec<_>>())
            })
            .ok()
            .map(|w| (tx, w))
    }

    /// the phase-1 arguments for counterparty commitment `n` with content `id` under `pt`
    fn cp_phase1_args(&self, pt: &PublicKey, n: u64, id: u64) -> Option<(Transaction, Vec<Vec<u8>>)> {
        if n > INITIAL {
            return None;
        }
        let (to_h, to_c) = cp_content(id);
        let htlcs = Channel::htlcs_info2_to_oic(&incoming_htlcs(id), &vec![]);
        self.node
            .with_channel(&self.channel_id, |chan| {
                let cp = chan.make_channel_parameters();
                let params = cp.as_counterparty_broadcastable();
                let keys = chan.make_counterparty_tx_keys(pt);
                let ctx = chan.make_counterparty_commitment_tx(pt, n, 1100, to_h, to_c, htlcs.clone());
                let scripts = build_tx_scripts(
                    &keys,
                    to_c,
                    to_h,
                    &htlcs,
                    &params,
                    &chan.keys.pubkeys().funding_pubkey,
                    &chan.setup.counterparty_points.funding_pubkey,
                )
                .expect("scripts");
                let tx = ctx.trust().built_transaction().transaction.clone();
                Ok((tx, scripts.iter().map(|s| s.as_bytes().to_vec()).collect::<Vec<_>>()))
            })
            .ok()
    }

    fn node_ctx(&self) -> TestNodeContext {
        TestNodeContext { node: self.node.clone(), secp_ctx: Secp256k1::signing_only() }
    }

    fn is_ready(&self) -> bool {
        let slot = self.node.get_channel(&self.channel_id).expect("slot");
        let g = slot.lock().unwrap();
        matches!(&*g, ChannelSlot::Ready(_))
    }

    fn estate(&self) -> Option<EnforcementState> {
        let slot = self.node.get_channel(&self.channel_id).expect("slot");
        let g = slot.lock().unwrap();
        match &*g {
            ChannelSlot::Ready(c) => Some(c.enforcement_state.clone()),
            _ => None,
        }
    }

    fn disk_estate(&self) -> Option<EnforcementState> {
        let chans = self.world.persister.get_node_channels(&self.node_id).expect("channels");
        for (id, e) in chans {
            if id == self.channel_id {
                return e.channel_setup.as_ref().map(|_| e.enforcement_state.clone());
            }
        }
        None
    }

    /// the transaction whose output 0 is the channel's funding outpoint (the same for every
    /// set-up of the channel)
    fn funding_tx() -> Transaction {
        use lightning_signer::bitcoin::{absolute::LockTime, transaction::Version, Amount, OutPoint, Sequence, TxIn, TxOut, Witness};
        Transaction {
            version: Version::TWO,
            lock_time: LockTime::ZERO,
            input: vec![TxIn {
                previous_output: OutPoint { txid: lightning_signer::bitcoin::Txid::all_zeros(), vout: 3 },
                script_sig: ScriptBuf::new(),
                sequence: Sequence::MAX,
                witness: Witness::default(),
            }],
            output: vec![TxOut { value: Amount::from_sat(VALUE), script_pubkey: ScriptBuf::from(vec![0x00, 0x20, 7, 7, 7, 7, 7, 7, 7, 7, 7, 7, 7, 7, 7, 7, 7, 7, 7, 7, 7, 7, 7, 7, 7, 7, 7, 7, 7, 7, 7, 7, 7, 7]) }],
        }
    }

    fn setup(&mut self) -> bool {
        let mut setup = make_test_channel_setup();
        setup.channel_value_sat = VALUE;
        let ftx = Sys::funding_tx();
        setup.funding_outpoint = lightning_signer::bitcoin::OutPoint { txid: ftx.compute_txid(), vout: 0 };
        let was_ready = self.is_ready();
        let r = self.node.setup_channel(self.channel_id.clone(), None, setup.clone(), &DerivationPath::master());
        if r.is_ok() && !was_ready && self.world.onchain {
            // the on-chain validator lets the channel move past its first commitment only once the
            // funding is buried: two blocks reach the channel's monitor, the second one carries
            // the funding transaction, and the tracker entry that holds the monitor is written
            use lightning_signer::chain::tracker::ChainListener;
            let tracker = self.node.get_tracker();
            let h = BlockHash::all_zeros();
            for (_, (listener, _)) in tracker.listeners.iter() {
                listener.on_add_block(&[], &h);
                listener.on_add_block(&[ftx.clone()], &h);
            }
            self.world.persister.update_tracker(&self.node_id, &tracker).expect("update_tracker");
        }
        if r.is_ok() {
            self.set_up = true;
            let nctx = self.node_ctx();
            let keys = make_test_counterparty_keys(&nctx, &self.channel_id, VALUE);
            self.chan_ctx = Some(TestChannelContext {
                channel_id: self.channel_id.clone(),
                setup,
                counterparty_keys: keys,
            });
        }
        r.is_ok()
    }

    /// a set-up that the policy refuses (a contest delay out of range), directly or as the
    /// SetupChannel message, on whatever the slot is
    fn setup_refused(&mut self, which: u64, wire: bool) -> bool {
        let mut setup = make_test_channel_setup();
        setup.channel_value_sat = VALUE;
        let ftx = Sys::funding_tx();
        setup.funding_outpoint = lightning_signer::bitcoin::OutPoint { txid: ftx.compute_txid(), vout: 0 };
        if which == 0 {
            setup.holder_selected_contest_delay = 2;
        } else {
            setup.counterparty_selected_contest_delay = 3000;
        }
        let ok = if wire {
            setup_channel_via_handler(&self.node, self.proto, self.peer_id, self.dbid, &setup)
        } else {
            self.node.setup_channel(self.channel_id.clone(), None, setup.clone(), &DerivationPath::master()).is_ok()
        };
        if self.chan_ctx.is_none() && self.is_ready() {
            // the slot turned ready although no set-up was accepted: the history goes on with the
            // requests of a ready channel, so that it shows what such a channel gives away
            let nctx = self.node_ctx();
            let keys = make_test_counterparty_keys(&nctx, &self.channel_id, VALUE);
            self.chan_ctx = Some(TestChannelContext { channel_id: self.channel_id.clone(), setup, counterparty_keys: keys });
        }
        ok
    }

    /// false: the signer cannot be restored from its store (the restore panics)
    fn restart(&mut self) -> bool {
        let (world, id) = (&self.world, self.node_id);
        match catch_unwind(AssertUnwindSafe(|| world.restart(&id))) {
            Ok(n) => {
                self.node = n;
                self.handler = make_handler(&self.node, self.proto, self.peer_id, self.dbid);
                true
            }
            Err(_) => false,
        }
    }

    /// which holder commitment number does this point / secret belong to (small range)
    fn point_number(&self, p: &PublicKey) -> Option<u64> {
        let slot = self.node.get_channel(&self.channel_id).expect("slot");
        let g = slot.lock().unwrap();
        let keys = match &*g {
            ChannelSlot::Ready(c) => c.keys.clone(),
            ChannelSlot::Stub(s) => s.keys.clone(),
        };
        let secp = Secp256k1::new();
        for k in 0..64u64 {
            if keys.get_per_commitment_point(INITIAL - k, &secp).ok() == Some(*p) {
                return Some(k);
            }
        }
        None
    }
    fn secret_number(&self, s: &[u8]) -> Option<u64> {
        let slot = self.node.get_channel(&self.channel_id).expect("slot");
        let g = slot.lock().unwrap();
        let keys = match &*g {
            ChannelSlot::Ready(c) => c.keys.clone(),
            ChannelSlot::Stub(s) => s.keys.clone(),
        };
        for k in (0..64u64).chain(INITIAL - 8..=INITIAL) {
            if keys.release_commitment_secret(INITIAL - k).ok().map(|x| x.to_vec()) == Some(s.to_vec()) {
                return Some(k);
            }
        }
        None
    }

    /// signatures of the counterparty on holder commitment `n` with content `id` (None when the
    /// channel cannot even build the transaction because `n` is out of range)
    fn cp_sigs(&self, n: u64, id: u64) -> Option<(Signature, Vec<Signature>)> {
        let next = self.estate()?.next_holder_commit_num;
        if n > next + 1 {
            return None;
        }
        let (to_h, to_c) = holder_content(id);
        let nctx = self.node_ctx();
        let cctx = self.chan_ctx.as_ref()?;
        let mut ctx = channel_commitment(&nctx, cctx, n, 1100, to_h, to_c, vec![], incoming_htlcs(id));
        Some(counterparty_sign_holder_commitment(&nctx, cctx, &mut ctx))
    }
}

/// the counterparty's signatures for holder commitment `n` with content `id`; when `sig_ok` is
/// false one of them is wrong: the commitment signature, or (contents with HTLCs) one HTLC
/// signature while the commitment signature is the right one
fn bad_or_good_sigs(
    sys: &Sys,
    rng: &mut Rng,
    n: u64,
    id: u64,
    sigs: &Option<(Signature, Vec<Signature>)>,
    sig_ok: bool,
    short: bool,
) -> (Signature, Vec<Signature>) {
    if !sig_ok && !short && rng.chance(1, 4) {
        // a replay: the counterparty's signatures on the CURRENT commitment (what the signer has
        // stored), presented for this number and content
        if let Some(e) = sys.estate() {
            if let Some(cur) = e.current_holder_commit_info.as_ref() {
                let cur_n = e.next_holder_commit_num.wrapping_sub(1);
                let cur_id = content_id_of(cur, true);
                if (cur_n, cur_id) != (n, id) {
                    if let Some(st) = sys.cp_sigs(cur_n, cur_id) {
                        return st;
                    }
                }
            }
        }
    }
    match (sigs, sig_ok) {
        (Some(s), true) => s.clone(),
        (Some(s), false) if short => {
            // the right signatures, but fewer HTLC signatures than HTLCs
            let keep = rng.below(s.1.len() as u64) as usize;
            (s.0, s.1[..keep].to_vec())
        }
        (Some(s), false) if !s.1.is_empty() && rng.chance(2, 3) => {
            let mut hs = s.1.clone();
            let k = rng.below(hs.len() as u64) as usize;
            match rng.below(3) {
                // the signature of another HTLC transaction / another commitment number
                0 if hs.len() > 1 => {
                    let j = (k + 1) % hs.len();
                    hs[k] = hs[j];
                }
                0 | 1 => {
                    hs[k] = sys.cp_sigs(n.wrapping_add(1), id).and_then(|o| o.1.get(k).cloned()).unwrap_or(s.0);
                }
                // the commitment signature in place of the HTLC signature
                _ => hs[k] = s.0,
            }
            (s.0, hs)
        }
        (Some(s), false) => {
            // a commitment signature over other contents, HTLC signatures untouched
            (sys.cp_sigs(n, if id == 5 { 4 } else { 5 }).map(|o| o.0).unwrap_or(dummy_sig()), s.1.clone())
        }
        _ => (dummy_sig(), vec![]),
    }
}

#[derive(Clone, Debug)]
struct Obs {
    st: &'static str,
    point: Option<u64>,
    secret: Option<u64>,
    hsig: Option<(u64, u64)>,
    cpsig: Option<(u64, u64, u64)>,
}
impl Obs {
    fn refused() -> Obs {
        Obs { st: "Refused", point: None, secret: None, hsig: None, cpsig: None }
    }
    fn ok() -> Obs {
        Obs { st: "Ok", point: None, secret: None, hsig: None, cpsig: None }
    }
    fn abort() -> Obs {
        Obs { st: "Abort", point: None, secret: None, hsig: None, cpsig: None }
    }
    fn coq(&self) -> String {
        let o = |x: &Option<u64>| x.map(|v| format!("Some {}", v)).unwrap_or("None".into());
        format!(
            "(mkO {} ({}) ({}) ({}) ({}))",
            self.st,
            o(&self.point),
            o(&self.secret),
            self.hsig.map(|(n, c)| format!("Some ({}, {})", n, c)).unwrap_or("None".into()),
            self.cpsig.map(|(n, p, c)| format!("Some ({}, {}, {})", n, p, c)).unwrap_or("None".into()),
        )
    }
}

fn opt_id(o: &Option<CommitmentInfo2>, holder: bool) -> String {
    o.as_ref().map(|i| format!("Some {}", content_id_of(i, holder))).unwrap_or("None".into())
}

/// identity of a counterparty point: the genuine point of number n is 1000+n, the decoy for
/// number n (genuine point of n+7) is 2000+n
fn point_id(secp: &Secp256k1<lightning_signer::bitcoin::secp256k1::All>, p: &Option<PublicKey>) -> String {
    match p {
        None => "None".into(),
        Some(p) => match point_code(secp, p) {
            Some(c) => format!("Some {}", 1000 + c),
            None => "Some 9999".into(),
        },
    }
}

fn estate_coq(secp: &Secp256k1<lightning_signer::bitcoin::secp256k1::All>, e: &EnforcementState) -> String {
    let min_seen = e.counterparty_secrets.as_ref().map(|s| s.get_min_seen_secret()).unwrap_or(1 << 48);
    format!(
        "(({}, {}, {}, {}), ({}, {}, {}, {}, {}, {}), {})",
        e.next_holder_commit_num,
        opt_id(&e.current_holder_commit_info, true),
        e.next_holder_commit_info.as_ref().map(|(i, _)| format!("Some {}", content_id_of(i, true))).unwrap_or("None".into()),
        coq_bool(e.channel_closed),
        e.next_counterparty_commit_num,
        e.next_counterparty_revoke_num,
        point_id(secp, &e.current_counterparty_point),
        point_id(secp, &e.previous_counterparty_point),
        opt_id(&e.current_counterparty_commit_info, false),
        opt_id(&e.previous_counterparty_commit_info, false),
        min_seen
    )
}

fn slot_coq(sys: &Sys) -> String {
    match (sys.estate(), sys.disk_estate()) {
        (Some(m), Some(d)) => format!("Some ({}, {})", estate_coq(&sys.secp, &m), estate_coq(&sys.secp, &d)),
        (Some(m), None) => format!("Some ({}, {})", estate_coq(&sys.secp, &m), estate_coq(&sys.secp, &m)),
        _ => "None".into(),
    }
}

fn guarded<F: FnOnce() -> Obs>(f: F) -> Obs {
    match catch_unwind(AssertUnwindSafe(f)) {
        Ok(o) => o,
        Err(_) => Obs::abort(),
    }
}

fn dummy_sig() -> Signature {
    Signature::from_compact(&[1u8; 64]).unwrap_or_else(|_| {
        let mut b = [0u8; 64];
        b[31] = 1;
        b[63] = 1;
        Signature::from_compact(&b).unwrap()
    })
}

fn to_bsig(s: &Signature) -> BitcoinSignature {
    BitcoinSignature { signature: model::Signature(s.serialize_compact()), sighash: 1 }
}

/// one operation: returns (coq op term, json description, observation)
fn do_op(sys: &mut Sys, rng: &mut Rng, extremes: bool, script: Option<(u64, u64)>) -> (String, serde_json::Value, Obs) {
    let est = sys.estate();
    let next = est.as_ref().map(|e| e.next_holder_commit_num).unwrap_or(0);
    let next_c = est.as_ref().map(|e| e.next_counterparty_commit_num).unwrap_or(0);
    let next_r = est.as_ref().map(|e| e.next_counterparty_revoke_num).unwrap_or(0);
    // numbers near a counter, rarely extreme
    let near = |rng: &mut Rng, c: u64| -> u64 {
        match rng.below(16) {
            0 => c.saturating_sub(2),
            1 | 2 => c.saturating_sub(1),
            3..=8 => c,
            9 | 10 | 11 => c + 1,
            12 => c + 2,
            13 => 0,
            14 => c + 3,
            _ => if extremes { u64::MAX - rng.below(3) } else { c + 4 },
        }
    };
    if !sys.is_ready() {
        // stub: mostly set the channel up, sometimes poke it
        return match if script.is_some() { 9 } else { rng.below(7) } {
            0 => {
                let n = near(rng, 0);
                let node = sys.node.clone();
                let cid = sys.channel_id.clone();
                let r = guarded(|| match node.with_channel_base(&cid, |b| b.get_per_commitment_point(n)) {
                    Ok(_) => Obs { point: Some(n), ..Obs::ok() },
                    Err(_) => Obs::refused(),
                });
                (format!("GetPoint {}", n), json!(["get_point", n]), r)
            }
            1 => {
                let n = near(rng, 0);
                let node = sys.node.clone();
                let cid = sys.channel_id.clone();
                let r = guarded(|| match node.with_channel_base(&cid, |b| b.get_per_commitment_secret(n)) {
                    Ok(_) => Obs { secret: Some(n), ..Obs::ok() },
                    Err(_) => Obs::refused(),
                });
                (format!("GetSecret {}", n), json!(["get_secret", n]), r)
            }
            2 => {
                let ok = sys.restart();
                ("Restart".into(), json!("restart"), if ok { Obs::ok() } else { Obs::abort() })
            }
            3 => {
                // a channel request on a stub
                let node = sys.node.clone();
                let cid = sys.channel_id.clone();
                let r = guarded(|| match node.with_channel(&cid, |c| c.revoke_previous_holder_commitment(1)) {
                    Ok(_) => Obs::ok(),
                    Err(_) => Obs::refused(),
                });
                ("Revoke 1 true".into(), json!(["revoke", 1]), r)
            }
            4 => {
                let (which, wire) = (rng.below(2), rng.chance(1, 2));
                let r = guarded(|| if sys.setup_refused(which, wire) { Obs::ok() } else { Obs::refused() });
                ("SetupRefused".into(), json!(["setup_refused_by_policy", which, wire]), r)
            }
            _ => {
                let ok = sys.setup();
                ("Setup".into(), json!("setup"), if ok { Obs::ok() } else { Obs::refused() })
            }
        };
    }
    let node = sys.node.clone();
    let cid = sys.channel_id.clone();
    // about half of the steps follow the protocol (the operation and number that make progress),
    // the rest probe around the counters
    let mut choice = rng.below(100);
    let mut forced: Option<u64> = None;
    if let Some((c, n)) = script {
        choice = c;
        forced = Some(n);
    } else if rng.chance(9, 20) {
        let has_next = est.as_ref().map(|e| e.next_holder_commit_info.is_some()).unwrap_or(false);
        let closed = est.as_ref().map(|e| e.channel_closed).unwrap_or(false);
        if rng.chance(1, 2) && !closed {
            if !has_next {
                choice = if rng.chance(1, 3) { 84 } else { 0 };
                forced = Some(next);
            } else if next == 0 {
                choice = 30;
            } else {
                choice = if sys.proto >= 5 && rng.chance(1, 3) { 95 } else { 18 };
                forced = Some(if choice == 95 { next - 1 } else { next });
            }
        } else if next_c >= next_r + 2 || (next_c == 1 && next_r == 0 && rng.chance(1, 2)) {
            choice = 70;
            forced = Some(next_r);
        } else {
            choice = 53;
            forced = Some(next_c);
        }
    }
    // a cooperative close has a chance only when both sides hold the same HTLC-free balances
    if script.is_none() && forced.is_none() {
        if let Some(e) = est.as_ref() {
            if let (Some(h), Some(c)) = (e.current_holder_commit_info.as_ref(), e.current_counterparty_commit_info.as_ref()) {
                let (hi, ci) = (content_id_of(h, true), content_id_of(c, false));
                if hi == ci && n_htlcs(hi) == 0 && rng.chance(1, 4) {
                    choice = 49;
                }
            }
        }
    }
    let near = |rng: &mut Rng, c: u64| -> u64 {
        match forced {
            Some(f) => f,
            None => near(rng, c),
        }
    };
    let guided = forced.is_some();
    sys.last_choice = choice;
    match choice {
        // ---- holder validation (direct, phase 2)
        0..=17 => {
            let n = near(rng, next);
            let id = if n == 0 { rng.below(3) } else { 4 + rng.below(5) };
            let id = if !guided && rng.chance(1, 10) { 9 } else { id };
            let id = if n.wrapping_add(1) == next && rng.chance(2, 3) {
                est.as_ref().and_then(|e| e.current_holder_commit_info.as_ref()).map(|i| content_id_of(i, true)).unwrap_or(id)
            } else {
                id
            };
            let sig_ok = guided || !rng.chance(1, 6);
            let pol_ok = content_ok(id, n);
            let (to_h, to_c) = holder_content(id);
            let sigs = sys.cp_sigs(n, id);
            // fewer HTLC signatures than HTLCs (the request dies on the running code: the history
            // ends there, so this is rare)
            let short = !sig_ok && sigs.as_ref().map(|s| !s.1.is_empty()).unwrap_or(false) && rng.chance(1, 3);
            let (sig, hs) = bad_or_good_sigs(sys, rng, n, id, &sigs, sig_ok, short);
            let sigq = if short { "SShort" } else { coq_bool(sig_ok) };
            // a third of the requests go through the phase-1 entry point (transaction + witness
            // scripts, decoded and recomposed by the signer); same request as far as the model goes
            let p1 = if rng.chance(1, 3) { sys.phase1_args(n, id) } else { None };
            let r = guarded(|| {
                match node.with_channel(&cid, |c| match &p1 {
                    Some((tx, ws)) => c.validate_holder_commitment_tx(tx, ws, n, 1100, vec![], incoming_htlcs(id), &sig, &hs),
                    None => c.validate_holder_commitment_tx_phase2(n, 1100, to_h, to_c, vec![], incoming_htlcs(id), &sig, &hs),
                }) {
                    Ok(()) => Obs::ok(),
                    Err(_) => Obs::refused(),
                }
            });
            (
                format!("ValidateHolder {} {} {} {}", n, id, sigq, coq_bool(pol_ok)),
                json!(["validate_holder", n, id, if short { json!("short") } else { json!(sig_ok) }, pol_ok]),
                r,
            )
        }
        // ---- revoke
        18..=29 => {
            let n = near(rng, next);
            let sysr: &Sys = sys;
            let r = guarded(|| match node.with_channel(&cid, |c| c.revoke_previous_holder_commitment(n)) {
                Ok((p, s)) => Obs {
                    point: sysr.point_number(&p),
                    secret: s.and_then(|s| sysr.secret_number(&s[..])),
                    ..Obs::ok()
                },
                Err(_) => Obs::refused(),
            });
            (format!("Revoke {} true", n), json!(["revoke", n]), r)
        }
        30..=33 => {
            let r = guarded(|| match node.with_channel(&cid, |c| c.activate_initial_commitment()) {
                Ok(p) => Obs { point: sys.point_number(&p), ..Obs::ok() },
                Err(_) => Obs::refused(),
            });
            ("Activate".into(), json!("activate"), r)
        }
        34..=37 => {
            let n = near(rng, next + 1);
            let r = guarded(|| match node.with_channel_base(&cid, |b| b.get_per_commitment_point(n)) {
                Ok(p) => Obs { point: sys.point_number(&p).or(Some(n)), ..Obs::ok() },
                Err(_) => Obs::refused(),
            });
            (format!("GetPoint {}", n), json!(["get_point", n]), r)
        }
        38..=43 => {
            let n = near(rng, next.saturating_sub(2));
            let r = guarded(|| match node.with_channel_base(&cid, |b| b.get_per_commitment_secret(n)) {
                Ok(s) => Obs { secret: sys.secret_number(&s[..]).or(Some(n)), ..Obs::ok() },
                Err(_) => Obs::refused(),
            });
            (format!("GetSecret {}", n), json!(["get_secret", n]), r)
        }
        44..=46 => {
            let n = near(rng, next.saturating_sub(2));
            let r = guarded(|| match node.with_channel_base(&cid, |b| Ok(b.get_per_commitment_secret_or_none(n))) {
                Ok(Some(s)) => Obs { secret: sys.secret_number(&s[..]).or(Some(n)), ..Obs::ok() },
                Ok(None) => Obs::ok(),
                Err(_) => Obs::refused(),
            });
            (format!("GetSecretOrNone {}", n), json!(["get_secret_or_none", n]), r)
        }
        // ---- holder signing (closes the channel)
        // ---- cooperative close (either entry point); the validation verdict is the model's input
        49 if script.is_none() => {
            use lightning_signer::lightning::ln::chan_utils::ClosingTransaction;
            use lightning_signer::wallet::Wallet;
            let path = DerivationPath::from(vec![lightning_signer::bitcoin::bip32::ChildNumber::from_normal_idx(7).unwrap()]);
            let hs = node.get_native_address(&path).expect("address").script_pubkey();
            let cs = ScriptBuf::from(hex::decode("0014aabbccddeeff00112233445566778899aabbccdd").unwrap());
            // the holder's balance of its current commitment, the rest minus a fee to the counterparty
            let to_h = est
                .as_ref()
                .and_then(|e| e.current_holder_commit_info.as_ref())
                .map(|i| i.to_broadcaster_value_sat)
                .unwrap_or(VALUE - 1000);
            let fee = *rng.pick(&[500u64, 1000, 2000, 200_000]);
            let to_h = if rng.chance(1, 6) { to_h.saturating_sub(5_000) } else { to_h };
            let to_c = VALUE.saturating_sub(to_h).saturating_sub(fee);
            let phase1 = rng.chance(1, 2);
            let funding = make_test_channel_setup().funding_outpoint;
            let r = guarded(|| {
                match node.with_channel(&cid, |c| {
                    if phase1 {
                        let ct = ClosingTransaction::new(to_h, to_c, hs.clone(), cs.clone(), c.setup.funding_outpoint);
                        let tx = ct.trust().built_transaction().clone();
                        let opaths: Vec<DerivationPath> =
                            tx.output.iter().map(|o| if o.script_pubkey == hs { path.clone() } else { DerivationPath::master() }).collect();
                        c.sign_mutual_close_tx(&tx, &opaths).map(|_| ())
                    } else {
                        c.sign_mutual_close_tx_phase2(to_h, to_c, &Some(hs.clone()), &Some(cs.clone()), &path).map(|_| ())
                    }
                }) {
                    Ok(()) => Obs::ok(),
                    Err(_) => Obs::refused(),
                }
            });
            let _ = funding;
            let ok = r.st == "Ok";
            (format!("MutualClose {}", coq_bool(ok)), json!(["mutual_close", if phase1 { 1 } else { 2 }, to_h, to_c, ok]), r)
        }
        47..=49 => {
            let n = near(rng, next.saturating_sub(1));
            let cur = est.as_ref().and_then(|e| e.current_holder_commit_info.as_ref()).map(|i| content_id_of(i, true));
            let sysr: &Sys = sys;
            let r = if rng.chance(1, 2) {
                let m = msgs::SignLocalCommitmentTx2 { commitment_number: n };
                let msg = msgs::from_vec(m.as_vec()).expect("request survives the wire");
                guarded(|| match sysr.handler.handle(msg) {
                    Ok(reply) => match msgs::from_vec(reply.as_vec()) {
                        Ok(Message::SignCommitmentTxReply(_)) => Obs { hsig: Some((n, cur.unwrap_or(999))), ..Obs::ok() },
                        _ => Obs::abort(),
                    },
                    Err(_) => Obs::refused(),
                })
            } else {
                guarded(|| match node.with_channel(&cid, |c| c.sign_holder_commitment_tx_phase2(n)) {
                    Ok(_) => Obs { hsig: Some((n, cur.unwrap_or(999))), ..Obs::ok() },
                    Err(_) => Obs::refused(),
                })
            };
            (format!("SignHolder {}", n), json!(["sign_holder", n]), r)
        }
        50 => {
            let cur = est.as_ref().and_then(|e| e.current_holder_commit_info.as_ref()).map(|i| content_id_of(i, true));
            let r = guarded(|| match node.with_channel(&cid, |c| c.sign_holder_commitment_tx_for_recovery(1000, &[]).map(|_| ())) {
                Ok(()) => Obs { hsig: Some((next.wrapping_sub(1), cur.unwrap_or(999))), ..Obs::ok() },
                Err(_) => Obs::refused(),
            });
            ("SignRecovery".into(), json!("sign_recovery"), r)
        }
        51..=52 => {
            let n = near(rng, next);
            let id = if n == 0 { rng.below(3) } else { 4 + rng.below(5) };
            let id = if n.wrapping_add(1) == next && rng.chance(1, 2) {
                est.as_ref().and_then(|e| e.current_holder_commit_info.as_ref()).map(|i| content_id_of(i, true)).unwrap_or(id)
            } else {
                id
            };
            let pol_ok = content_ok(id, n);
            let (to_h, to_c) = holder_content(id);
            let r = guarded(|| match node.with_channel(&cid, |c| {
                c.sign_holder_commitment_tx_phase2_redundant(n, 1100, to_h, to_c, vec![], incoming_htlcs(id))
            }) {
                Ok(_) => Obs { hsig: Some((n, id)), ..Obs::ok() },
                Err(_) => Obs::refused(),
            });
            (
                format!("SignRedundant {} {} {}", n, id, coq_bool(pol_ok)),
                json!(["sign_redundant", n, id, pol_ok]),
                r,
            )
        }
        // ---- counterparty commitments
        53..=69 => {
            let n = near(rng, next_c);
            let decoy = !guided && rng.chance(1, 6);
            // a point from outside the derivation tree (also on the protocol-guided path: the
            // signer cannot tell until the revocation)
            let rogue = !decoy && rng.chance(1, 7);
            let pt_num = if decoy { n.wrapping_add(7) % 40 } else if rogue { 3000 + n % 40 } else { n % 40 };
            let pt = point_of(&sys.secp, &secret_of_code(pt_num));
            let pt_id = 1000 + pt_num;
            let id = if n == 0 { rng.below(3) } else { 4 + rng.below(5) };
            let id = if rng.chance(1, 10) { 9 } else { id };
            let id = if n.wrapping_add(1) == next_c && rng.chance(2, 3) {
                est.as_ref().and_then(|e| e.current_counterparty_commit_info.as_ref()).map(|i| content_id_of(i, false)).unwrap_or(id)
            } else {
                id
            };
            // a re-sign request that differs from what was signed in the expiry of one HTLC only
            let id = if n.wrapping_add(1) == next_c && (id == 7 || id == 8) && rng.chance(1, 3) { 15 - id } else { id };
            let pol_ok = content_ok(id, n);
            let (to_h, to_c) = cp_content(id);
            // three routes to the same request: the phase-1 entry point, the protocol message
            // SignRemoteCommitmentTx2 through the channel handler, the phase-2 entry point
            let route = rng.below(3);
            let p1 = if route == 0 { sys.cp_phase1_args(&pt, n, id) } else { None };
            let sysr: &Sys = sys;
            // one message in five carries an HTLC entry whose side byte is neither LOCAL nor REMOTE: the handler
            // leaves such an entry out, the request is the one without it
            let junk_side = route == 1 && rng.chance(1, 5);
            let r = if route == 1 {
                let m = msgs::SignRemoteCommitmentTx2 {
                    remote_per_commitment_point: PubKey(pt.serialize()),
                    commitment_number: n,
                    feerate: 1100,
                    to_local_value_sat: to_h,
                    to_remote_value_sat: to_c,
                    htlcs: Array(
                        incoming_htlcs(id)
                            .iter()
                            .map(|h| model::Htlc {
                                side: model::Htlc::REMOTE,
                                amount: h.value_sat * 1000,
                                payment_hash: model::Sha256(h.payment_hash.0),
                                ctlv_expiry: h.cltv_expiry,
                            })
                            .chain(
                                (if junk_side { vec![model::Htlc { side: 2, amount: 7_000_000, payment_hash: model::Sha256([0x5a; 32]), ctlv_expiry: 800 }] } else { vec![] })
                                    .into_iter(),
                            )
                            .collect(),
                    ),
                };
                let msg = msgs::from_vec(m.as_vec()).expect("request survives the wire");
                guarded(|| match sysr.handler.handle(msg) {
                    Ok(reply) => match msgs::from_vec(reply.as_vec()) {
                        Ok(Message::SignCommitmentTxWithHtlcsReply(rep)) if rep.htlc_signatures.len() == incoming_htlcs(id).len() => {
                            Obs { cpsig: Some((n, pt_id, id)), ..Obs::ok() }
                        }
                        _ => Obs::abort(),
                    },
                    Err(_) => Obs::refused(),
                })
            } else {
                guarded(|| match node.with_channel(&cid, |c| match &p1 {
                    Some((tx, ws)) => c.sign_counterparty_commitment_tx(tx, ws, &pt, n, 1100, incoming_htlcs(id), vec![]).map(|_| ()),
                    None => c.sign_counterparty_commitment_tx_phase2(&pt, n, 1100, to_h, to_c, incoming_htlcs(id), vec![]).map(|_| ()),
                }) {
                    Ok(_) => Obs { cpsig: Some((n, pt_id, id)), ..Obs::ok() },
                    Err(_) => Obs::refused(),
                })
            };
            (
                format!("SignCp {} {} {} {}", n, pt_id, id, coq_bool(pol_ok)),
                json!(["sign_cp", n, pt_id, id, pol_ok]),
                r,
            )
        }
        // ---- counterparty revocations
        70..=83 => {
            let rn = near(rng, next_r);
            let variant = if guided { 7 } else { rng.below(8) };
            // whose secret do we present
            // the secret behind the point that was signed for rn, if the channel still has it
            let signed_code = est.as_ref().and_then(|e| {
                let p = if rn.wrapping_add(1) == e.next_counterparty_commit_num {
                    e.current_counterparty_point
                } else if rn.wrapping_add(2) == e.next_counterparty_commit_num {
                    e.previous_counterparty_point
                } else {
                    None
                };
                p.and_then(|p| point_code(&sys.secp, &p))
            });
            let sec_num = match variant {
                0 => rn.wrapping_add(7) % 40, // decoy point
                1 => rn.wrapping_add(1) % 40, // future
                2 => rn.wrapping_sub(1) % 40, // stale
                3 => 3000 + rn % 40,          // rogue
                _ => signed_code.unwrap_or(rn % 40),
            };
            let secret = secret_of_code(sec_num);
            let sk = SecretKey::from_slice(&secret).unwrap();
            // oracle: would the real store accept this secret at this index (on a copy)
            let chains = est
                .as_ref()
                .and_then(|e| e.counterparty_secrets.clone())
                .map(|mut s| rn <= INITIAL && s.provide_secret(INITIAL - rn, secret).is_ok())
                .unwrap_or(true);
            let sysr: &Sys = sys;
            let r = if rng.chance(1, 3) {
                // as the protocol message
                let m = msgs::ValidateRevocation { commitment_number: rn, commitment_secret: model::DisclosedSecret(secret) };
                let msg = msgs::from_vec(m.as_vec()).expect("request survives the wire");
                guarded(|| match sysr.handler.handle(msg) {
                    Ok(reply) => match msgs::from_vec(reply.as_vec()) {
                        Ok(Message::ValidateRevocationReply(_)) => Obs::ok(),
                        _ => Obs::abort(),
                    },
                    Err(_) => Obs::refused(),
                })
            } else {
                guarded(|| match node.with_channel(&cid, |c| c.validate_counterparty_revocation(rn, &sk)) {
                    Ok(()) => Obs::ok(),
                    Err(_) => Obs::refused(),
                })
            };
            (
                format!("ValidateRevocation {} {} {} {}", rn, 1000 + sec_num, sec_num, coq_bool(chains)),
                json!(["validate_revocation", rn, sec_num, chains]),
                r,
            )
        }
        // ---- handler composites through real protocol messages
        84..=91 => {
            let n = near(rng, next);
            let id = if n == 0 { rng.below(3) } else { 4 + rng.below(5) };
            let sig_ok = guided || !rng.chance(1, 6);
            let pol_ok = content_ok(id, n);
            let (to_h, to_c) = holder_content(id);
            let sigs = sys.cp_sigs(n, id);
            // fewer HTLC signatures than HTLCs (the request dies on the running code: the history
            // ends there, so this is rare)
            let short = !sig_ok && sigs.as_ref().map(|s| !s.1.is_empty()).unwrap_or(false) && rng.chance(1, 3);
            let (sig, hs) = bad_or_good_sigs(sys, rng, n, id, &sigs, sig_ok, short);
            let sigq = if short { "SShort" } else { coq_bool(sig_ok) };
            let m = msgs::ValidateCommitmentTx2 {
                commitment_number: n,
                feerate: 1100,
                to_local_value_sat: to_h,
                to_remote_value_sat: to_c,
                htlcs: Array(
                    incoming_htlcs(id)
                        .iter()
                        .map(|h| model::Htlc {
                            side: model::Htlc::REMOTE,
                            amount: h.value_sat * 1000,
                            payment_hash: model::Sha256(h.payment_hash.0),
                            ctlv_expiry: h.cltv_expiry,
                        })
                        .collect(),
                ),
                signature: to_bsig(&sig),
                htlc_signatures: Array(hs.iter().map(to_bsig).collect()),
            };
            // a third of them as the phase-1 message: the transaction itself, with the witness
            // scripts carried by a PSBT
            let htlcs_wire = || {
                Array(
                    incoming_htlcs(id)
                        .iter()
                        .map(|h| model::Htlc {
                            side: model::Htlc::REMOTE,
                            amount: h.value_sat * 1000,
                            payment_hash: model::Sha256(h.payment_hash.0),
                            ctlv_expiry: h.cltv_expiry,
                        })
                        .collect(),
                )
            };
            let p1 = if rng.chance(1, 3) { sys.phase1_args(n, id) } else { None };
            let msg = match p1 {
                Some((tx, ws)) => {
                    let mut psbt = lightning_signer::bitcoin::psbt::Psbt::from_unsigned_tx(tx.clone()).expect("psbt");
                    for (o, w) in psbt.outputs.iter_mut().zip(ws.iter()) {
                        if !w.is_empty() {
                            o.witness_script = Some(ScriptBuf::from(w.clone()));
                        }
                    }
                    (msgs::ValidateCommitmentTx {
                        tx: vls_protocol::serde_bolt::WithSize(tx),
                        psbt: vls_protocol::serde_bolt::WithSize(psbt.into()),
                        htlcs: htlcs_wire(),
                        commitment_number: n,
                        feerate: 1100,
                        signature: to_bsig(&sig),
                        htlc_signatures: Array(hs.iter().map(to_bsig).collect()),
                    })
                    .as_vec()
                }
                None => m.as_vec(),
            };
            // the message crosses the wire like any other
            let msg = msgs::from_vec(msg).expect("request survives the wire");
            let sysr: &Sys = sys;
            let r = guarded(|| match sysr.handler.handle(msg) {
                Ok(reply) => {
                    let bytes = reply.as_vec();
                    match msgs::from_vec(bytes) {
                        Ok(Message::ValidateCommitmentTxReply(rep)) => Obs {
                            point: PublicKey::from_slice(&rep.next_per_commitment_point.0).ok().and_then(|p| sysr.point_number(&p)),
                            secret: rep.old_commitment_secret.and_then(|s| sysr.secret_number(&s.0[..])),
                            ..Obs::ok()
                        },
                        _ => Obs::abort(),
                    }
                }
                Err(_) => Obs::refused(),
            });
            let name = if sys.proto < 5 { "HValidateOld" } else { "HValidateNew" };
            (
                format!("{} {} {} {} {}{}", name, n, id, sigq, coq_bool(pol_ok), if sys.proto < 5 { " true" } else { "" }),
                json!([name, n, id, if short { json!("short") } else { json!(sig_ok) }, pol_ok]),
                r,
            )
        }
        92..=94 => {
            let n = near(rng, next);
            let sysr: &Sys = sys;
            if sys.proto >= 6 {
                let r = guarded(|| match sysr.handler.handle(Message::GetPerCommitmentPoint(msgs::GetPerCommitmentPoint { commitment_number: n })) {
                    Ok(reply) => match msgs::from_vec(reply.as_vec()) {
                        Ok(Message::GetPerCommitmentPointReply(rep)) => Obs {
                            point: PublicKey::from_slice(&rep.point.0).ok().and_then(|p| sysr.point_number(&p)).or(Some(n)),
                            secret: rep.secret.and_then(|s| sysr.secret_number(&s.0[..])),
                            ..Obs::ok()
                        },
                        _ => Obs::abort(),
                    },
                    Err(_) => Obs::refused(),
                });
                (format!("GetPoint {}", n), json!(["h_get_point_v6", n]), r)
            } else {
                let r = guarded(|| match sysr.handler.handle(Message::GetPerCommitmentPoint(msgs::GetPerCommitmentPoint { commitment_number: n })) {
                    Ok(reply) => match msgs::from_vec(reply.as_vec()) {
                        Ok(Message::GetPerCommitmentPointReply(rep)) => Obs {
                            point: PublicKey::from_slice(&rep.point.0).ok().and_then(|p| sysr.point_number(&p)).or(Some(n)),
                            secret: rep.secret.and_then(|s| sysr.secret_number(&s.0[..])),
                            ..Obs::ok()
                        },
                        _ => Obs::abort(),
                    },
                    Err(_) => Obs::refused(),
                });
                (format!("HGetPointOld {}", n), json!(["h_get_point_old", n]), r)
            }
        }
        95..=97 => {
            if sys.proto < 5 {
                // RevokeCommitmentTx is refused below protocol 5 without touching the channel
                let n = near(rng, next.saturating_sub(1));
                let sysr: &Sys = sys;
                let r = guarded(|| match sysr.handler.handle(Message::RevokeCommitmentTx(msgs::RevokeCommitmentTx { commitment_number: n })) {
                    Ok(_) => Obs::ok(),
                    Err(_) => Obs::refused(),
                });
                // in the model: a refused GetPoint far out of range changes nothing either
                let _ = r;
                (format!("GetPoint {}", u64::MAX), json!(["h_revoke_below_v5", n]), Obs::refused())
            } else {
                let n = near(rng, next.saturating_sub(1));
                let sysr: &Sys = sys;
                let r = guarded(|| match sysr.handler.handle(Message::RevokeCommitmentTx(msgs::RevokeCommitmentTx { commitment_number: n })) {
                    Ok(reply) => match msgs::from_vec(reply.as_vec()) {
                        Ok(Message::RevokeCommitmentTxReply(rep)) => Obs {
                            point: PublicKey::from_slice(&rep.next_per_commitment_point.0).ok().and_then(|p| sysr.point_number(&p)),
                            secret: sysr.secret_number(&rep.old_commitment_secret.0[..]),
                            ..Obs::ok()
                        },
                        _ => Obs::abort(),
                    },
                    Err(_) => Obs::refused(),
                });
                (format!("HRevoke {} true", n), json!(["h_revoke", n]), r)
            }
        }
        98 if script.is_none() && rng.chance(1, 2) => {
            let (which, wire) = (rng.below(2), rng.chance(1, 2));
            let r = guarded(|| if sys.setup_refused(which, wire) { Obs::ok() } else { Obs::refused() });
            ("SetupRefused".into(), json!(["setup_refused_by_policy", which, wire]), r)
        }
        _ => {
            let ok = sys.restart();
            ("Restart".into(), json!("restart"), if ok { Obs::ok() } else { Obs::abort() })
        }
    }
}

/// implementation-side monitors for C01 / C02 / C03 on one history
#[derive(Default)]
struct Monitor {
    validated: Vec<u64>,   // numbers accepted with good signatures
    disclosed: Vec<u64>,
    hsigned: Vec<u64>,
    cp_signed: Vec<(u64, u64, u64)>,
    cp_revoked: Vec<u64>, // numbers revoked by a secret the signer accepted
    violations: Vec<String>,
    closed_disclosed_snapshot: Option<Vec<u64>>,
}

/// one step of the implementation-side monitors for C01 / C02 / C03 (the properties themselves, on
/// the implementation's answers).  [write_failed]: the request's channel write was refused by
/// the store (the reply is an error; what the request did in memory stays)
fn monitor_step(mon: &mut Monitor, sys: &Sys, warn_empty: bool, j: &serde_json::Value, o: &Obs, write_failed: bool) {
    // monitors (the properties themselves, on the implementation's answers)
    if o.st == "Ok" {
        if let Some(arr) = j.as_array() {
            let name = arr[0].as_str().unwrap_or("");
            if (name == "validate_holder" || name.starts_with("HValidate")) && arr[3].as_bool() == Some(true) {
                mon.validated.push(arr[1].as_u64().unwrap());
            }
        }
    } else if let Some(arr) = j.as_array() {
        // composite whose validation half succeeded although the reply is an error:
        // the channel then holds the validated content
        let name = arr[0].as_str().unwrap_or("");
        if (name.starts_with("HValidate") || (write_failed && name == "validate_holder")) && arr[3].as_bool() == Some(true) {
            if let Some(e) = sys.estate() {
                let n = arr[1].as_u64().unwrap();
                if e.next_holder_commit_num == n
                    && e.next_holder_commit_info.as_ref().map(|(i, _)| content_id_of(i, true)) == arr[2].as_u64()
                {
                    mon.validated.push(n);
                }
            }
        }
    }
    if let Some(k) = o.secret {
        if !sys.set_up {
            mon.violations.push(format!("C01: secret {} disclosed by a channel that was never set up (every set-up request was refused)", k));
        }
        if !mon.validated.contains(&k.wrapping_add(1)) && warn_empty {
            mon.violations.push(format!("C01: secret {} disclosed but {} was never accepted with valid signatures", k, k + 1));
        }
        if mon.hsigned.contains(&k) && warn_empty {
            mon.violations.push(format!("C02: secret {} disclosed after commitment {} was signed for broadcast", k, k));
        }
        if let Some(snap) = &mon.closed_disclosed_snapshot {
            if !snap.contains(&k) && warn_empty {
                mon.violations.push(format!("C02: new secret {} disclosed after a holder signature was released", k));
            }
        }
        mon.disclosed.push(k);
    }
    if let Some((n, _)) = o.hsig {
        if mon.disclosed.contains(&n) && warn_empty {
            mon.violations.push(format!("C02: commitment {} signed for broadcast after its secret was disclosed", n));
        }
        mon.hsigned.push(n);
        if mon.closed_disclosed_snapshot.is_none() {
            mon.closed_disclosed_snapshot = Some(mon.disclosed.clone());
        }
    }
    if let Some((n, p, c)) = o.cpsig {
        // C03: window and re-sign-same
        if let Some(e) = sys.estate() {
            if warn_empty && n > e.next_counterparty_revoke_num + 1 {
                mon.violations.push(format!("C03: signed counterparty commitment {} with next_revoke {}", n, e.next_counterparty_revoke_num));
            }
        }
        if warn_empty {
            if let Some((_, p0, c0)) = mon.cp_signed.iter().rev().find(|(m, _, _)| *m == n) {
                if *p0 != p || *c0 != c {
                    mon.violations.push(format!("C03: re-signed counterparty commitment {} with different point/content", n));
                }
            }
        }
        // C03, on the monitor's own record of accepted revocations (not the signer's counter)
        if warn_empty && n >= 2 && !mon.cp_signed.iter().any(|(m, _, _)| *m == n) && !mon.cp_revoked.contains(&(n - 2)) {
            mon.violations.push(format!("C03: signed counterparty commitment {} although {} was never revoked by an accepted secret", n, n - 2));
        }
        mon.cp_signed.push((n, p, c));
    }
    if let Some(arr) = j.as_array() {
        if arr[0] == "validate_revocation" && o.st == "Ok" && warn_empty {
            let rn = arr[1].as_u64().unwrap();
            let sec = arr[2].as_u64().unwrap();
            // the accepted secret must be the secret of the point signed for rn
            match mon.cp_signed.iter().rev().find(|(m, _, _)| *m == rn) {
                Some((_, p, _)) if *p == 1000 + sec => {}
                _ => mon.violations.push(format!("C03: accepted revocation of {} with the secret of point {}", rn, 1000 + sec)),
            }
            mon.cp_revoked.push(rn);
        }
    }}

fn run(args: &Args) {
    // panics inside the code under test are observations (Abort), not noise
    if std::env::var("VERIF_SHOW_PANICS").is_err() {
        std::panic::set_hook(Box::new(|_| {}));
    }
    let mut rng = Rng::new(args.seed ^ 0xc4a7);
    let mut kinds: std::collections::BTreeMap<String, (u64, u64, u64)> = Default::default();
    let mut n_viol = 0u64;
    let max_len = if args.tier == "thorough" { 40 } else { 28 };
    for case in 0..args.n {
        let proto = *rng.pick(&[4u32, 5, 6, 6]);
        // a few cases run with one tag downgraded to a warning
        let warn: Vec<&str> = match rng.below(12) {
            0 => vec!["policy-commitment-retry-same"],
            1 => vec!["policy-commitment-previous-revoked"],
            // an error rule shadows a later warn rule for the same tag (a strict configuration
            // merged with a lenient one): nothing is downgraded
            2 => vec!["!policy-commitment-retry-same"],
            3 => vec!["!policy-commitment-previous-revoked"],
            _ => vec![],
        };
        let warn_coq = match warn.first() {
            Some(&"policy-commitment-retry-same") => "WRetrySame",
            Some(&"policy-commitment-previous-revoked") => "WPrevRevoked",
            _ => "WNone",
        };
        // the first cases replay a corpus of scripted histories: (choice, number) per step
        let corpus: Vec<(u32, Vec<(u64, u64)>)> = vec![
            // RevokeCommitmentTx with commitment_number 2^64-1 after the initial commitment was validated
            (5, vec![(99, 0), (0, 0), (95, u64::MAX)]),
            // a look at commitment next+1 through the composite handler
            (5, vec![(99, 0), (0, 0), (30, 0), (84, 2)]),
            (4, vec![(99, 0), (0, 0), (30, 0), (84, 2)]),
        ];
        let script: Option<Vec<(u64, u64)>> = corpus.get(case).map(|c| c.1.clone());
        let proto = corpus.get(case).map(|c| c.0).unwrap_or(proto);
        let warn: Vec<&str> = if script.is_some() { vec![] } else { warn };
        let warn_coq = if script.is_some() { "WNone" } else { warn_coq };
        let mut sys = Sys::new(case, proto, &warn);
        let len = script.as_ref().map(|s| s.len()).unwrap_or(4 + rng.below(max_len) as usize);
        let mut ops = vec![];
        let mut obs = vec![];
        let mut jops = vec![];
        let mut mon = Monitor::default();
        let mut aborted = false;
        for step_no in 0..len {
            // out-of-range extremes only under the default filter: with a downgraded tag the request goes on
            // into transaction building, whose own arithmetic is outside this model
            let before_fp = fingerprint_full(&sys.node);
            let before_store = store_dump(&sys.world.persister);
            let (op, j, o) = do_op(&mut sys, &mut rng, warn.is_empty(), script.as_ref().and_then(|s| s.get(step_no).copied()));
            // C10: a refused request changes nothing; C11: what the request left is durable
            if o.st == "Refused" && warn.is_empty() {
                let mut d = fingerprint_diff(&before_fp, &fingerprint_full(&sys.node));
                d.extend(store_diff(&before_store, &store_dump(&sys.world.persister)));
                if !d.is_empty() {
                    mon.violations.push(format!("C10: refused {} changed: {}", op, d.join("; ")));
                }
            }
            if o.st == "Abort" && op == "Restart" {
                mon.violations.push("C11: the signer cannot be restored from its store (restore panics)".to_string());
            }
            if o.st != "Abort" && op != "Restart" {
                let mut d = restart_gap(&sys.world, &sys.node);
                if !warn.is_empty() {
                    // with a rule downgraded to a warning the signer carries on past a failed
                    // commitment-number check: what the payment ledger then holds is not a
                    // function of the stored commitments (outside the property: policy is off)
                    d.retain(|x| !x.starts_with("payments"));
                }
                if !d.is_empty() && !mon.violations.iter().any(|v| v.starts_with("C11")) {
                    mon.violations.push(format!("C11: after {} ({}) a restart would differ: {}", op, o.st, d.join("; ")));
                }
            }
            let kind = op.split(' ').next().unwrap().to_string();
            let e = kinds.entry(kind).or_insert((0, 0, 0));
            match o.st {
                "Ok" => e.0 += 1,
                "Refused" => e.1 += 1,
                _ => e.2 += 1,
            }
            monitor_step(&mut mon, &sys, warn.is_empty(), &j, &o, false);
            ops.push(op);
            jops.push(json!({"op": j, "st": o.st, "point": o.point, "secret": o.secret}));
            if o.st == "Abort" {
                // a panic poisons the channel lock: the signer process is gone, the history ends here
                obs.push(format!("({}, None)", o.coq()));
                aborted = true;
                break;
            }
            obs.push(format!("({}, {})", o.coq(), slot_coq(&sys)));
        }
        n_viol += mon.violations.len() as u64;
        let profile = if cfg!(debug_assertions) { "Debug" } else { "Release" };
        let coq = format!("(({}, {}), {}, {})", warn_coq, profile, coq_list(&ops), coq_list(&obs));
        emit(
            "CASE",
            json!({"id": case, "proto": proto, "validator": if sys.world.onchain { "onchain" } else { "simple" }, "warn": warn, "profile": profile, "aborted": aborted, "ops": jops, "monitor_violations": mon.violations,
                   "disclosed": mon.disclosed, "hsigned": mon.hsigned, "coq": coq}),
        );
    }
    let kinds_json: serde_json::Map<String, serde_json::Value> =
        kinds.into_iter().map(|(k, (a, b, c))| (k, json!({"ok": a, "refused": b, "abort": c}))).collect();
    emit("STATS", json!({"kind": "chan", "ops": kinds_json, "monitor_violations": n_viol}));
}

/// Histories in which the store refuses a channel write now and then - a crash at the very point
/// where a request writes the channel: the request answers with an error, what it did in memory
/// stays ahead of the store.  What follows is the same request again (the node retries), a
/// restart (the process was gone), or just the next request.  The models know nothing about a
/// failing store: only the monitors of C01 / C02 / C03 decide here, on the replies alone.
fn run_faulty(args: &Args) {
    if std::env::var("VERIF_SHOW_PANICS").is_err() {
        std::panic::set_hook(Box::new(|_| {}));
    }
    let mut rng = Rng::new(args.seed ^ 0xfa17);
    let max_len = if args.tier == "thorough" { 44 } else { 32 };
    let mut n_viol = 0u64;
    let (mut n_failed, mut n_retried, mut n_restarted, mut n_retry_ok, mut n_ok_despite) = (0u64, 0u64, 0u64, 0u64, 0u64);
    // scripted: (choice, number) per step; 1000 + choice = the store refuses this request's channel write
    let corpus: Vec<(u32, Vec<(u64, u64)>)> = vec![
        // successor validated ahead, the write of the force-close signature fails, the node asks again, restart, revoke
        (5, vec![(99, 0), (0, 0), (30, 0), (53, 0), (0, 1), (18, 1), (53, 1), (0, 2), (1047, 1), (47, 1), (99, 0), (18, 2), (95, 1)]),
        (6, vec![(99, 0), (0, 0), (30, 0), (53, 0), (0, 1), (95, 0), (0, 2), (1047, 1), (47, 1), (47, 1), (99, 0), (95, 1), (18, 2)]),
        // the write of the revocation fails, restart, the old commitment is signed for broadcast, revoke again
        (5, vec![(99, 0), (0, 0), (30, 0), (53, 0), (0, 1), (1018, 1), (99, 0), (47, 0), (18, 1), (95, 0)]),
        (5, vec![(99, 0), (0, 0), (30, 0), (53, 0), (0, 1), (1018, 1), (18, 1), (47, 0), (99, 0), (47, 0), (47, 1)]),
        // the write of a validation fails; the same again; revoke
        (5, vec![(99, 0), (0, 0), (30, 0), (53, 0), (1000, 1), (18, 1), (99, 0), (18, 1), (0, 1), (18, 1)]),
    ];
    for case in 0..args.n {
        let script: Option<Vec<(u64, u64)>> = corpus.get(case).map(|c| c.1.clone());
        let proto = corpus.get(case).map(|c| c.0).unwrap_or(*rng.pick(&[4u32, 5, 6, 6]));
        let mut sys = Sys::new_on(case, proto, &[], true);
        let fp = sys.fault.clone().expect("faulty world");
        let len = script.as_ref().map(|s| s.len()).unwrap_or(6 + rng.below(max_len) as usize);
        let mut mon = Monitor::default();
        let mut jops = vec![];
        let mut again: Option<(u64, u64)> = None;
        let mut aborted = false;
        for step_no in 0..len {
            let mut scripted = script.as_ref().and_then(|s| s.get(step_no).copied());
            let mut arm = false;
            if let Some((c, n)) = scripted {
                if c >= 1000 {
                    arm = true;
                    scripted = Some((c - 1000, n));
                }
            } else if let Some(a) = again.take() {
                scripted = Some(a);
            } else if sys.is_ready() && rng.chance(1, 5) {
                arm = true;
            }
            if arm {
                fp.arm();
            }
            let fired_before = fp.fired();
            let was_retry = scripted.is_some() && script.is_none();
            let (op, j, o) = do_op(&mut sys, &mut rng, true, scripted);
            fp.disarm();
            let write_failed = fp.fired() > fired_before;
            if was_retry && o.st == "Ok" {
                n_retry_ok += 1;
            }
            monitor_step(&mut mon, &sys, true, &j, &o, write_failed);
            jops.push(json!({"op": j, "st": o.st, "point": o.point, "secret": o.secret, "channel_write_refused": write_failed}));
            if o.st == "Abort" {
                aborted = true;
                break;
            }
            if write_failed {
                n_failed += 1;
                if o.st == "Ok" {
                    n_ok_despite += 1;
                }
                if script.is_none() {
                    match rng.below(5) {
                        0 | 1 => {
                            // the node asks again
                            let n = op.split(' ').nth(1).and_then(|x| x.parse::<u64>().ok()).unwrap_or(0);
                            again = Some((sys.last_choice, n));
                            n_retried += 1;
                        }
                        2 | 3 => {
                            again = Some((99, 0));
                            n_restarted += 1;
                        }
                        _ => {}
                    }
                }
            }
        }
        n_viol += mon.violations.len() as u64;
        emit(
            "FCASE",
            json!({"id": case, "proto": proto, "aborted": aborted, "ops": jops, "monitor_violations": mon.violations,
                   "disclosed": mon.disclosed, "hsigned": mon.hsigned}),
        );
    }
    emit("STATS", json!({"kind": "chan-faulty", "channel_writes_refused": n_failed, "then_same_request_again": n_retried,
                         "same_request_again_answered_ok": n_retry_ok, "then_restart": n_restarted, "answered_ok_although_a_write_was_refused": n_ok_despite, "monitor_violations": n_viol}));
}

fn main() {
    let argv: Vec<String> = std::env::args().collect();
    let args = parse_args(&argv[2..]);
    match argv[1].as_str() {
        "run" => run(&args),
        "faulty" => run_faulty(&args),
        other => panic!("unknown sub-domain {}", other),
    }
}
