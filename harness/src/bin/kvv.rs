//! Domain `kvv` (C16): the real MemoryKVVStore, RedbKVVStore (temp dir, reopen points) and
//! CloudKVVStore<MemoryKVVStore> driven by identical request sequences.  Every case carries
//! the Coq term that `Model.KvvCheck.check_kvv` evaluates, and the monitors below check the
//! property itself on the implementations' answers, independently of the model.
use serde_json::{json, Value};
use std::collections::{BTreeMap, BTreeSet, HashSet};
use std::panic::{catch_unwind, AssertUnwindSafe};
use vharness::*;
use vls_persist::kvv::cloud::CloudKVVStore;
use vls_persist::kvv::memory::MemoryKVVStore;
use vls_persist::kvv::redb::RedbKVVStore;
use vls_persist::kvv::{JsonFormat, KVVPersister, KVVStore, KVV};
use lightning_signer::persist::{Error, Mutations, Persist};

/// every store is driven through the Persist-level wrapper the signer uses
type P<S> = KVVPersister<S, JsonFormat>;
fn wrap<S: KVVStore>(s: S) -> P<S> {
    KVVPersister(s, JsonFormat)
}

type Kvv = (String, u64, Vec<u8>);

#[derive(Clone, Debug, PartialEq, Eq, Hash)]
enum Op {
    Put(String, Vec<u8>),
    PutV(String, u64, Vec<u8>),
    Batch(Vec<Kvv>),
    Delete(String),
    Get(String),
    GetVersion(String),
    GetPrefix(String),
    Reopen,
    Enter,
    Prepare,
    Commit,
    /// put_batch_unlogged: a record list fetched from external storage, applied at start-up
    Unlogged(Vec<Kvv>),
}

#[derive(Clone, Debug, PartialEq, Eq)]
enum Obs {
    Unit,
    Err,
    Abort,
    Val(Option<(u64, Vec<u8>)>),
    Ver(Option<u64>),
    List(Vec<Kvv>),
    /// an error other than VersionMismatch: never expected, reported as such
    Other(String),
}

fn bytes(v: &[u8]) -> String {
    coq_list(&v.iter().map(|b| b.to_string()).collect::<Vec<_>>())
}
fn ckey(k: &str) -> String {
    bytes(k.as_bytes())
}
fn ckvv(e: &Kvv) -> String {
    format!("({},({},{}))", ckey(&e.0), e.1, bytes(&e.2))
}
fn cdump(d: &[Kvv]) -> String {
    coq_list(&d.iter().map(ckvv).collect::<Vec<_>>())
}
fn cop(o: &Op) -> String {
    match o {
        Op::Put(k, v) => format!("Put {} {}", ckey(k), bytes(v)),
        Op::PutV(k, ver, v) => format!("PutV {} {} {}", ckey(k), ver, bytes(v)),
        Op::Batch(l) => format!("Batch {}", cdump(l)),
        Op::Delete(k) => format!("Delete {}", ckey(k)),
        Op::Get(k) => format!("Get {}", ckey(k)),
        Op::GetVersion(k) => format!("GetVersion {}", ckey(k)),
        Op::GetPrefix(k) => format!("GetPrefix {}", ckey(k)),
        Op::Reopen => "Reopen".into(),
        Op::Enter => "Enter".into(),
        Op::Prepare => "Prepare".into(),
        Op::Commit => "Commit".into(),
        Op::Unlogged(l) => format!("Unlogged {}", cdump(l)),
    }
}
fn cobs(o: &Obs) -> String {
    match o {
        Obs::Unit => "OUnit".into(),
        Obs::Err => "OErr".into(),
        Obs::Abort => "OAbort".into(),
        Obs::Val(None) => "OVal None".into(),
        Obs::Val(Some((v, x))) => format!("OVal (Some ({},{}))", v, bytes(x)),
        Obs::Ver(None) => "OVer None".into(),
        Obs::Ver(Some(v)) => format!("OVer (Some {})", v),
        Obs::List(l) => format!("OList {}", cdump(l)),
        // no constructor on the model side: the case cannot compare equal
        Obs::Other(_) => "OErr_unexpected_error_kind".into(),
    }
}
fn skey(k: &str) -> String {
    if k.is_ascii() && !k.chars().any(|c| c.is_control()) {
        k.to_string()
    } else {
        format!("0x{}", hex::encode(k.as_bytes()))
    }
}
fn sval(v: &[u8]) -> String {
    if v.iter().all(|b| b.is_ascii_graphic()) {
        String::from_utf8_lossy(v).to_string()
    } else {
        format!("0x{}", hex::encode(v))
    }
}
fn skvv(e: &Kvv) -> String {
    format!("{}@{}={}", skey(&e.0), e.1, sval(&e.2))
}
fn sop(o: &Op) -> String {
    match o {
        Op::Put(k, v) => format!("put {} {}", skey(k), sval(v)),
        Op::PutV(k, ver, v) => format!("put_with_version {} {} {}", skey(k), ver, sval(v)),
        Op::Batch(l) => format!("put_batch [{}]", l.iter().map(skvv).collect::<Vec<_>>().join(", ")),
        Op::Delete(k) => format!("delete {}", skey(k)),
        Op::Get(k) => format!("get {}", skey(k)),
        Op::GetVersion(k) => format!("get_version {}", skey(k)),
        Op::GetPrefix(k) => format!("get_prefix {}", skey(k)),
        Op::Reopen => "reopen".into(),
        Op::Enter => "enter".into(),
        Op::Prepare => "prepare".into(),
        Op::Commit => "commit".into(),
        Op::Unlogged(l) => format!("put_batch_unlogged [{}]", l.iter().map(skvv).collect::<Vec<_>>().join(", ")),
    }
}
fn sobs(o: &Obs) -> String {
    match o {
        Obs::Unit => "ok".into(),
        Obs::Err => "version_mismatch".into(),
        Obs::Abort => "panic".into(),
        Obs::Val(None) | Obs::Ver(None) => "none".into(),
        Obs::Val(Some((v, x))) => format!("@{}={}", v, sval(x)),
        Obs::Ver(Some(v)) => format!("@{}", v),
        Obs::List(l) => format!("[{}]", l.iter().map(skvv).collect::<Vec<_>>().join(", ")),
        Obs::Other(s) => format!("other_error:{}", s),
    }
}

fn unit(r: Result<(), Error>) -> Obs {
    match r {
        Ok(()) => Obs::Unit,
        Err(Error::VersionMismatch) => Obs::Err,
        Err(e) => Obs::Other(format!("{:?}", e).chars().take(40).collect()),
    }
}

fn guarded(f: impl FnOnce() -> Obs) -> Obs {
    match catch_unwind(AssertUnwindSafe(f)) {
        Ok(o) => o,
        Err(_) => Obs::Abort,
    }
}

/// one request on one real store: the KVVStore calls on the store itself, the transaction calls
/// and put_batch_unlogged (the record list exactly as given, repeated keys included) through
/// `Persist for KVVPersister`
fn apply<S: KVVStore>(p: &P<S>, op: &Op) -> Obs {
    let s: &S = &p.0;
    guarded(|| match op {
        Op::Put(k, v) => unit(s.put(k, v.clone())),
        Op::PutV(k, ver, v) => unit(s.put_with_version(k, *ver, v.clone())),
        Op::Batch(l) => unit(s.put_batch(l.iter().map(|e| KVV(e.0.clone(), (e.1, e.2.clone()))).collect())),
        Op::Delete(k) => unit(s.delete(k)),
        Op::Get(k) => match s.get(k) {
            Ok(r) => Obs::Val(r),
            Err(e) => unit(Err(e)),
        },
        Op::GetVersion(k) => match s.get_version(k) {
            Ok(r) => Obs::Ver(r),
            Err(e) => unit(Err(e)),
        },
        Op::GetPrefix(p) => match s.get_prefix(p) {
            Ok(it) => Obs::List(it.map(|kvv| (kvv.0, kvv.1 .0, kvv.1 .1)).collect()),
            Err(e) => unit(Err(e)),
        },
        Op::Reopen => Obs::Unit,
        Op::Enter => unit(<P<S> as Persist>::enter(p)),
        Op::Prepare => Obs::List(<P<S> as Persist>::prepare(p).into_inner().into_iter().map(|(k, (v, x))| (k, v, x)).collect()),
        Op::Commit => unit(<P<S> as Persist>::commit(p)),
        Op::Unlogged(l) => {
            let muts = Mutations::from_vec(l.iter().map(|e| (e.0.clone(), (e.1, e.2.clone()))).collect());
            unit(<P<S> as Persist>::put_batch_unlogged(p, muts))
        }
    })
}

fn dump<S: KVVStore>(s: &P<S>) -> Vec<Kvv> {
    match apply(s, &Op::GetPrefix(String::new())) {
        Obs::List(l) => l,
        _ => vec![("<dump failed>".into(), 0, vec![])],
    }
}

const SID: [u8; 16] = [7u8; 16];

fn shm() -> std::path::PathBuf {
    let p = std::path::Path::new("/dev/shm");
    if p.is_dir() {
        p.to_path_buf()
    } else {
        std::env::temp_dir()
    }
}

#[derive(Clone, Debug, PartialEq)]
struct Rows {
    m: (Obs, Vec<Kvv>),
    d: (Obs, Vec<Kvv>, Option<Vec<Option<u64>>>),
    c: (Obs, Vec<Kvv>, Option<Vec<Option<(u64, Vec<u8>)>>>),
    /// CloudKVVStore<RedbKVVStore>, restarted at every reopen point
    r: (Obs, Vec<Kvv>, Option<Vec<Option<(u64, Vec<u8>)>>>),
}

type CRow = (Obs, Vec<Kvv>, Option<Vec<Option<(u64, Vec<u8>)>>>);
fn coq_crow(c: &CRow) -> String {
    let view = match &c.2 {
        None => "None".to_string(),
        Some(v) => format!(
            "Some {}",
            coq_list(&v.iter().map(|x| match x {
                None => "None".to_string(),
                Some((n, b)) => format!("Some ({},{})", n, bytes(b)),
            }).collect::<Vec<_>>())
        ),
    };
    format!("({}, {}, {})", cobs(&c.0), cdump(&c.1), view)
}
fn json_crow(c: &CRow) -> Value {
    json!([sobs(&c.0), c.1.iter().map(skvv).collect::<Vec<_>>(),
           c.2.as_ref().map(|v| v.iter().map(|x| x.as_ref().map(|(n, b)| format!("@{}={}", n, sval(b))).unwrap_or("-".into())).collect::<Vec<_>>())])
}

impl Rows {
    fn coq_r(&self) -> String {
        coq_crow(&self.r)
    }
    fn coq_m(&self) -> String {
        format!("({}, {})", cobs(&self.m.0), cdump(&self.m.1))
    }
    fn coq_d(&self) -> String {
        let view = match &self.d.2 {
            None => "None".to_string(),
            Some(v) => format!(
                "Some {}",
                coq_list(&v.iter().map(|x| match x {
                    None => "None".to_string(),
                    Some(n) => format!("Some {}", n),
                }).collect::<Vec<_>>())
            ),
        };
        format!("({}, {}, {})", cobs(&self.d.0), cdump(&self.d.1), view)
    }
    fn coq_c(&self) -> String {
        let view = match &self.c.2 {
            None => "None".to_string(),
            Some(v) => format!(
                "Some {}",
                coq_list(&v.iter().map(|x| match x {
                    None => "None".to_string(),
                    Some((n, b)) => format!("Some ({},{})", n, bytes(b)),
                }).collect::<Vec<_>>())
            ),
        };
        format!("({}, {}, {})", cobs(&self.c.0), cdump(&self.c.1), view)
    }
    fn json(&self) -> Value {
        json!({"mem": [sobs(&self.m.0), self.m.1.iter().map(skvv).collect::<Vec<_>>()],
               "redb": [sobs(&self.d.0), self.d.1.iter().map(skvv).collect::<Vec<_>>(),
                        self.d.2.as_ref().map(|v| v.iter().map(|x| x.map(|n| n.to_string()).unwrap_or("-".into())).collect::<Vec<_>>())],
               "cloud": [sobs(&self.c.0), self.c.1.iter().map(skvv).collect::<Vec<_>>(),
                         self.c.2.as_ref().map(|v| v.iter().map(|x| x.as_ref().map(|(n, b)| format!("@{}={}", n, sval(b))).unwrap_or("-".into())).collect::<Vec<_>>())],
               "cloud_on_redb": json_crow(&self.r)})
    }
}

#[derive(Clone, Debug)]
struct Finding {
    kind: &'static str,
    step: usize,
    detail: String,
    /// only for committed-differs-from-reported: no write request since the last prepare
    window_clean: bool,
}

/// the property itself, on the implementations' answers (no model involved)
#[derive(Clone, Default)]
struct Monitor {
    step: usize,
    max_m: BTreeMap<String, u64>,
    max_d: BTreeMap<String, u64>,
    last_m: BTreeMap<String, (Option<u64>, Vec<u8>)>,
    last_d: BTreeMap<String, (Option<u64>, Vec<u8>)>,
    plain_dead: bool,
    /// ghost state of the two cloud stores: [0] on memory, [1] on redb with restarts
    cg: [CloudGhost; 2],
    findings: Vec<Finding>,
}

#[derive(Clone, Default)]
struct CloudGhost {
    max_local: BTreeMap<String, u64>,
    max_vis: BTreeMap<String, u64>,
    /// highest version of each key in any record list the store accepted through put_batch_unlogged
    told: BTreeMap<String, u64>,
    in_txn: bool,
    cloud_dead: bool,
    reported: Option<Vec<Kvv>>,
    writes_since_report: bool,
}

/// an accepted list must be acceptable entry by entry, in the order given: a key may come back
/// only at a higher version, or at the same version with the same content
fn list_conflict(l: &[Kvv]) -> Option<String> {
    let mut run: BTreeMap<&str, (u64, &Vec<u8>)> = BTreeMap::new();
    for e in l {
        if let Some((v, x)) = run.get(e.0.as_str()) {
            if e.1 < *v {
                return Some(format!("{} after version {}", skvv(e), v));
            }
            if e.1 == *v && e.2 != **x {
                return Some(format!("{} after {}@{}={}", skvv(e), skey(&e.0), v, sval(x)));
            }
            if e.1 == *v {
                continue;
            }
        }
        run.insert(e.0.as_str(), (e.1, &e.2));
    }
    None
}

fn find<'a>(d: &'a [Kvv], k: &str) -> Option<&'a Kvv> {
    d.iter().find(|e| e.0 == k)
}

impl Monitor {
    fn flag(&mut self, kind: &'static str, detail: String) {
        self.findings.push(Finding { kind, step: self.step, detail, window_clean: false });
    }

    /// version monotonicity, same-version rule, batch atomicity, last accepted write - for one
    /// of the two plain backends
    fn plain(&mut self, which: &'static str, op: &Op, obs: &Obs, before: &[Kvv], after: &[Kvv]) {
        let (mut maxv, mut last) = if which == "mem" {
            (std::mem::take(&mut self.max_m), std::mem::take(&mut self.last_m))
        } else {
            (std::mem::take(&mut self.max_d), std::mem::take(&mut self.last_d))
        };
        // a key's version never decreases, a key never disappears
        for (k, mv) in maxv.iter() {
            match find(after, k) {
                None => self.flag("key-vanished", format!("{}: {} had version {}", which, skey(k), mv)),
                Some(e) if e.1 < *mv => self.flag("version-decreased", format!("{}: {} {} -> {}", which, skey(k), mv, e.1)),
                _ => {}
            }
        }
        for e in after {
            let m = maxv.entry(e.0.clone()).or_insert(e.1);
            if e.1 > *m {
                *m = e.1;
            }
        }
        let ok = *obs == Obs::Unit;
        let changed = before != after;
        match op {
            Op::PutV(k, ver, val) => {
                if ok {
                    if let Some(e) = find(before, k) {
                        if e.1 == *ver && e.2 != *val {
                            self.flag("same-version-different-content-accepted", format!("{}: {}", which, sop(op)));
                        }
                        if *ver < e.1 {
                            self.flag("lower-version-accepted", format!("{}: {}", which, sop(op)));
                        }
                    }
                    last.insert(k.clone(), (Some(*ver), val.clone()));
                } else if changed {
                    self.flag("refused-write-changed-store", format!("{}: {}", which, sop(op)));
                }
            }
            Op::Put(k, _) | Op::Delete(k) => {
                let val = if let Op::Put(_, v) = op { v.clone() } else { vec![] };
                if ok {
                    let want = find(before, k).map(|e| e.1.wrapping_add(1)).unwrap_or(0);
                    match find(after, k) {
                        Some(e) if e.1 == want => {}
                        _ => self.flag("put-version", format!("{}: {} expected version {}", which, sop(op), want)),
                    }
                    last.insert(k.clone(), (None, val));
                } else if changed {
                    self.flag("refused-write-changed-store", format!("{}: {}", which, sop(op)));
                }
            }
            Op::Batch(l) | Op::Unlogged(l) => {
                if ok {
                    if let Some(c) = list_conflict(l) {
                        self.flag("list-with-conflicting-repeat-accepted", format!("{}: {} ({})", which, sop(op), c));
                    }
                    for e in l {
                        if let Some(b) = find(before, &e.0) {
                            if b.1 == e.1 && b.2 != e.2 {
                                self.flag("same-version-different-content-accepted", format!("{}: {}", which, sop(op)));
                            }
                            if e.1 < b.1 {
                                self.flag("lower-version-accepted", format!("{}: {}", which, sop(op)));
                            }
                        }
                        last.insert(e.0.clone(), (Some(e.1), e.2.clone()));
                    }
                    // applied entirely: every key of the batch holds its last entry, nothing else moved
                    for e in after {
                        if !l.iter().any(|x| x.0 == e.0) && find(before, &e.0) != Some(e) {
                            self.flag("batch-touched-other-key", format!("{}: {}", which, sop(op)));
                        }
                    }
                } else if changed {
                    self.flag("batch-not-atomic", format!("{}: {} refused but the store changed", which, sop(op)));
                }
            }
            Op::Get(k) => {
                let want = last.get(k);
                match (obs, want) {
                    (Obs::Val(None), None) => {}
                    (Obs::Val(Some((v, x))), Some((wv, wx))) if x == wx && wv.map(|w| w == *v).unwrap_or(true) => {}
                    (Obs::Abort, _) => {}
                    _ => self.flag("get-not-last-accepted-write", format!("{}: {} -> {}", which, sop(op), sobs(obs))),
                }
                if changed {
                    self.flag("read-changed-store", format!("{}: {}", which, sop(op)));
                }
            }
            _ => {
                if changed {
                    self.flag("read-changed-store", format!("{}: {}", which, sop(op)));
                }
            }
        }
        // the whole store is the last accepted write per key
        if after.len() != last.len() {
            self.flag("dump-not-last-accepted-writes", format!("{}: {} keys, {} written", which, after.len(), last.len()));
        }
        for e in after {
            match last.get(&e.0) {
                Some((wv, wx)) if *wx == e.2 && wv.map(|w| w == e.1).unwrap_or(true) => {}
                _ => self.flag("dump-not-last-accepted-writes", format!("{}: {}", which, skvv(e))),
            }
        }
        if which == "mem" {
            self.max_m = maxv;
            self.last_m = last;
        } else {
            self.max_d = maxv;
            self.last_d = last;
        }
    }

    fn cloud(&mut self, which: usize, op: &Op, probe: &[String], before: &Rows, after: &Rows) {
        let (bc, ac) = if which == 0 { (&before.c, &after.c) } else { (&before.r, &after.r) };
        let name = if which == 0 { "cloud" } else { "cloud on redb" };
        let mut g = std::mem::take(&mut self.cg[which]);
        let obs = &ac.0;
        let (lb, la) = (&bc.1, &ac.1);
        if which == 1 && *op == Op::Reopen {
            // a restart: the open transaction is gone, the local store must not be
            if lb != la {
                self.flag("restart-changed-local-store", name.into());
            }
            g.in_txn = false;
            g.cloud_dead = false;
            g.reported = None;
            g.max_vis.clear();
        }
        if *obs == Obs::Abort {
            // every panic of the cloud store but the arithmetic one leaves the log mutex poisoned
            g.cloud_dead = true;
        }
        // the local store changes only by commit
        if lb != la && *op != Op::Commit && !matches!(op, Op::Unlogged(_)) {
            self.flag("local-changed-outside-commit", format!("{}: {}", name, sop(op)));
        }
        // never lowers a version: the local store ...
        let maxl: Vec<(String, u64)> = g.max_local.iter().map(|(k, v)| (k.clone(), *v)).collect();
        for (k, mv) in maxl {
            match find(la, &k) {
                None => self.flag("key-vanished", format!("{} local: {}", name, skey(&k))),
                Some(e) if e.1 < mv => self.flag("version-decreased", format!("{} local: {} {} -> {}", name, skey(&k), mv, e.1)),
                _ => {}
            }
        }
        for e in la {
            let m = g.max_local.entry(e.0.clone()).or_insert(e.1);
            if e.1 > *m {
                *m = e.1;
            }
        }
        // ... and what a transaction sees by key
        if let Some(view) = &ac.2 {
            for (k, x) in probe.iter().zip(view.iter()) {
                // the last-writer record is the store's own: prepare drops it from an otherwise
                // empty log by design; its version is watched in the local store only
                if k == "_WRITER" {
                    continue;
                }
                let seen = g.max_vis.get(k).copied();
                match (seen, x) {
                    (Some(mv), None) => self.flag("cloud-version-lowered", format!("{} had visible version {}, now absent after {}", skey(k), mv, sop(op))),
                    (Some(mv), Some((v, _))) if *v < mv =>
                        self.flag("cloud-version-lowered", format!("{}: visible version {} -> {} after {}", skey(k), mv, v, sop(op))),
                    _ => {}
                }
                if let Some((v, _)) = x {
                    let m = g.max_vis.entry(k.clone()).or_insert(*v);
                    if *v > *m {
                        *m = *v;
                    }
                }
            }
        }
        match op {
            Op::Enter => {
                if *obs == Obs::Unit {
                    g.in_txn = true;
                    g.reported = None;
                    g.writes_since_report = false;
                }
            }
            Op::Prepare => {
                if let Obs::List(l) = obs {
                    g.reported = Some(l.clone());
                    g.writes_since_report = false;
                }
            }
            Op::Unlogged(l) => {
                g.writes_since_report = true;
                if *obs == Obs::Unit {
                    if let Some(c) = list_conflict(l) {
                        self.flag("list-with-conflicting-repeat-accepted", format!("{}: {} ({})", name, sop(op), c));
                    }
                    // every record of the list, tombstones included, is now in the local store
                    let mut lastof: BTreeMap<String, (u64, Vec<u8>)> = BTreeMap::new();
                    for e in l {
                        lastof.insert(e.0.clone(), (e.1, e.2.clone()));
                    }
                    for (k, (v, x)) in &lastof {
                        match find(la, k) {
                            Some(e) if e.1 == *v && e.2 == *x => {}
                            other => self.flag(
                                "restore-record-missing",
                                format!("{}: {} accepted, the local store holds {} for {}", name, sop(op),
                                        other.map(skvv).unwrap_or("nothing".into()), skey(k)),
                            ),
                        }
                    }
                    // a record below a version this store was told before is a replay
                    for e in l {
                        if let Some(t) = g.told.get(&e.0) {
                            if e.1 < *t {
                                self.flag(
                                    "restore-replay-accepted",
                                    format!("{}: {} accepted although {} was restored at version {} before", name, sop(op), skey(&e.0), t),
                                );
                            }
                        }
                    }
                    for e in l {
                        let m = g.told.entry(e.0.clone()).or_insert(e.1);
                        if e.1 > *m {
                            *m = e.1;
                        }
                    }
                } else if lb != la {
                    self.flag("restore-not-atomic", format!("{}: {} not accepted but the local store changed", name, sop(op)));
                }
            }
            Op::Put(..) | Op::PutV(..) | Op::Delete(..) | Op::Batch(..) => {
                g.writes_since_report = true;
                if *obs == Obs::Unit {
                    let entries: Vec<(String, u64)> = match op {
                        Op::PutV(k, ver, _) => vec![(k.clone(), *ver)],
                        Op::Batch(l) => l.iter().map(|e| (e.0.clone(), e.1)).collect(),
                        _ => vec![],
                    };
                    for (k, ver) in entries {
                        if g.told.get(&k).map(|t| ver < *t).unwrap_or(false) {
                            self.flag(
                                "write-below-restored-version",
                                format!("{}: {} accepted although {} was restored at version {}", name, sop(op), skey(&k), g.told[&k]),
                            );
                        }
                    }
                }
                // read your own writes by key
                if *obs == Obs::Unit {
                    if let Some(view) = &ac.2 {
                        let writes: Vec<(String, Option<u64>, Vec<u8>)> = match op {
                            Op::Put(k, v) => vec![(k.clone(), None, v.clone())],
                            Op::Delete(k) => vec![(k.clone(), None, vec![])],
                            Op::PutV(k, ver, v) => vec![(k.clone(), Some(*ver), v.clone())],
                            Op::Batch(l) => {
                                let mut m: BTreeMap<String, (Option<u64>, Vec<u8>)> = BTreeMap::new();
                                for e in l {
                                    m.insert(e.0.clone(), (Some(e.1), e.2.clone()));
                                }
                                m.into_iter().map(|(k, (a, b))| (k, a, b)).collect()
                            }
                            _ => vec![],
                        };
                        for (k, ver, val) in writes {
                            let i = probe.iter().position(|p| *p == k).expect("probe covers written keys");
                            match &view[i] {
                                Some((v, x)) if *x == val && ver.map(|w| w == *v).unwrap_or(true) => {}
                                other => self.flag("cloud-read-your-writes", format!("{} then get -> {:?}", sop(op), other.as_ref().map(|(v, x)| format!("@{}={}", v, sval(x))))),
                            }
                        }
                    }
                }
            }
            Op::Commit => {
                if *obs != Obs::Abort {
                    let delta: Vec<Kvv> = la.iter().filter(|e| find(lb, &e.0) != Some(*e)).cloned().collect();
                    let removed = lb.iter().any(|e| find(la, &e.0).is_none());
                    if *obs == Obs::Err {
                        if lb != la {
                            self.flag("commit-not-atomic", "commit refused but the local store changed".into());
                        }
                    } else {
                        let reported = g.reported.clone().unwrap_or_default();
                        if delta != reported || removed {
                            let clean = g.reported.is_some() && !g.writes_since_report;
                            self.findings.push(Finding {
                                kind: "committed-differs-from-reported",
                                step: self.step,
                                detail: format!(
                                    "committed [{}] reported [{}]{}",
                                    delta.iter().map(skvv).collect::<Vec<_>>().join(", "),
                                    reported.iter().map(skvv).collect::<Vec<_>>().join(", "),
                                    if g.reported.is_none() { " (no prepare in this transaction)" } else { "" }
                                ),
                                window_clean: clean,
                            });
                        }
                    }
                    g.in_txn = false;
                    g.reported = None;
                    // a committed transaction leaves the local store at what it saw
                    if !g.cloud_dead && *obs == Obs::Unit {
                        let vis: Vec<(String, u64)> = g.max_vis.iter().map(|(k, v)| (k.clone(), *v)).collect();
                        for (k, mv) in vis {
                            match find(la, &k) {
                                Some(e) if e.1 >= mv => {}
                                _ => self.flag("cloud-version-lowered", format!("{}: visible version {} is not in the local store after commit", skey(&k), mv)),
                            }
                        }
                    }
                }
            }
            _ => {}
        }
        self.cg[which] = g;
    }

    fn observe(&mut self, op: &Op, probe: &[String], before: &Rows, after: &Rows) {
        self.plain("mem", op, &after.m.0, &before.m.1, &after.m.1);
        self.plain("redb", op, &after.d.0, &before.d.1, &after.d.1);
        // identical results for identical request sequences (a panic ends the history: the redb
        // store keeps a poisoned cache mutex, the memory store does not)
        if !self.plain_dead && (after.m.0 != after.d.0 || after.m.1 != after.d.1) {
            self.flag(
                "backends-disagree",
                format!("{}: memory {} / redb {}", sop(op), sobs(&after.m.0), sobs(&after.d.0)),
            );
        }
        if after.m.0 == Obs::Abort || after.d.0 == Obs::Abort {
            self.plain_dead = true;
        }
        // the cached versions are the versions in the table
        if let Some(view) = &after.d.2 {
            for (k, x) in probe.iter().zip(view.iter()) {
                if find(&after.d.1, k).map(|e| e.1) != *x {
                    self.flag("redb-cache-differs-from-table", format!("{} after {}", skey(k), sop(op)));
                }
            }
        }
        // the same contents after being reopened
        if *op == Op::Reopen {
            if before.d.1 != after.d.1 || (before.d.2.is_some() && before.d.2 != after.d.2) {
                self.flag("reopen-changed-contents", "redb".into());
            }
        }
        // get_prefix returns exactly the stored entries whose key starts with the prefix, in key order
        // (the dump is get_prefix(""); the cloud stores answer from the local store)
        if let Op::GetPrefix(q) = op {
            for (name, obs, d) in [("memory", &after.m.0, &after.m.1), ("redb", &after.d.0, &after.d.1),
                                   ("cloud", &after.c.0, &after.c.1), ("cloud on redb", &after.r.0, &after.r.1)] {
                if let Obs::List(l) = obs {
                    let want: Vec<Kvv> = d.iter().filter(|e| e.0.starts_with(q.as_str())).cloned().collect();
                    if *l != want {
                        self.flag(
                            "get-prefix-not-the-prefixed-entries",
                            format!("{}: {} -> {}, stored with that prefix: [{}]", name, sop(op), sobs(obs),
                                    want.iter().map(skvv).collect::<Vec<_>>().join(", ")),
                        );
                    }
                }
            }
        }
        self.cloud(0, op, probe, before, after);
        self.cloud(1, op, probe, before, after);
        // both cloud stores answer alike between restarts (the model covers each separately)
        self.step += 1;
    }

    fn ghost(&self) -> String {
        self.cg.iter().map(|g| format!("{}|{}|{:?}|{}|{:?}", g.in_txn, g.cloud_dead, g.reported, g.writes_since_report, g.told)).collect::<Vec<_>>().join("#")
    }
}

struct Sys {
    mem: P<MemoryKVVStore>,
    dir: tempfile::TempDir,
    redb: Option<P<RedbKVVStore>>,
    cloud: P<CloudKVVStore<MemoryKVVStore>>,
    rdir: tempfile::TempDir,
    rcloud: Option<P<CloudKVVStore<RedbKVVStore>>>,
    rsid: Vec<u8>,
    r_in_txn: bool,
    probe: Vec<String>,
    in_txn: bool,
    last: Rows,
    mon: Monitor,
}

impl Sys {
    fn new(probe: &[String]) -> Sys {
        let dir = tempfile::Builder::new().prefix("verif-kvv").tempdir_in(shm()).expect("tempdir");
        let redb = wrap(RedbKVVStore::new(dir.path()));
        let rdir = tempfile::Builder::new().prefix("verif-kvvc").tempdir_in(shm()).expect("tempdir");
        let rlocal = RedbKVVStore::new(rdir.path());
        let rsid = rlocal.signer_id().to_vec();
        let mut s = Sys {
            mem: wrap(MemoryKVVStore::new(SID)),
            dir,
            redb: Some(redb),
            cloud: wrap(CloudKVVStore::new(MemoryKVVStore::new(SID))),
            rdir,
            rcloud: Some(wrap(CloudKVVStore::new(rlocal))),
            rsid,
            r_in_txn: false,
            probe: probe.to_vec(),
            in_txn: false,
            last: Rows { m: (Obs::Unit, vec![]), d: (Obs::Unit, vec![], None), c: (Obs::Unit, vec![], None), r: (Obs::Unit, vec![], None) },
            mon: Monitor::default(),
        };
        s.last = s.rows(Obs::Unit, Obs::Unit, Obs::Unit, Obs::Unit);
        s
    }

    /// the redb directory has a random signer id (the value of the last-writer record): shown as SID
    fn canon(&self, v: Vec<u8>) -> Vec<u8> {
        if v == self.rsid {
            SID.to_vec()
        } else {
            v
        }
    }

    fn rows(&mut self, om: Obs, od: Obs, oc: Obs, or: Obs) -> Rows {
        let redb = self.redb.as_ref().unwrap();
        // get_version of every probe key; any panic = the cache mutex is poisoned
        let mut dview = Some(vec![]);
        for k in &self.probe {
            match apply(redb, &Op::GetVersion(k.clone())) {
                Obs::Ver(v) => dview.as_mut().unwrap().push(v),
                _ => {
                    dview = None;
                    break;
                }
            }
        }
        // get of every probe key while a transaction is open (enter succeeded, no commit went through since)
        let mut cview = None;
        if self.in_txn {
            let mut v = vec![];
            let mut ok = true;
            for k in &self.probe {
                match apply(&self.cloud, &Op::Get(k.clone())) {
                    Obs::Val(x) => v.push(x),
                    _ => {
                        ok = false;
                        break;
                    }
                }
            }
            if ok {
                cview = Some(v);
            }
        }
        let rcloud = self.rcloud.as_ref().unwrap();
        let mut rview = None;
        if self.r_in_txn {
            let mut v = vec![];
            let mut ok = true;
            for k in &self.probe {
                match apply(rcloud, &Op::Get(k.clone())) {
                    Obs::Val(x) => v.push(x.map(|(n, b)| (n, self.canon(b)))),
                    _ => {
                        ok = false;
                        break;
                    }
                }
            }
            if ok {
                rview = Some(v);
            }
        }
        let rdump: Vec<Kvv> = dump(rcloud).into_iter().map(|(k, n, b)| (k, n, self.canon(b))).collect();
        let or = match or {
            Obs::List(l) => Obs::List(l.into_iter().map(|(k, n, b)| (k, n, self.canon(b))).collect()),
            Obs::Val(Some((n, b))) => Obs::Val(Some((n, self.canon(b)))),
            o => o,
        };
        Rows { m: (om, dump(&self.mem)), d: (od, dump(redb), dview), c: (oc, dump(&self.cloud), cview), r: (or, rdump, rview) }
    }

    fn step(&mut self, op: &Op) -> Rows {
        let om = apply(&self.mem, op);
        let od = if *op == Op::Reopen {
            let path = self.dir.path().to_path_buf();
            drop(self.redb.take());
            self.redb = Some(wrap(RedbKVVStore::new(&path)));
            Obs::Unit
        } else {
            apply(self.redb.as_ref().unwrap(), op)
        };
        let oc = apply(&self.cloud, op);
        match op {
            Op::Enter if oc == Obs::Unit => self.in_txn = true,
            Op::Commit if oc != Obs::Abort => self.in_txn = false,
            _ => {}
        }
        // the disk-backed cloud store: a reopen point is a signer restart
        let or = if *op == Op::Reopen {
            let path = self.rdir.path().to_path_buf();
            drop(self.rcloud.take());
            self.rcloud = Some(wrap(CloudKVVStore::new(RedbKVVStore::new(&path))));
            self.r_in_txn = false;
            Obs::Unit
        } else {
            apply(self.rcloud.as_ref().unwrap(), op)
        };
        match op {
            Op::Enter if or == Obs::Unit => self.r_in_txn = true,
            Op::Commit if or != Obs::Abort => self.r_in_txn = false,
            _ => {}
        }
        let rows = self.rows(om, od, oc, or);
        let before = std::mem::replace(&mut self.last, rows.clone());
        let probe = self.probe.clone();
        self.mon.observe(op, &probe, &before, &rows);
        rows
    }

    fn fingerprint(&self) -> String {
        format!("{:?}|{:?}|{:?}|{:?}|{:?}|{:?}|{:?}|{:?}|{:?}|{}", self.last.m.1, self.last.d.1, self.last.d.2, self.last.c.1, self.last.c.2, self.in_txn,
                self.last.r.1, self.last.r.2, self.r_in_txn, self.mon.ghost())
    }
}

fn overflow_traps() -> bool {
    catch_unwind(|| {
        let x: u64 = std::hint::black_box(u64::MAX);
        std::hint::black_box(x + std::hint::black_box(1))
    })
    .is_err()
}

struct Case {
    gen: &'static str,
    probe: Vec<String>,
    prefix: Vec<Op>,
    rows: Vec<Rows>,
    alts: Vec<(Op, Rows)>,
    findings: Vec<(Vec<Op>, Finding)>,
}

fn probe_of(ops: &[Op], extra: &[&str]) -> Vec<String> {
    let mut seen = BTreeSet::new();
    let mut out = vec![];
    let mut add = |k: &str| {
        if seen.insert(k.to_string()) {
            out.push(k.to_string());
        }
    };
    for e in extra {
        add(e);
    }
    for o in ops {
        match o {
            Op::Put(k, _) | Op::PutV(k, _, _) | Op::Delete(k) | Op::Get(k) | Op::GetVersion(k) => add(k),
            Op::Batch(l) | Op::Unlogged(l) => {
                for e in l {
                    add(&e.0)
                }
            }
            _ => {}
        }
    }
    add("_WRITER");
    out
}

fn run_linear(gen: &'static str, ops: &[Op]) -> Case {
    let probe = probe_of(ops, &[]);
    let mut sys = Sys::new(&probe);
    let mut rows = vec![];
    for o in ops {
        rows.push(sys.step(o));
    }
    let findings = sys.mon.findings.iter().map(|f| (ops[..=f.step.min(ops.len() - 1)].to_vec(), f.clone())).collect();
    Case { gen, probe, prefix: ops.to_vec(), rows, alts: vec![], findings }
}

fn emit_case(id: usize, c: &Case, profile: &str, stats: &mut Stats) {
    let rows_m = coq_list(&c.rows.iter().map(|r| r.coq_m()).collect::<Vec<_>>());
    let rows_d = coq_list(&c.rows.iter().map(|r| r.coq_d()).collect::<Vec<_>>());
    let rows_c = coq_list(&c.rows.iter().map(|r| r.coq_c()).collect::<Vec<_>>());
    let rows_r = coq_list(&c.rows.iter().map(|r| r.coq_r()).collect::<Vec<_>>());
    let alts = coq_list(
        &c.alts.iter().map(|(o, r)| format!("({}, {}, {}, {}, {})", cop(o), r.coq_m(), r.coq_d(), r.coq_c(), r.coq_r())).collect::<Vec<_>>(),
    );
    let coq = format!(
        "(({}, {}, {}), {}, ({}, {}, {}, {}), {})",
        profile,
        bytes(&SID),
        coq_list(&c.probe.iter().map(|k| ckey(k)).collect::<Vec<_>>()),
        coq_list(&c.prefix.iter().map(cop).collect::<Vec<_>>()),
        rows_m,
        rows_d,
        rows_c,
        rows_r,
        alts
    );
    // classification for the coverage numbers
    let all_rows: Vec<(&Op, &Rows)> =
        c.prefix.iter().zip(c.rows.iter()).chain(c.alts.iter().map(|(o, r)| (o, r))).collect();
    let is_write = |o: &Op| matches!(o, Op::Put(..) | Op::PutV(..) | Op::Batch(..) | Op::Delete(..) | Op::Unlogged(..));
    let accepted = all_rows.iter().any(|(o, r)| is_write(o) && r.m.0 == Obs::Unit);
    let refused = all_rows.iter().any(|(_, r)| r.m.0 == Obs::Err || r.c.0 == Obs::Err || r.r.0 == Obs::Err);
    // a restore: an accepted record list holding a tombstone, and a later list refused on a cloud store
    let restore_ok = all_rows.iter().any(|(o, r)| matches!(o, Op::Unlogged(l) if l.iter().any(|e| e.2.is_empty())) && r.r.0 == Obs::Unit);
    let restore_refused = all_rows.iter().any(|(o, r)| matches!(o, Op::Unlogged(_)) && (r.r.0 == Obs::Err || r.c.0 == Obs::Err));
    if restore_ok {
        stats.with_tombstone_restore += 1;
    }
    if restore_ok && restore_refused {
        stats.with_refused_replay += 1;
    }
    let mut prev_local: &Vec<Kvv> = &vec![];
    let mut committed = false;
    for (o, r) in c.prefix.iter().zip(c.rows.iter()) {
        if *o == Op::Commit && r.c.0 == Obs::Unit && *prev_local != r.c.1 {
            committed = true;
        }
        prev_local = &r.c.1;
    }
    for (o, r) in c.alts.iter() {
        if *o == Op::Commit && r.c.0 == Obs::Unit && *prev_local != r.c.1 {
            committed = true;
        }
    }
    let reopened = c.prefix.iter().enumerate().any(|(i, o)| *o == Op::Reopen && !c.rows[i].d.1.is_empty())
        || (c.alts.iter().any(|(o, _)| *o == Op::Reopen) && c.rows.last().map(|r| !r.d.1.is_empty()).unwrap_or(false));
    let nontrivial = accepted && (refused || committed || reopened);
    for (o, r) in all_rows.iter() {
        stats.steps += 1;
        *stats.ops.entry(sop(o).split(' ').next().unwrap().to_string()).or_insert(0) += 1;
        for (b, x) in [("mem", &r.m.0), ("redb", &r.d.0), ("cloud", &r.c.0), ("cloud_on_redb", &r.r.0)] {
            let kind = match x {
                Obs::Unit | Obs::Val(_) | Obs::Ver(_) | Obs::List(_) => "ok",
                Obs::Err => "version_mismatch",
                Obs::Abort => "panic",
                Obs::Other(_) => "other_error",
            };
            *stats.results.entry(format!("{}:{}", b, kind)).or_insert(0) += 1;
        }
    }
    stats.cases += 1;
    if nontrivial {
        stats.nontrivial += 1;
    }
    if committed {
        stats.with_commit += 1;
    }
    if reopened {
        stats.with_reopen += 1;
    }
    let findings: Vec<Value> = c
        .findings
        .iter()
        .map(|(path, f)| {
            json!({"kind": f.kind, "detail": f.detail, "window_clean": f.window_clean,
                   "replay": path.iter().map(sop).collect::<Vec<_>>()})
        })
        .collect();
    let mut j = json!({
        "id": id, "gen": c.gen, "nontrivial": nontrivial,
        "ops": c.prefix.iter().map(sop).collect::<Vec<_>>(),
        "n_alts": c.alts.len(),
        "findings": findings,
        "coq": coq,
    });
    // full observations only where somebody will read them
    if id < 3 || !c.findings.is_empty() || c.gen == "corpus" {
        j["rows"] = json!(c.rows.iter().map(|r| r.json()).collect::<Vec<_>>());
        j["alts"] = json!(c.alts.iter().take(6).map(|(o, r)| json!([sop(o), r.json()])).collect::<Vec<_>>());
    }
    emit("CASE", j);
}

#[derive(Default)]
struct Stats {
    cases: u64,
    steps: u64,
    nontrivial: u64,
    with_commit: u64,
    with_reopen: u64,
    with_tombstone_restore: u64,
    with_refused_replay: u64,
    ops: BTreeMap<String, u64>,
    results: BTreeMap<String, u64>,
}

// ---------------------------------------------------------------------------- generators

fn s(x: &str) -> String {
    x.to_string()
}
fn b(x: &str) -> Vec<u8> {
    x.as_bytes().to_vec()
}

/// past disagreements and the witnesses of Props/C16.v, replayed first
fn corpus() -> Vec<Vec<Op>> {
    let max = u64::MAX;
    vec![
        // F12: a version below the staged one inside one transaction
        vec![Op::Enter, Op::PutV(s("a"), 5, b("x")), Op::GetVersion(s("a")), Op::PutV(s("a"), 3, b("y")), Op::GetVersion(s("a")), Op::Prepare, Op::Commit],
        vec![Op::Enter, Op::PutV(s("a"), 2, b("x")), Op::Put(s("a"), b("y")), Op::Get(s("a")), Op::Prepare, Op::Commit, Op::Get(s("a"))],
        // F12: a write between prepare and commit
        vec![Op::Enter, Op::Put(s("a"), b("x")), Op::Prepare, Op::Put(s("b"), b("y")), Op::Commit],
        vec![Op::Enter, Op::Put(s("a"), b("x")), Op::Prepare, Op::Put(s("a"), b("y")), Op::Commit, Op::Enter, Op::Get(s("a"))],
        vec![Op::Enter, Op::Put(s("a"), b("x")), Op::Commit],
        vec![Op::Enter, Op::Prepare, Op::Put(s("a"), b("x")), Op::Prepare],
        // the protocol
        vec![Op::Enter, Op::Put(s("a"), b("x")), Op::Put(s("a"), b("y")), Op::Delete(s("b")), Op::Prepare, Op::Get(s("a")), Op::Commit,
             Op::Enter, Op::Prepare, Op::Commit, Op::Enter, Op::Put(s("a"), b("x")), Op::Prepare, Op::Commit, Op::GetPrefix(s(""))],
        // batches with a repeated key: judged against the running state
        vec![Op::PutV(s("a"), 1, b("z")), Op::Batch(vec![(s("a"), 2, b("x")), (s("a"), 1, b("z"))]), Op::Get(s("a")), Op::Reopen, Op::Get(s("a"))],
        vec![Op::PutV(s("a"), 1, b("z")), Op::Batch(vec![(s("a"), 3, b("x")), (s("a"), 2, b("y"))]), Op::Get(s("a"))],
        vec![Op::Batch(vec![(s("a"), 1, b("x")), (s("a"), 1, b("y"))]), Op::Get(s("a"))],
        vec![Op::Batch(vec![(s("a"), 1, b("x")), (s("b"), 0, b("y")), (s("a"), 1, b("x")), (s("a"), 2, b(""))]), Op::GetPrefix(s("")), Op::Reopen, Op::GetVersion(s("a"))],
        vec![Op::Put(s("a"), b("x")), Op::Batch(vec![(s("b"), 0, b("y")), (s("a"), 0, b("y"))]), Op::GetPrefix(s(""))],
        // the top of the version range: put on a key at u64::MAX
        vec![Op::PutV(s("a"), max, b("x")), Op::Put(s("a"), b("y")), Op::Get(s("a")), Op::GetVersion(s("a")), Op::Put(s("b"), b("y")), Op::Reopen, Op::GetVersion(s("a")), Op::Put(s("b"), b("x"))],
        vec![Op::PutV(s("a"), max - 1, b("x")), Op::Put(s("a"), b("y")), Op::PutV(s("a"), max, b("y")), Op::PutV(s("a"), max, b("x")), Op::Delete(s("a"))],
        vec![Op::Enter, Op::PutV(s("a"), max, b("x")), Op::Prepare, Op::Commit, Op::Enter, Op::Put(s("a"), b("y")), Op::Get(s("a")), Op::Prepare, Op::Commit],
        // outside a transaction / twice
        vec![Op::Put(s("a"), b("x")), Op::Enter, Op::Get(s("a"))],
        vec![Op::Enter, Op::Enter, Op::Put(s("a"), b("x")), Op::Commit],
        vec![Op::Commit, Op::Enter],
        vec![Op::Batch(vec![]), Op::GetPrefix(s("a")), Op::Prepare],
        // the restore path: a fresh replica is handed a tombstone for a key it never saw; after a
        // restart the older live copy must be refused, as must anything below or beside it
        vec![Op::Unlogged(vec![(s("a"), 3, b("")), (s("b"), 0, b("x"))]), Op::Reopen,
             Op::Unlogged(vec![(s("b"), 0, b("x")), (s("a"), 1, b("x"))]), Op::Unlogged(vec![(s("a"), 3, b(""))]),
             Op::Unlogged(vec![(s("a"), 3, b("x"))]), Op::Enter, Op::PutV(s("a"), 2, b("y")), Op::PutV(s("a"), 3, b("")),
             Op::Get(s("a")), Op::GetVersion(s("a")), Op::GetPrefix(s("")), Op::Prepare, Op::Commit, Op::Reopen,
             Op::Unlogged(vec![(s("a"), 2, b("x"))]), Op::Unlogged(vec![(s("a"), 4, b("x"))]), Op::GetPrefix(s("a"))],
        vec![Op::Unlogged(vec![(s("a"), 1, b(""))]), Op::Unlogged(vec![(s("a"), 0, b("x"))])],
        vec![Op::Enter, Op::Put(s("a"), b("x")), Op::Delete(s("a")), Op::Prepare, Op::Commit, Op::Reopen,
             Op::Unlogged(vec![(s("a"), 2, b("")), (s("b"), 5, b(""))]), Op::Unlogged(vec![(s("b"), 4, b("y"))]),
             Op::Enter, Op::Get(s("b")), Op::Put(s("b"), b("y")), Op::Get(s("b")), Op::Prepare, Op::Commit],
        vec![Op::Enter, Op::Unlogged(vec![(s("a"), 1, b(""))]), Op::Get(s("a"))],
        vec![Op::Unlogged(vec![(s("a"), 2, b("")), (s("a"), 1, b("x"))]), Op::Unlogged(vec![]), Op::Unlogged(vec![(s("a"), 1, b("")), (s("a"), 2, b(""))]), Op::GetPrefix(s(""))],
        // record lists that repeat a key, as the caller hands them over
        vec![Op::Unlogged(vec![(s("a"), 1, b("x")), (s("a"), 0, b("y"))]), Op::GetPrefix(s("")),
             Op::Unlogged(vec![(s("a"), 1, b("x")), (s("a"), 1, b("y"))]), Op::GetPrefix(s("")),
             Op::Unlogged(vec![(s("a"), 1, b("x")), (s("a"), 1, b("x"))]), Op::GetPrefix(s("")),
             Op::Unlogged(vec![(s("a"), 1, b("x")), (s("a"), 2, b("y"))]), Op::GetPrefix(s("")), Op::Reopen,
             Op::Unlogged(vec![(s("b"), 0, b("x")), (s("a"), 3, b("")), (s("b"), 1, b("y")), (s("a"), 2, b("y"))]), Op::GetPrefix(s("")),
             Op::Unlogged(vec![(s("a"), 3, b("x")), (s("a"), 2, b("y"))]), Op::Enter, Op::Get(s("a")), Op::Get(s("b"))],
        vec![Op::Enter, Op::Put(s("a"), b("x")), Op::Prepare, Op::Commit, Op::Reopen,
             Op::Unlogged(vec![(s("a"), 1, b("y")), (s("a"), 0, b("x"))]), Op::Unlogged(vec![(s("a"), 0, b("x")), (s("a"), 1, b("y"))]),
             Op::Enter, Op::Get(s("a")), Op::GetVersion(s("a"))],
        // prefixes that are stored keys, proper prefixes, empty, between keys, beyond a key
        vec![Op::Put(s("a"), b("x")), Op::Put(s("a/x"), b("x")), Op::Put(s("a/y"), b("y")), Op::Put(s("a0"), b("y")), Op::Reopen,
             Op::GetPrefix(s("a")), Op::GetPrefix(s("a/")), Op::GetPrefix(s("a/x")), Op::GetPrefix(s("a/y")), Op::GetPrefix(s("a0")),
             Op::GetPrefix(s("")), Op::GetPrefix(s("a/xx")), Op::GetPrefix(s("a/w")), Op::GetPrefix(s("a/z")), Op::GetPrefix(s("a1")),
             Op::GetPrefix(s("b")), Op::GetPrefix(s("A"))],
        vec![Op::Unlogged(vec![(s("a"), 0, b("x")), (s("a/x"), 1, b("")), (s("a0"), 0, b("y"))]), Op::GetPrefix(s("a")), Op::GetPrefix(s("a/x")),
             Op::Enter, Op::Put(s("a/y"), b("y")), Op::GetPrefix(s("a")), Op::Prepare, Op::Commit, Op::GetPrefix(s("a")), Op::GetPrefix(s("a/y"))],
        // prefixes and order
        vec![Op::Put(s("a/b"), b("x")), Op::Put(s("a"), b("x")), Op::Put(s("b"), b("y")), Op::Put(s("a0"), b("y")), Op::Put(s("a/"), b("y")),
             Op::GetPrefix(s("a")), Op::GetPrefix(s("a/")), Op::GetPrefix(s("a/b")), Op::GetPrefix(s("")), Op::GetPrefix(s("c")), Op::GetPrefix(s("a/b/c"))],
    ]
}

const KEYS: [&str; 3] = ["a", "a/b", "b"];
const VALS: [&str; 3] = ["x", "y", ""];

/// a small alphabet whose sequences are enumerated completely
fn mini_alphabet() -> Vec<Op> {
    let mut v = vec![Op::Put(s("a"), b("x")), Op::Put(s("a"), b("y")), Op::Delete(s("a")), Op::Put(s("b"), b("x"))];
    for ver in [0u64, 1, 2] {
        for x in ["x", "y"] {
            v.push(Op::PutV(s("a"), ver, b(x)));
        }
    }
    v.push(Op::PutV(s("b"), 1, b("x")));
    v.push(Op::Batch(vec![(s("a"), 1, b("x")), (s("a"), 2, b("y"))]));
    v.push(Op::Batch(vec![(s("a"), 2, b("x")), (s("a"), 1, b("x"))]));
    v.push(Op::Batch(vec![(s("a"), 1, b("y")), (s("b"), 0, b("x"))]));
    v.push(Op::Batch(vec![(s("b"), 2, b("x")), (s("a"), 1, b("x")), (s("a"), 1, b("y"))]));
    v.push(Op::Unlogged(vec![(s("a"), 2, b(""))]));
    v.push(Op::Unlogged(vec![(s("a"), 1, b("x"))]));
    v.push(Op::Unlogged(vec![(s("b"), 1, b("")), (s("a"), 0, b("y"))]));
    v.push(Op::Unlogged(vec![(s("a"), 1, b("x")), (s("a"), 0, b("y"))]));
    v.push(Op::Unlogged(vec![(s("a"), 1, b("x")), (s("a"), 1, b("y"))]));
    v.push(Op::GetPrefix(s("a")));
    v.extend([Op::Get(s("a")), Op::GetVersion(s("a")), Op::GetPrefix(s("")), Op::Reopen, Op::Enter, Op::Prepare, Op::Commit]);
    v
}

fn alphabet(tier: &str) -> Vec<Op> {
    if tier == "mini" {
        return mini_alphabet();
    }
    let mut v = vec![];
    let (keys, vers): (&[&str], &[u64]) = if tier == "quick" { (&KEYS[..2], &[0, 1, 2]) } else { (&KEYS[..], &[0, 1, 2, 3]) };
    for k in keys {
        for x in &VALS[..2] {
            v.push(Op::Put(s(k), b(x)));
        }
        v.push(Op::Delete(s(k)));
        for ver in vers {
            for x in VALS {
                v.push(Op::PutV(s(k), *ver, b(x)));
            }
        }
        v.push(Op::Get(s(k)));
        v.push(Op::GetVersion(s(k)));
    }
    // pairs on (a, a) and (a, other) with versions around each other, and some triples
    let k2: &[&str] = if tier == "quick" { &["a", "a/b"] } else { &["a", "b"] };
    for v1 in [1u64, 2] {
        for x1 in ["x", "y"] {
            for kk in k2 {
                for v2 in [1u64, 2] {
                    for x2 in ["x", "y"] {
                        if tier == "quick" && (x1 == "y" && *kk != "a") {
                            continue;
                        }
                        v.push(Op::Batch(vec![(s("a"), v1, b(x1)), (s(kk), v2, b(x2))]));
                    }
                }
            }
        }
    }
    v.push(Op::Batch(vec![]));
    v.push(Op::Batch(vec![(s("a"), 1, b("x")), (s("b"), 1, b("x")), (s("a"), 2, b("y"))]));
    v.push(Op::Batch(vec![(s("a"), 2, b("x")), (s("a"), 1, b("x")), (s("a"), 2, b("x"))]));
    v.push(Op::Batch(vec![(s("a/b"), 0, b("x")), (s("a"), 0, b("x")), (s("b"), 0, b(""))]));
    v.push(Op::Batch(vec![(s("a"), 0, b("x")), (s("a"), 0, b("x")), (s("a"), 3, b("y"))]));
    // record lists from external storage: tombstones and live records around each other
    for k in k2 {
        for (ver, x) in [(1u64, ""), (3, ""), (0, "x"), (2, "y")] {
            v.push(Op::Unlogged(vec![(s(k), ver, b(x))]));
        }
    }
    v.push(Op::Unlogged(vec![(s("a"), 2, b("")), (s(k2[1]), 1, b(""))]));
    v.push(Op::Unlogged(vec![(s("a"), 1, b("x")), (s(k2[1]), 0, b("x"))]));
    // lists repeating a key: older after newer, same version other / same content, newer after older
    for (v1, x1, v2, x2) in [(2u64, "x", 1u64, "y"), (1, "x", 1, "y"), (1, "x", 1, "x"), (1, "x", 2, "y"), (2, "", 1, "x")] {
        v.push(Op::Unlogged(vec![(s("a"), v1, b(x1)), (s("a"), v2, b(x2))]));
    }
    v.push(Op::Unlogged(vec![(s(k2[1]), 0, b("x")), (s("a"), 2, b("x")), (s(k2[1]), 1, b("")), (s("a"), 1, b("x"))]));
    // prefixes: empty, stored keys (with and without longer keys), proper prefixes, between keys, beyond
    for p in ["", "a", "a/", "a/b", "b", "c", "a/a", "a0", "a/b/"] {
        v.push(Op::GetPrefix(s(p)));
    }
    v.extend([Op::Reopen, Op::Enter, Op::Prepare, Op::Commit]);
    v
}

/// breadth-first over the alphabet with de-duplication of states (all three stores' visible
/// state and the monitors' ghost state); every (representative path, request) pair is run
fn exhaustive(tier: &str, depth: usize, cap: usize, seed: u64, out: &mut Vec<Case>) -> Value {
    let alpha = alphabet(tier);
    let probe: Vec<String> = probe_of(&alpha, &[]);
    let mut seen: HashSet<String> = HashSet::new();
    // roots: the empty stores; an open transaction; an open transaction over a committed one
    let mut frontier: Vec<Vec<Op>> = vec![
        vec![],
        vec![Op::Enter],
        vec![Op::Enter, Op::PutV(s("a"), 1, b("x")), Op::Prepare, Op::Commit, Op::Enter],
    ];
    for path in &frontier {
        let mut sys = Sys::new(&probe);
        for o in path {
            sys.step(o);
        }
        seen.insert(sys.fingerprint());
    }
    let mut levels = vec![];
    let mut complete = true;
    let mut rng = Rng::new(seed ^ 0xe4a);
    for level in 0..depth {
        let nthreads = std::thread::available_parallelism().map(|n| n.get()).unwrap_or(4).min(16);
        let chunk = (frontier.len() + nthreads - 1) / nthreads.max(1);
        let results: Vec<(Case, Vec<(String, Vec<Op>)>)> = std::thread::scope(|sc| {
            let mut hs = vec![];
            for part in frontier.chunks(chunk.max(1)) {
                let alpha = &alpha;
                let probe = &probe;
                hs.push(sc.spawn(move || {
                    let mut res = vec![];
                    for path in part {
                        let mut base = Sys::new(probe);
                        let mut rows = vec![];
                        for o in path {
                            rows.push(base.step(o));
                        }
                        let nbase = base.mon.findings.len();
                        let mut findings: Vec<(Vec<Op>, Finding)> =
                            base.mon.findings.iter().map(|f| (path[..=f.step].to_vec(), f.clone())).collect();
                        let mut alts = vec![];
                        let mut succ = vec![];
                        for o in alpha.iter() {
                            let mut sys = Sys::new(probe);
                            for q in path {
                                sys.step(q);
                            }
                            let r = sys.step(o);
                            let mut full = path.clone();
                            full.push(o.clone());
                            for f in sys.mon.findings.iter().skip(nbase) {
                                findings.push((full.clone(), f.clone()));
                            }
                            succ.push((sys.fingerprint(), full));
                            alts.push((o.clone(), r));
                        }
                        res.push((Case { gen: "exhaustive", probe: probe.clone(), prefix: path.clone(), rows, alts, findings }, succ));
                    }
                    res
                }));
            }
            hs.into_iter().flat_map(|h| h.join().expect("worker")).collect()
        });
        let mut next = vec![];
        let mut pairs = 0usize;
        for (case, succ) in results {
            pairs += case.alts.len();
            out.push(case);
            for (fp, path) in succ {
                if seen.insert(fp) {
                    next.push(path);
                }
            }
        }
        levels.push(json!({"level": level, "states": frontier.len(), "pairs": pairs, "new_states": next.len()}));
        if level + 1 < depth && next.len() > cap {
            complete = false;
            // deterministic sample of the frontier
            let mut keep = vec![];
            let n = next.len();
            for (i, p) in next.into_iter().enumerate() {
                if rng.below(n as u64) < cap as u64 || i < cap / 10 {
                    keep.push(p);
                }
            }
            next = keep;
        }
        frontier = next;
    }
    json!({"alphabet": alpha.len(), "levels_run": depth, "roots": 3, "levels": levels, "complete": complete, "states_seen": seen.len()})
}

fn gen_version(rng: &mut Rng, cur: Option<u64>) -> u64 {
    let c = cur.unwrap_or(0);
    match rng.below(16) {
        0 => c.saturating_sub(1),
        1 | 2 => c,
        3 | 4 | 5 => c.saturating_add(1),
        6 => c.saturating_add(2),
        7 => 0,
        8 => 1,
        9 => 2,
        10 => 3,
        11 => *rng.pick(&[(1u64 << 32) - 1, 1 << 32, 1 << 63, u64::MAX - 1, u64::MAX]),
        _ => rng.below(4),
    }
}

fn gen_write(rng: &mut Rng, keys: &[&str], vals: &[&str], cur: &BTreeMap<String, u64>) -> Op {
    let k = rng.pick(keys).to_string();
    let v = b(*rng.pick(vals));
    match rng.below(10) {
        0 | 1 | 2 => Op::Put(k, v),
        3 => Op::Delete(k),
        4 | 5 | 6 => {
            let ver = gen_version(rng, cur.get(&k).copied());
            Op::PutV(k, ver, v)
        }
        _ => {
            let n = rng.below(4) as usize;
            let mut l = vec![];
            for _ in 0..n {
                let k = if !l.is_empty() && rng.chance(1, 3) { let e: &Kvv = &l[0]; e.0.clone() } else { rng.pick(keys).to_string() };
                let ver = gen_version(rng, cur.get(&k).copied());
                l.push((k, ver, b(*rng.pick(vals))));
            }
            Op::Batch(l)
        }
    }
}

fn gen_read(rng: &mut Rng, keys: &[&str]) -> Op {
    match rng.below(4) {
        0 | 1 => Op::Get(rng.pick(keys).to_string()),
        2 => Op::GetVersion(rng.pick(keys).to_string()),
        _ => {
            if rng.chance(1, 2) {
                // a prefix that is one of the keys in play
                Op::GetPrefix(rng.pick(keys).to_string())
            } else {
                Op::GetPrefix(rng.pick(&["", "a", "a/", "a/b", "b", "c", "_", "a/a", "a0", "a/b/", "a/c"]).to_string())
            }
        }
    }
}

/// transaction-shaped histories: enter; writes and reads; prepare; reads; commit - with reopen
/// points, and now and then a step off the protocol
fn random_history(rng: &mut Rng, len: usize, wild: bool, restore: bool) -> Vec<Op> {
    let keys: Vec<&str> = if wild {
        vec!["a", "a/b", "b", "", "a/", "_WRITER", "\u{e9}", "a\u{0}", "\u{10348}", "ab", "a0", "B"]
    } else if rng.chance(1, 12) {
        vec!["a", "a/b", "b", "_WRITER"]
    } else {
        KEYS.to_vec()
    };
    let vals: Vec<&str> = if wild { vec!["x", "y", "", "xx", "\u{0}", "a longer value \u{1f511}"] } else { VALS.to_vec() };
    // versions as the memory store would have them if everything were accepted: steering only
    let mut cur: BTreeMap<String, u64> = BTreeMap::new();
    let mut ops = vec![];
    let note = |o: &Op, cur: &mut BTreeMap<String, u64>| match o {
        Op::Put(k, _) | Op::Delete(k) => {
            let n = cur.get(k).map(|v| v.wrapping_add(1)).unwrap_or(0);
            cur.insert(k.clone(), n);
        }
        Op::PutV(k, ver, _) => {
            if cur.get(k).map(|c| *ver > *c).unwrap_or(true) {
                cur.insert(k.clone(), *ver);
            }
        }
        Op::Batch(l) => {
            for e in l {
                if cur.get(&e.0).map(|c| e.1 > *c).unwrap_or(true) {
                    cur.insert(e.0.clone(), e.1);
                }
            }
        }
        _ => {}
    };
    while ops.len() < len {
        if wild && rng.chance(1, 2) {
            // unstructured
            let o = match rng.below(12) {
                0 => Op::Enter,
                1 => Op::Prepare,
                2 => Op::Commit,
                3 => Op::Reopen,
                4 if rng.chance(1, 2) => Op::Unlogged(vec![(rng.pick(&keys).to_string(), rng.below(4), b(*rng.pick(&vals)))]),
                4 | 5 | 6 => gen_read(rng, &keys),
                _ => gen_write(rng, &keys, &vals, &cur),
            };
            note(&o, &mut cur);
            ops.push(o);
            continue;
        }
        if rng.chance(1, 6) {
            ops.push(Op::Reopen);
        }
        if restore && rng.chance(2, 3) || rng.chance(1, 12) {
            // start-up: a record list from external storage, versions around the current ones,
            // tombstones mostly for keys this replica has not seen, older copies later on
            let n = 1 + rng.below(3) as usize;
            let mut l = vec![];
            for _ in 0..n {
                let k = if !l.is_empty() && rng.chance(1, 3) { let e: &Kvv = &l[rng.below(l.len() as u64) as usize]; e.0.clone() } else { rng.pick(&keys).to_string() };
                let known = cur.get(&k).copied();
                let ver = match (known, rng.below(6)) {
                    (None, 0..=2) => 1 + rng.below(4),
                    (Some(c), 0) => c.saturating_sub(1 + rng.below(2)),
                    (Some(c), 1) => c,
                    (Some(c), _) => c.saturating_add(rng.below(3)),
                    (None, _) => rng.below(3),
                };
                let x = if known.is_none() && rng.chance(2, 3) || rng.chance(1, 4) { b("") } else { b(*rng.pick(&vals)) };
                l.push((k, ver, x));
            }
            let o = Op::Unlogged(l);
            if let Op::Unlogged(l) = &o {
                // steering only: remember what the stores were told if all of it is accepted
                let fits = l.iter().all(|e| cur.get(&e.0).map(|c| e.1 >= *c).unwrap_or(true));
                if fits {
                    for e in l {
                        cur.insert(e.0.clone(), e.1);
                    }
                }
            }
            ops.push(o);
            if rng.chance(1, 2) {
                ops.push(Op::Reopen);
            }
            if rng.chance(1, 2) {
                continue;
            }
        }
        ops.push(Op::Enter);
        let body = rng.below(5);
        for _ in 0..body {
            let o = if rng.chance(1, 4) { gen_read(rng, &keys) } else { gen_write(rng, &keys, &vals, &cur) };
            note(&o, &mut cur);
            ops.push(o);
        }
        if !rng.chance(1, 25) {
            ops.push(Op::Prepare);
        }
        let tail = rng.below(3);
        for _ in 0..tail {
            // mostly reads in the prepare/commit window; a write there is off the protocol
            let o = if rng.chance(1, 8) { gen_write(rng, &keys, &vals, &cur) } else { gen_read(rng, &keys) };
            note(&o, &mut cur);
            ops.push(o);
        }
        if rng.chance(1, 10) {
            ops.push(Op::Prepare);
        }
        if !rng.chance(1, 40) {
            ops.push(Op::Commit);
        }
    }
    ops.truncate(len.max(1));
    ops
}

fn all(args: &Args) {
    std::panic::set_hook(Box::new(|_| {}));
    let profile = if overflow_traps() { "Debug" } else { "Release" };
    let quick = args.tier == "quick";
    let mut stats = Stats::default();
    let mut cases: Vec<Case> = vec![];
    for ops in corpus() {
        cases.push(run_linear("corpus", &ops));
    }
    let n_corpus = cases.len();
    let (depth, cap) = if quick { (3, 20) } else { (4, 150) };
    let depth = args.rest.iter().position(|a| a == "--depth").map(|i| args.rest[i + 1].parse().unwrap()).unwrap_or(depth);
    let cap = args.rest.iter().position(|a| a == "--cap").map(|i| args.rest[i + 1].parse().unwrap()).unwrap_or(cap);
    let exh = exhaustive(&args.tier, depth, cap, args.seed, &mut cases);
    // all sequences over the small alphabet, no cap
    let mini_depth = args.rest.iter().position(|a| a == "--mini").map(|i| args.rest[i + 1].parse().unwrap()).unwrap_or(if quick { 3 } else { 4 });
    let mini = exhaustive("mini", mini_depth, usize::MAX, args.seed, &mut cases);
    let n_exh = cases.len() - n_corpus;
    let mut rng = Rng::new(args.seed ^ 0x16c);
    for i in 0..args.n {
        let wild = i % 5 == 4;
        let restore = i % 5 == 1 || i % 5 == 3;
        let len = if quick { 6 + rng.below(18) as usize } else { 30 };
        let ops = random_history(&mut rng, len, wild, restore);
        cases.push(run_linear(if wild { "malformed" } else if restore { "restore" } else { "random" }, &ops));
    }
    let mut kinds: BTreeMap<String, u64> = BTreeMap::new();
    for (i, c) in cases.iter().enumerate() {
        emit_case(i, c, profile, &mut stats);
        for (_, f) in &c.findings {
            *kinds.entry(f.kind.to_string()).or_insert(0) += 1;
        }
    }
    emit(
        "STATS",
        json!({"profile": profile, "cases": stats.cases, "steps": stats.steps, "nontrivial": stats.nontrivial,
               "corpus": n_corpus, "exhaustive_cases": n_exh, "random": args.n, "exhaustive": exh, "exhaustive_small": mini,
               "with_effective_commit": stats.with_commit, "with_reopen_after_write": stats.with_reopen,
               "with_tombstone_restore": stats.with_tombstone_restore, "with_refused_replay": stats.with_refused_replay,
               "requests": stats.ops, "results": stats.results, "monitor_findings": kinds}),
    );
}

/// replay one history given as JSON on the command line (for notes and mutation triage)
fn replay(args: &Args) {
    std::panic::set_hook(Box::new(|_| {}));
    let _ = args;
    for ops in corpus() {
        let c = run_linear("corpus", &ops);
        println!("{}", c.prefix.iter().zip(c.rows.iter()).map(|(o, r)| format!("{:<40} mem {:<22} redb {:<22} cloud {:<22} cloud/redb {}", sop(o), sobs(&r.m.0), sobs(&r.d.0), sobs(&r.c.0), sobs(&r.r.0))).collect::<Vec<_>>().join("\n"));
        for (_, f) in &c.findings {
            println!("   !! step {} {}: {}", f.step, f.kind, f.detail);
        }
        println!();
    }
}

fn main() {
    let argv: Vec<String> = std::env::args().collect();
    let args = parse_args(&argv[2..]);
    match argv[1].as_str() {
        "all" => all(&args),
        "replay" => replay(&args),
        other => panic!("unknown sub-domain {}", other),
    }
}
