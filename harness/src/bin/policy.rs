//! Domain `policy` (C05): the real SimpleValidator / OnchainValidator (through the public
//! Validator trait) and the real Channel::sign_counterparty_commitment_tx_phase2 against
//! Model/CommitmentPolicy.v, with an independent u128 reference predicate as monitor.
//!
//!   commit  validator-level: validate_{counterparty,holder}_commitment_tx of both validators on
//!           generated (policy, filter, enforcement state, setup, chain state, commitment info)
//!   setup   validate_setup_channel + validate_channel_value
//!   chan    a real node + channel: setup_channel, sign_counterparty_commitment_tx_phase2
//!           (initial commitment, retry, next commitment), including the fee-truncation witness
use vharness::*;

use lightning_signer::bitcoin::bip32::{ChildNumber, DerivationPath};
use lightning_signer::bitcoin::secp256k1::PublicKey;
use lightning_signer::bitcoin::ScriptBuf;
use lightning_signer::channel::{ChannelSetup, CommitmentType};
use lightning_signer::lightning::sign::ChannelSigner;
use lightning_signer::lightning::types::payment::PaymentHash;
use lightning_signer::node::{Node, NodeServices};
use lightning_signer::persist::Persist;
use lightning_signer::policy::error::{ValidationError, ValidationErrorKind};
use lightning_signer::policy::filter::{FilterResult, FilterRule, PolicyFilter};
use lightning_signer::policy::onchain_validator::OnchainValidatorFactory;
use lightning_signer::policy::simple_validator::{SimplePolicy, SimpleValidatorFactory};
use lightning_signer::policy::validator::{ChainState, EnforcementState, Validator, ValidatorFactory};
use lightning_signer::signer::derive::KeyDerivationStyle;
use lightning_signer::signer::StartingTimeFactory;
use lightning_signer::tx::tx::{CommitmentInfo2, HTLCInfo2};
use lightning_signer::util::clock::Clock;
use lightning_signer::util::test_utils::key::{make_test_bitcoin_pubkey, make_test_pubkey};
use lightning_signer::util::test_utils::{build_tx_scripts, make_genesis_starting_time_factory, make_test_channel_setup};
use lightning_signer::wallet::Wallet;
use serde_json::{json, Value};
use std::panic::{catch_unwind, AssertUnwindSafe};
use std::sync::Arc;

const U64MAX: u64 = u64::MAX;
const U32MAX: u32 = u32::MAX;
const MAX_CLTV: u32 = 500_000_000;

// ------------------------------------------------------------------ abstract cases

#[derive(Clone, Debug)]
struct Pol {
    min_delay: u16,
    max_delay: u16,
    max_channel_size_sat: u64,
    max_htlcs: usize,
    max_htlc_value_sat: u64,
    use_chain_state: bool,
    min_feerate: u32,
    max_feerate: u32,
    /// (tag, is_prefix, warn)
    rules: Vec<(String, bool, bool)>,
}

#[derive(Clone, Debug)]
struct Setup {
    is_outbound: bool,
    channel_value_sat: u64,
    push_value_msat: u64,
    holder_delay: u16,
    cp_delay: u16,
    /// 0 Legacy, 1 StaticRemoteKey, 2 Anchors, 3 AnchorsZeroFeeHtlc
    ctype: u8,
    /// 0 none, 1 ours / allowlisted, 2 neither
    shutdown: u8,
}

#[derive(Clone, Debug)]
struct Chain {
    current_height: u32,
    funding_depth: u32,
    closing_depth: u32,
}

#[derive(Clone, Debug)]
struct Info {
    cp_broadcaster: bool,
    to_countersigner: u64,
    to_broadcaster: u64,
    offered: Vec<(u64, u32)>,
    received: Vec<(u64, u32)>,
    feerate: u32,
}

#[derive(Clone, Debug)]
struct Est {
    next_holder: u64,
    next_cp_commit: u64,
    next_cp_revoke: u64,
    closed: bool,
    /// 0 none, 1 same, 2 different
    cp_point: u8,
    cp_info_same: bool,
    /// 0 none, 1 same, 2 different
    holder_info: u8,
}

#[derive(Clone, Debug)]
struct Case {
    pol: Pol,
    /// 0 simple cp, 1 simple holder, 2 onchain cp, 3 onchain holder
    entry: u8,
    est: Est,
    setup: Setup,
    cs: Chain,
    n: u64,
    info: Info,
}

fn ctype_of(c: u8) -> CommitmentType {
    match c {
        0 => CommitmentType::Legacy,
        1 => CommitmentType::StaticRemoteKey,
        2 => CommitmentType::Anchors,
        _ => CommitmentType::AnchorsZeroFeeHtlc,
    }
}
fn ctype_name(c: u8) -> &'static str {
    ["Legacy", "StaticRemoteKey", "Anchors", "AnchorsZeroFeeHtlc"][c.min(3) as usize]
}
fn is_anchors(c: u8) -> bool {
    c >= 2
}
fn is_zero_fee(c: u8) -> bool {
    c >= 3
}

// ------------------------------------------------------------------ Coq terms

fn coq_rules(rules: &[(String, bool, bool)]) -> String {
    coq_list(
        &rules
            .iter()
            .map(|(t, p, w)| format!("mkRule \"{}\"%string {} {}", t, coq_bool(*p), coq_bool(*w)))
            .collect::<Vec<_>>(),
    )
}
fn coq_pol(p: &Pol) -> String {
    format!(
        "(mkPol {} {} {} {} {} {} {} {})",
        p.min_delay,
        p.max_delay,
        p.max_channel_size_sat,
        p.max_htlcs,
        p.max_htlc_value_sat,
        coq_bool(p.use_chain_state),
        p.min_feerate,
        p.max_feerate
    )
}
fn coq_setup(s: &Setup) -> String {
    format!(
        "(mkSetup {} {} {} {} {} {} {})",
        coq_bool(s.is_outbound),
        s.channel_value_sat,
        s.push_value_msat,
        s.holder_delay,
        s.cp_delay,
        ctype_name(s.ctype),
        s.shutdown
    )
}
fn coq_chain(c: &Chain) -> String {
    format!("(mkChain {} {} {})", c.current_height, c.funding_depth, c.closing_depth)
}
fn coq_htlcs(h: &[(u64, u32)]) -> String {
    coq_list(&h.iter().map(|(v, e)| format!("({}, {})", v, e)).collect::<Vec<_>>())
}
fn coq_info(i: &Info) -> String {
    format!(
        "(mkInfo {} {} {} {} {} {})",
        coq_bool(i.cp_broadcaster),
        i.to_countersigner,
        i.to_broadcaster,
        coq_htlcs(&i.offered),
        coq_htlcs(&i.received),
        i.feerate
    )
}
fn coq_est(e: &Est) -> String {
    let opt = |k: u8| match k {
        0 => "None".to_string(),
        1 => "(Some true)".to_string(),
        _ => "(Some false)".to_string(),
    };
    format!(
        "(mkEstate {} {} {} {} {} {} {})",
        e.next_holder,
        e.next_cp_commit,
        e.next_cp_revoke,
        coq_bool(e.closed),
        opt(e.cp_point),
        coq_bool(e.cp_info_same),
        opt(e.holder_info)
    )
}
fn profile_name() -> &'static str {
    if overflow_checks() {
        "Debug"
    } else {
        "Release"
    }
}
fn overflow_checks() -> bool {
    let x: u8 = std::hint::black_box(255);
    catch_unwind(|| std::hint::black_box(x + std::hint::black_box(1))).is_err()
}

fn json_case(c: &Case) -> Value {
    json!({
        "policy": {"min_delay": c.pol.min_delay, "max_delay": c.pol.max_delay,
                   "max_channel_size_sat": c.pol.max_channel_size_sat, "max_htlcs": c.pol.max_htlcs,
                   "max_htlc_value_sat": c.pol.max_htlc_value_sat, "use_chain_state": c.pol.use_chain_state,
                   "min_feerate_per_kw": c.pol.min_feerate, "max_feerate_per_kw": c.pol.max_feerate,
                   "filter_rules": c.pol.rules},
        "entry": (["simple/counterparty", "simple/holder", "onchain/counterparty", "onchain/holder"][c.entry as usize]),
        "estate": {"next_holder_commit_num": c.est.next_holder, "next_counterparty_commit_num": c.est.next_cp_commit,
                   "next_counterparty_revoke_num": c.est.next_cp_revoke, "channel_closed": c.est.closed,
                   "current_counterparty_point": (["none", "same", "different"][c.est.cp_point as usize]),
                   "previous_info_same": c.est.cp_info_same,
                   "current_holder_info": (["none", "same", "different"][c.est.holder_info as usize])},
        "setup": {"is_outbound": c.setup.is_outbound, "channel_value_sat": c.setup.channel_value_sat,
                  "push_value_msat": c.setup.push_value_msat, "holder_selected_contest_delay": c.setup.holder_delay,
                  "counterparty_selected_contest_delay": c.setup.cp_delay, "commitment_type": ctype_name(c.setup.ctype)},
        "chain_state": {"current_height": c.cs.current_height, "funding_depth": c.cs.funding_depth,
                        "closing_depth": c.cs.closing_depth},
        "commit_num": c.n,
        "info": {"is_counterparty_broadcaster": c.info.cp_broadcaster,
                 "to_countersigner_value_sat": c.info.to_countersigner,
                 "to_broadcaster_value_sat": c.info.to_broadcaster,
                 "offered_htlcs(value_sat,cltv)": c.info.offered, "received_htlcs(value_sat,cltv)": c.info.received,
                 "feerate_per_kw": c.info.feerate},
    })
}

// ------------------------------------------------------------------ real objects

fn real_policy(p: &Pol) -> SimplePolicy {
    let mut policy = World::default_policy();
    policy.min_delay = p.min_delay;
    policy.max_delay = p.max_delay;
    policy.max_channel_size_sat = p.max_channel_size_sat;
    policy.max_htlcs = p.max_htlcs;
    policy.max_htlc_value_sat = p.max_htlc_value_sat;
    policy.use_chain_state = p.use_chain_state;
    policy.min_feerate_per_kw = p.min_feerate;
    policy.max_feerate_per_kw = p.max_feerate;
    policy.filter = PolicyFilter {
        rules: p
            .rules
            .iter()
            .map(|(t, pre, w)| FilterRule {
                tag: t.clone(),
                is_prefix: *pre,
                action: if *w { FilterResult::Warn } else { FilterResult::Error },
            })
            .collect(),
    };
    policy
}

fn real_validator(p: &Pol, onchain: bool) -> Arc<dyn Validator> {
    let factory = SimpleValidatorFactory::new_with_policy(real_policy(p));
    let node_id = make_test_pubkey(1);
    if onchain {
        OnchainValidatorFactory::new_with_simple_factory(factory).make_validator(NETWORK, node_id, None)
    } else {
        factory.make_validator(NETWORK, node_id, None)
    }
}

fn real_setup(s: &Setup, shutdown_script: Option<ScriptBuf>) -> ChannelSetup {
    let mut setup = make_test_channel_setup();
    setup.is_outbound = s.is_outbound;
    setup.channel_value_sat = s.channel_value_sat;
    setup.push_value_msat = s.push_value_msat;
    setup.holder_selected_contest_delay = s.holder_delay;
    setup.counterparty_selected_contest_delay = s.cp_delay;
    setup.commitment_type = ctype_of(s.ctype);
    setup.holder_shutdown_script = shutdown_script;
    setup
}

fn hash_of(k: usize, side: u8) -> PaymentHash {
    let mut h = [0u8; 32];
    h[0] = side;
    h[1] = k as u8;
    PaymentHash(h)
}

/// CommitmentInfo2::new sorts the HTLC lists; the abstract case is rewritten to that order
fn real_info(i: &mut Info) -> CommitmentInfo2 {
    let mk = |hs: &[(u64, u32)], side: u8| {
        hs.iter()
            .enumerate()
            .map(|(k, (v, e))| HTLCInfo2 { value_sat: *v, payment_hash: hash_of(k, side), cltv_expiry: *e })
            .collect::<Vec<_>>()
    };
    let info2 = CommitmentInfo2::new(
        i.cp_broadcaster,
        i.to_countersigner,
        i.to_broadcaster,
        mk(&i.offered, 1),
        mk(&i.received, 2),
        i.feerate,
    );
    i.offered = info2.offered_htlcs.iter().map(|h| (h.value_sat, h.cltv_expiry)).collect();
    i.received = info2.received_htlcs.iter().map(|h| (h.value_sat, h.cltv_expiry)).collect();
    info2
}

/// small enum for a refusal: 100 + the model's tag code; 199 for a tag outside the model
fn err_code(ve: &ValidationError) -> u64 {
    let temporary = matches!(ve.kind, ValidationErrorKind::TemporaryPolicy(_));
    let policy = matches!(ve.kind, ValidationErrorKind::Policy(_));
    if !temporary && !policy {
        return 198;
    }
    let code = match ve.tag.as_str() {
        "policy-commitment-outputs-trimmed" => 0,
        "policy-commitment-htlc-count-limit" => 1,
        "policy-commitment-htlc-cltv-range" => 2,
        "policy-commitment-payment-velocity" => 3,
        "policy-commitment-htlc-inflight-limit" => 4,
        "policy-commitment-fee-range" => 5,
        "policy-commitment-first-no-htlcs" => 6,
        "policy-commitment-initial-funding-value" => 7,
        "policy-commitment-previous-revoked" => 8,
        "policy-commitment-retry-same" => 9,
        "policy-commitment-holder-not-revoked" => 10,
        "policy-commitment-spends-active-utxo" =>
            if temporary {
                12
            } else {
                11
            },
        "policy-channel-safe-type" => 13,
        "policy-channel-contest-delay-range-holder" => 14,
        "policy-channel-contest-delay-range-counterparty" => 15,
        "policy-onchain-output-scriptpubkey" => 16,
        "policy-mutual-destination-allowlisted" => 17,
        "policy-funding-max" => 18,
        _ => 99,
    };
    if temporary && code != 12 {
        return 197;
    }
    100 + code
}

fn obs_of<T>(r: std::thread::Result<Result<T, ValidationError>>) -> u64 {
    match r {
        Err(_) => 1,
        Ok(Ok(_)) => 0,
        Ok(Err(ve)) => err_code(&ve),
    }
}

/// run one validator-level case on the real code
fn run_commit(c: &mut Case) -> u64 {
    let onchain = c.entry >= 2;
    let validator = real_validator(&c.pol, onchain);
    let setup = real_setup(&c.setup, None);
    let info2 = real_info(&mut c.info);
    let point = make_test_pubkey(10);
    let other_point = make_test_pubkey(11);
    let mut different = info2.clone();
    different.to_broadcaster_value_sat = different.to_broadcaster_value_sat.wrapping_add(1);
    let mut estate = EnforcementState::new(0);
    estate.next_holder_commit_num = c.est.next_holder;
    estate.next_counterparty_commit_num = c.est.next_cp_commit;
    estate.next_counterparty_revoke_num = c.est.next_cp_revoke;
    estate.channel_closed = c.est.closed;
    estate.current_counterparty_point = match c.est.cp_point {
        0 => None,
        1 => Some(point),
        _ => Some(other_point),
    };
    estate.current_counterparty_commit_info =
        if c.est.cp_info_same { Some(info2.clone()) } else { Some(different.clone()) };
    estate.current_holder_commit_info = match c.est.holder_info {
        0 => None,
        1 => Some(info2.clone()),
        _ => Some(different.clone()),
    };
    let cstate = ChainState {
        current_height: c.cs.current_height,
        funding_depth: c.cs.funding_depth,
        funding_double_spent_depth: 0,
        closing_depth: c.cs.closing_depth,
    };
    let n = c.n;
    let holder = c.entry % 2 == 1;
    let r = catch_unwind(AssertUnwindSafe(|| {
        if holder {
            validator.validate_holder_commitment_tx(&estate, n, &point, &setup, &cstate, &info2)
        } else {
            validator.validate_counterparty_commitment_tx(&estate, n, &point, &setup, &cstate, &info2)
        }
    }));
    obs_of(r)
}

// ------------------------------------------------------------------ reference predicate (u128)

/// reference reading of a filter: the first rule that matches (exactly, or as a prefix when the
/// rule says so) decides; no rule = not downgraded
fn ref_warned(rules: &[(String, bool, bool)], tag: &str) -> bool {
    for (t, is_prefix, warn) in rules {
        let hit = if *is_prefix { tag.len() >= t.len() && &tag[..t.len()] == t.as_str() } else { tag == t.as_str() };
        if hit {
            return *warn;
        }
    }
    false
}

/// the policy tag guarding each conjunct ("" = cannot be downgraded)
fn tag_of(msg: &str) -> &'static str {
    match msg {
        "outputs exceed the channel value" => "",
        "fee below the BOLT-3 fee at min_feerate_per_kw" | "fee at or above the BOLT-3 fee at max_feerate_per_kw + 1" =>
            "policy-commitment-fee-range",
        "main output below the dust limit" | "offered HTLC below the trim limit" | "received HTLC below the trim limit" =>
            "policy-commitment-outputs-trimmed",
        "too many HTLCs" => "policy-commitment-htlc-count-limit",
        "in-flight value above max_htlc_value_sat" => "policy-commitment-htlc-inflight-limit",
        "HTLC expiry at or above MAX_CLTV_EXPIRY" | "HTLC expiry outside [height + min_delay, height + max_delay]" =>
            "policy-commitment-htlc-cltv-range",
        "initial commitment with HTLCs" => "policy-commitment-first-no-htlcs",
        "initial commitment gives the fundee more than the pushed value" => "policy-commitment-initial-funding-value",
        "commitment beyond the initial one while funding unconfirmed or closed" => "policy-commitment-spends-active-utxo",
        "unsafe commitment type accepted" => "policy-channel-safe-type",
        "counterparty-selected contest delay outside policy accepted" => "policy-channel-contest-delay-range-holder",
        "holder-selected contest delay outside policy accepted" => "policy-channel-contest-delay-range-counterparty",
        "foreign shutdown script accepted" => "policy-mutual-destination-allowlisted",
        "channel above max_channel_size_sat accepted" => "policy-funding-max",
        _ => "",
    }
}

/// the violated conjuncts whose tag the filter does not downgrade
fn not_downgraded(rules: &[(String, bool, bool)], v: Vec<&'static str>) -> Vec<&'static str> {
    v.into_iter().filter(|m| tag_of(m).is_empty() || !ref_warned(rules, tag_of(m))).collect()
}

fn htlc_limit(s: &Setup, i: &Info, w: u128) -> u128 {
    if is_zero_fee(s.ctype) {
        354
    } else {
        330 + (i.feerate as u128) * w / 1000
    }
}

/// the conjuncts of the property that the accepted commitment violates (independent of the model:
/// plain u128 arithmetic over the inputs); `release`: the build wraps u32 additions
fn reference_violations(c: &Case, release: bool) -> (Vec<&'static str>, bool) {
    let (p, s, i) = (&c.pol, &c.setup, &c.info);
    let mut v = vec![];
    let mut out_of_domain = false;
    let count = (i.offered.len() + i.received.len()) as u128;
    let hsum: u128 = i.offered.iter().chain(i.received.iter()).map(|h| h.0 as u128).sum();
    let total = i.to_broadcaster as u128 + i.to_countersigner as u128 + hsum;
    let cv = s.channel_value_sat as u128;
    let w = (if is_anchors(s.ctype) { 1124u128 } else { 724 }) + 172 * count;
    if total > cv {
        v.push("outputs exceed the channel value");
    } else {
        let fee = cv - total;
        if (p.min_feerate as u128) * w > fee * 1000 + 999 {
            v.push("fee below the BOLT-3 fee at min_feerate_per_kw");
        }
        // max_feerate = u32::MAX is "no maximum" (side condition of the theorem)
        if p.max_feerate < U32MAX && fee * 1000 + 999 >= (p.max_feerate as u128 + 1) * w {
            v.push("fee at or above the BOLT-3 fee at max_feerate_per_kw + 1");
        }
    }
    for x in [i.to_broadcaster, i.to_countersigner] {
        if x != 0 && x < 354 {
            v.push("main output below the dust limit");
        }
    }
    if i.offered.iter().any(|h| (h.0 as u128) < htlc_limit(s, i, 663)) {
        v.push("offered HTLC below the trim limit");
    }
    if i.received.iter().any(|h| (h.0 as u128) < htlc_limit(s, i, 703)) {
        v.push("received HTLC below the trim limit");
    }
    if count > p.max_htlcs as u128 {
        v.push("too many HTLCs");
    }
    if hsum > p.max_htlc_value_sat as u128 {
        v.push("in-flight value above max_htlc_value_sat");
    }
    let cur = c.cs.current_height as u128;
    let fits = cur + p.max_delay as u128 <= U32MAX as u128 && cur + p.min_delay as u128 <= U32MAX as u128;
    for h in i.offered.iter().chain(i.received.iter()) {
        let e = h.1 as u128;
        if e >= MAX_CLTV as u128 {
            v.push("HTLC expiry at or above MAX_CLTV_EXPIRY");
        }
        if p.use_chain_state && (e < cur + p.min_delay as u128 || e > cur + p.max_delay as u128) {
            if release && !fits {
                out_of_domain = true; // heights_fit fails: outside the theorem's domain
            } else {
                v.push("HTLC expiry outside [height + min_delay, height + max_delay]");
            }
        }
    }
    if c.n == 0 {
        if count > 0 {
            v.push("initial commitment with HTLCs");
        }
        let cpv = if i.cp_broadcaster { i.to_broadcaster } else { i.to_countersigner };
        if s.is_outbound && cpv > s.push_value_msat / 1000 {
            v.push("initial commitment gives the fundee more than the pushed value");
        }
    }
    if c.entry >= 2 && c.n > 0 {
        let applies = c.entry == 2 || c.est.next_holder <= c.n;
        if applies && (c.cs.funding_depth < 1 || c.cs.closing_depth > 0) {
            v.push("commitment beyond the initial one while funding unconfirmed or closed");
        }
    }
    v.dedup();
    (v, out_of_domain)
}

// ------------------------------------------------------------------ generation

fn edge64(rng: &mut Rng, bound: u64) -> u64 {
    match rng.below(11) {
        0 => bound.wrapping_sub(1),
        1 => bound,
        2 => bound.wrapping_add(1),
        3 => 0,
        4 => (1u64 << 32) - 1,
        5 => (1u64 << 32) + 1,
        6 => 1u64 << 63,
        7 => U64MAX,
        8 => 1,
        9 => U64MAX - 1,
        _ => bound / 2,
    }
}
fn edge32(rng: &mut Rng, bound: u32) -> u32 {
    match rng.below(8) {
        0 => bound.wrapping_sub(1),
        1 => bound,
        2 => bound.wrapping_add(1),
        3 => 0,
        4 => U32MAX,
        5 => U32MAX - 1,
        6 => 1,
        _ => bound / 2,
    }
}

const RULE_MENU: usize = 10;
fn rules_menu(k: usize) -> Vec<(String, bool, bool)> {
    let r = |t: &str, p: bool, w: bool| (t.to_string(), p, w);
    match k {
        0 => vec![r("policy-commitment-fee-range", false, true)],
        1 => vec![r("policy-commitment-", true, true)],
        2 => vec![r("policy-commitment-fee-range", false, false), r("policy-commitment-", true, true)],
        3 => vec![r("", true, true)],
        4 => vec![
            r("policy-commitment-outputs-trimmed", false, true),
            r("policy-commitment-htlc-cltv-range", false, true),
        ],
        5 => vec![r("policy-commitment-htlc", true, true)],
        6 => vec![r("policy-commitment-spends-active-utxo", false, true)],
        7 => vec![r("policy-commitment-fee-rang", false, true), r("policy-commitment-fee-range-x", true, true)],
        8 => vec![r("policy-", true, false), r("", true, true)],
        _ => vec![
            r("policy-commitment-first-no-htlcs", false, true),
            r("policy-commitment-initial-funding-value", false, true),
            r("policy-commitment-htlc-count-limit", false, true),
            r("policy-commitment-htlc-inflight-limit", false, true),
        ],
    }
}

fn weight(ctype: u8, count: usize) -> u128 {
    (if is_anchors(ctype) { 1124u128 } else { 724 }) + 172 * count as u128
}
/// smallest and largest fee accepted for (min, max) at weight w
fn fee_window(min: u32, max: u32, w: u128) -> (u128, u128) {
    let lo = (min as u128) * w / 1000;
    let hi = ((max as u128 + 1) * w / 1000).saturating_sub(1);
    (lo, hi)
}
fn cur_totals(c: &Case) -> (u128, u128) {
    let hsum: u128 = c.info.offered.iter().chain(c.info.received.iter()).map(|h| h.0 as u128).sum();
    (hsum, c.info.to_broadcaster as u128 + c.info.to_countersigner as u128 + hsum)
}
fn clamp64(x: u128) -> u64 {
    if x > U64MAX as u128 {
        U64MAX
    } else {
        x as u64
    }
}
/// set the channel value so that the implied fee is `fee`
fn set_fee(c: &mut Case, fee: u128) {
    let (_, total) = cur_totals(c);
    c.setup.channel_value_sat = clamp64(total + fee);
}

/// a commitment that every check accepts
fn base_case(rng: &mut Rng) -> Case {
    let ctype = *rng.pick(&[1u8, 1, 1, 1, 3, 3, 3, 3, 0, 2]);
    let min_delay = *rng.pick(&[0u16, 4, 144]);
    let max_delay = *rng.pick(&[min_delay.max(6), 2016, 2016, 65535]);
    let min_feerate = *rng.pick(&[0u32, 253, 253, 1000]);
    let max_feerate = *rng.pick(&[min_feerate.max(1), 25_000, 333_333, 333_333, U32MAX - 1, U32MAX]);
    let use_chain_state = rng.chance(1, 2);
    let pol = Pol {
        min_delay,
        max_delay,
        max_channel_size_sat: *rng.pick(&[1_000_000_001u64, 10_000_000_000, 1 << 63, U64MAX]),
        max_htlcs: *rng.pick(&[6usize, 6, 1000, usize::MAX]),
        max_htlc_value_sat: *rng.pick(&[16_777_216u64, 1_000_000_000_000, U64MAX]),
        use_chain_state,
        min_feerate,
        max_feerate,
        rules: vec![],
    };
    let cur = *rng.pick(&[0u32, 1000, 800_000, 400_000_000]);
    let cs = Chain {
        current_height: cur,
        funding_depth: *rng.pick(&[1u32, 1, 6, U32MAX]),
        closing_depth: 0,
    };
    let n = *rng.pick(&[0u64, 0, 0, 1, 1, 2, 7, 1 << 40]);
    let feerate = *rng.pick(&[0u32, 253, 1000, 25_000]);
    let (no, nr) = if n == 0 { (0, 0) } else { (rng.below(3) as usize, rng.below(3) as usize) };
    let setup = Setup {
        is_outbound: rng.chance(1, 2),
        channel_value_sat: 0,
        push_value_msat: 0,
        holder_delay: min_delay.max(6).min(max_delay),
        cp_delay: max_delay.min(144).max(min_delay),
        ctype,
        shutdown: 0,
    };
    let mut info = Info {
        cp_broadcaster: rng.chance(1, 2),
        to_countersigner: *rng.pick(&[0u64, 354, 500_000, 2_000_000]),
        to_broadcaster: *rng.pick(&[0u64, 354, 1_000_000, 777_777]),
        offered: vec![],
        received: vec![],
        feerate,
    };
    let cltv = |rng: &mut Rng| -> u32 {
        if use_chain_state {
            let lo = cur + min_delay as u32;
            let hi = cur + max_delay as u32;
            *rng.pick(&[lo, hi, lo + (hi - lo) / 2]).min(&(MAX_CLTV - 1))
        } else {
            *rng.pick(&[0u32, 500, 1_000_000, MAX_CLTV - 1])
        }
    };
    for _ in 0..no {
        let lim = htlc_limit(&setup, &info, 663) as u64;
        let v = lim + *rng.pick(&[0u64, 1, 1000, 100_000]);
        let e = cltv(rng);
        info.offered.push((v, e));
    }
    for _ in 0..nr {
        let lim = htlc_limit(&setup, &info, 703) as u64;
        let v = lim + *rng.pick(&[0u64, 1, 1000, 100_000]);
        let e = cltv(rng);
        info.received.push((v, e));
    }
    let entry = rng.below(4) as u8;
    let est = Est {
        next_holder: n,
        next_cp_commit: n,
        next_cp_revoke: n.saturating_sub(1),
        closed: false,
        cp_point: 1,
        cp_info_same: true,
        holder_info: 1,
    };
    let mut c = Case { pol, entry, est, setup, cs, n, info };
    // initial commitment of an outbound channel: the fundee gets at most the pushed value
    let cpv = if c.info.cp_broadcaster { c.info.to_broadcaster } else { c.info.to_countersigner };
    c.setup.push_value_msat = cpv * 1000 + *rng.pick(&[0u64, 999]);
    let w = weight(ctype, no + nr);
    let (lo, hi) = fee_window(min_feerate, max_feerate, w);
    let fee = *rng.pick(&[lo, hi.max(lo), lo + (hi.max(lo) - lo) / 2]);
    set_fee(&mut c, fee);
    c
}

const N_FIELDS: u64 = 27;

/// put one boundary value into field `f`
fn mutate(c: &mut Case, f: u64, rng: &mut Rng) {
    let (hsum, total) = cur_totals(c);
    let count = c.info.offered.len() + c.info.received.len();
    let w = weight(c.setup.ctype, count);
    let (flo, fhi) = fee_window(c.pol.min_feerate, c.pol.max_feerate, w);
    let cur_fee = (c.setup.channel_value_sat as u128).saturating_sub(total);
    let est_rate = clamp64((cur_fee * 1000 + 999) / w).min(U32MAX as u64) as u32;
    match f {
        0 => {
            let rest = total - c.info.to_broadcaster as u128;
            let fit = clamp64((c.setup.channel_value_sat as u128).saturating_sub(rest));
            c.info.to_broadcaster = match rng.below(4) {
                0 => edge64(rng, 354),
                1 => edge64(rng, fit),
                2 => *rng.pick(&[353u64, 354, 355, 1]),
                _ => edge64(rng, U64MAX - clamp64(rest)),
            }
        }
        1 => {
            let rest = total - c.info.to_countersigner as u128;
            let fit = clamp64((c.setup.channel_value_sat as u128).saturating_sub(rest));
            c.info.to_countersigner = match rng.below(4) {
                0 => edge64(rng, 354),
                1 => edge64(rng, fit),
                2 => *rng.pick(&[353u64, 354, 355, 1]),
                _ => edge64(rng, U64MAX - clamp64(rest)),
            }
        }
        2 | 3 => {
            // an HTLC value (offered for 2, received for 3); adds one if there is none
            let offered = f == 2;
            let lim = htlc_limit(&c.setup, &c.info, if offered { 663 } else { 703 }) as u64;
            let cur = c.cs.current_height;
            let e = if c.pol.use_chain_state { cur.saturating_add(c.pol.min_delay as u32) } else { 1000 };
            let list = if offered { &mut c.info.offered } else { &mut c.info.received };
            if list.is_empty() {
                list.push((lim, e.min(MAX_CLTV - 1)));
            }
            let k = rng.below(list.len() as u64) as usize;
            let others = hsum.saturating_sub(list[k].0 as u128);
            let room = clamp64((c.pol.max_htlc_value_sat as u128).saturating_sub(others));
            list[k].0 = match rng.below(3) {
                0 => edge64(rng, lim),
                1 => edge64(rng, room),
                _ => *rng.pick(&[lim.wrapping_sub(1), lim, lim + 1, 0, 329, 330, 353, 354]),
            };
        }
        4 | 5 => {
            // an HTLC expiry
            let offered = f == 4;
            let cur = c.cs.current_height as u64;
            let lo = cur + c.pol.min_delay as u64;
            let hi = cur + c.pol.max_delay as u64;
            let lim = htlc_limit(&c.setup, &c.info, if offered { 663 } else { 703 }) as u64;
            let list = if offered { &mut c.info.offered } else { &mut c.info.received };
            if list.is_empty() {
                list.push((lim + 1, 0));
            }
            let k = rng.below(list.len() as u64) as usize;
            let pick = *rng.pick(&[
                lo.wrapping_sub(1),
                lo,
                lo + 1,
                hi.wrapping_sub(1),
                hi,
                hi + 1,
                0,
                MAX_CLTV as u64 - 1,
                MAX_CLTV as u64,
                U32MAX as u64,
                lo & 0xffff_ffff,
                hi & 0xffff_ffff,
                (hi + 1) & 0xffff_ffff,
            ]);
            list[k].1 = (pick & 0xffff_ffff) as u32;
        }
        6 => {
            c.info.feerate = *rng.pick(&[0u32, 1, 2, 253, 1000, 1508, 1509, 25_000, U32MAX - 1, U32MAX]);
        }
        7 => {
            // the implied fee, via the channel value
            let trunc = |k: u128, r: u128| ((k << 32) + r) * w / 1000 + 1;
            let r_in = (c.pol.min_feerate as u128 + c.pol.max_feerate as u128) / 2;
            let fee = match rng.below(14) {
                0 => flo.saturating_sub(1),
                1 => flo,
                2 => flo + 1,
                3 => fhi.saturating_sub(1),
                4 => fhi,
                5 => fhi + 1,
                6 => 0,
                7 => trunc(1, r_in.max(1)),
                8 => trunc(1, c.pol.min_feerate as u128 + 1),
                9 => trunc(2, r_in.max(1)),
                10 => (U64MAX as u128) / 1000 + *rng.pick(&[0u128, 1, 2]),
                11 => (U64MAX as u128 - 999) / 1000 + *rng.pick(&[0u128, 1]),
                12 => ((1u128 << 32) * w) / 1000 + *rng.pick(&[0u128, 1]),
                _ => *rng.pick(&[(1u128 << 32) - 1, (1u128 << 32) + 1, 1u128 << 63]),
            };
            set_fee(c, fee);
        }
        8 => {
            c.setup.channel_value_sat = match rng.below(3) {
                0 => edge64(rng, clamp64(total)),
                1 => clamp64(total).wrapping_sub(1),
                _ => edge64(rng, c.pol.max_channel_size_sat),
            }
        }
        9 => {
            if c.n == 0 && rng.chance(3, 4) {
                c.setup.is_outbound = true;
            }
            let cpv = if c.info.cp_broadcaster { c.info.to_broadcaster } else { c.info.to_countersigner };
            let b = (cpv as u128) * 1000;
            c.setup.push_value_msat = match rng.below(6) {
                0 => clamp64(b).wrapping_sub(1),
                1 => clamp64(b),
                2 => clamp64(b + 999),
                3 => clamp64(b + 1000),
                4 => 0,
                _ => edge64(rng, clamp64(b)),
            };
        }
        10 => {
            let next = if c.entry % 2 == 1 { c.est.next_holder } else { c.est.next_cp_commit };
            c.n = *rng.pick(&[
                0u64,
                1,
                2,
                next.wrapping_sub(2),
                next.wrapping_sub(1),
                next,
                next.wrapping_add(1),
                1 << 63,
                U64MAX - 2,
                U64MAX - 1,
                U64MAX,
            ]);
        }
        11 => {
            let n = c.n;
            let v = *rng.pick(&[n.wrapping_sub(1), n, n.wrapping_add(1), n.wrapping_add(2), 0, U64MAX, U64MAX - 1]);
            if c.entry % 2 == 1 {
                c.est.next_holder = v
            } else {
                c.est.next_cp_commit = v
            }
        }
        12 => {
            let n = c.n;
            c.est.next_cp_revoke = *rng.pick(&[n.wrapping_sub(2), n.wrapping_sub(1), n, 0, U64MAX, U64MAX - 1]);
        }
        13 => c.est.closed = !c.est.closed,
        14 => {
            // a retry with the same / different / missing data
            if c.entry % 2 == 1 {
                c.est.next_holder = c.n.wrapping_add(1);
                c.est.holder_info = rng.below(3) as u8;
            } else {
                c.est.next_cp_commit = c.n.wrapping_add(1);
                c.est.cp_point = rng.below(3) as u8;
                c.est.cp_info_same = rng.chance(1, 2);
            }
        }
        15 => {
            let mind = c.pol.min_delay as u32;
            let maxd = c.pol.max_delay as u32;
            let e0 = c.info.offered.first().or(c.info.received.first()).map(|h| h.1).unwrap_or(1000);
            c.cs.current_height = *rng.pick(&[
                0u32,
                U32MAX,
                U32MAX - mind,
                (U32MAX - mind).wrapping_add(1),
                U32MAX - maxd,
                (U32MAX - maxd).wrapping_add(1),
                e0.wrapping_sub(mind),
                e0.wrapping_sub(mind).wrapping_add(1),
                e0.wrapping_sub(maxd),
                e0.wrapping_sub(maxd).wrapping_sub(1),
                MAX_CLTV,
            ]);
        }
        16 => c.cs.funding_depth = *rng.pick(&[0u32, 0, 1, 2, U32MAX]),
        17 => c.cs.closing_depth = *rng.pick(&[0u32, 1, 1, 100, U32MAX]),
        18 => {
            c.pol.max_htlcs = *rng.pick(&[count.wrapping_sub(1), count, count + 1, 0, 1, usize::MAX]);
        }
        19 => {
            c.pol.max_htlc_value_sat = edge64(rng, clamp64(hsum));
        }
        20 => c.pol.min_feerate = edge32(rng, est_rate),
        21 => c.pol.max_feerate = edge32(rng, est_rate),
        22 => {
            let e0 = c.info.offered.first().or(c.info.received.first()).map(|h| h.1).unwrap_or(1000);
            let d = e0.wrapping_sub(c.cs.current_height);
            let v = *rng.pick(&[0u32, 1, 65535, d.wrapping_sub(1), d, d.wrapping_add(1)]);
            let v = (v & 0xffff) as u16;
            if rng.chance(1, 2) {
                c.pol.min_delay = v
            } else {
                c.pol.max_delay = v
            }
        }
        23 => c.pol.use_chain_state = !c.pol.use_chain_state,
        24 => c.setup.ctype = rng.below(4) as u8,
        25 => {
            if rng.chance(1, 2) {
                c.setup.is_outbound = !c.setup.is_outbound
            } else {
                c.info.cp_broadcaster = !c.info.cp_broadcaster
            }
        }
        _ => {
            // more HTLCs: past the count limit, or values whose sum overflows u64
            let lim = htlc_limit(&c.setup, &c.info, 703) as u64;
            let e = if c.pol.use_chain_state {
                c.cs.current_height.saturating_add(c.pol.min_delay as u32).min(MAX_CLTV - 1)
            } else {
                1000
            };
            match rng.below(3) {
                0 => {
                    let target = (c.pol.max_htlcs.min(12) + 1).saturating_sub(count);
                    for k in 0..target {
                        if k % 2 == 0 {
                            c.info.offered.push((lim + k as u64, e))
                        } else {
                            c.info.received.push((lim + k as u64, e))
                        }
                    }
                }
                1 => {
                    c.info.offered.push((1 << 63, e));
                    c.info.received.push((*rng.pick(&[1u64 << 63, (1 << 63) - 1]), e));
                }
                _ => {
                    c.info.received.push((U64MAX - clamp64(hsum), e));
                    c.info.received.push((*rng.pick(&[0u64, 1, lim]), e));
                }
            }
        }
    }
}

fn malformed_case(rng: &mut Rng) -> Case {
    let e64 = |rng: &mut Rng| {
        let b = *rng.pick(&[0u64, 354, 1000, 1 << 32, 1 << 63, U64MAX]);
        edge64(rng, b)
    };
    let e32 = |rng: &mut Rng| {
        let b = *rng.pick(&[0u32, 253, 1000, MAX_CLTV, U32MAX]);
        edge32(rng, b)
    };
    let htlcs = |rng: &mut Rng| {
        let k = rng.below(4);
        (0..k).map(|_| (e64(rng), e32(rng))).collect::<Vec<_>>()
    };
    Case {
        pol: Pol {
            min_delay: (e32(rng) & 0xffff) as u16,
            max_delay: (e32(rng) & 0xffff) as u16,
            max_channel_size_sat: e64(rng),
            max_htlcs: e64(rng) as usize,
            max_htlc_value_sat: e64(rng),
            use_chain_state: rng.chance(1, 2),
            min_feerate: e32(rng),
            max_feerate: e32(rng),
            rules: if rng.chance(1, 3) { rules_menu(rng.below(RULE_MENU as u64) as usize) } else { vec![] },
        },
        entry: rng.below(4) as u8,
        est: Est {
            next_holder: e64(rng),
            next_cp_commit: e64(rng),
            next_cp_revoke: e64(rng),
            closed: rng.chance(1, 2),
            cp_point: rng.below(3) as u8,
            cp_info_same: rng.chance(1, 2),
            holder_info: rng.below(3) as u8,
        },
        setup: Setup {
            is_outbound: rng.chance(1, 2),
            channel_value_sat: e64(rng),
            push_value_msat: e64(rng),
            holder_delay: 6,
            cp_delay: 6,
            ctype: rng.below(4) as u8,
            shutdown: 0,
        },
        cs: Chain { current_height: e32(rng), funding_depth: e32(rng), closing_depth: e32(rng) },
        n: e64(rng),
        info: Info {
            cp_broadcaster: rng.chance(1, 2),
            to_countersigner: e64(rng),
            to_broadcaster: e64(rng),
            offered: htlcs(rng),
            received: htlcs(rng),
            feerate: e32(rng),
        },
    }
}

fn coq_commit_case(c: &Case, obs: u64) -> String {
    format!(
        "(({}, {}, {}), ({}, {}, {}, {}, {}, {}), {})",
        profile_name(),
        coq_rules(&c.pol.rules),
        coq_pol(&c.pol),
        c.entry,
        coq_est(&c.est),
        coq_setup(&c.setup),
        coq_chain(&c.cs),
        c.n,
        coq_info(&c.info),
        obs
    )
}

fn commit(args: &Args) {
    let mut rng = Rng::new(args.seed ^ 0xc05);
    let release = !overflow_checks();
    let npairs = N_FIELDS * (N_FIELDS - 1) / 2;
    let mut pairs = vec![];
    for a in 0..N_FIELDS {
        for b in (a + 1)..N_FIELDS {
            pairs.push((a, b));
        }
    }
    let mut dist: std::collections::BTreeMap<u64, u64> = Default::default();
    let (mut monitored, mut monitor_failures, mut out_of_domain, mut base_accepted, mut base_total) = (0u64, 0u64, 0u64, 0u64, 0u64);
    let mut pairs_seen: std::collections::BTreeSet<(u64, u64)> = Default::default();
    for id in 0..args.n {
        let kind;
        let mut fields: Vec<u64> = vec![];
        let mut c = match id % 10 {
            0 => {
                kind = "malformed";
                malformed_case(&mut rng)
            }
            1 => {
                kind = "base";
                base_case(&mut rng)
            }
            _ => {
                kind = "pairwise";
                let mut c = base_case(&mut rng);
                let (a, b) = pairs[(id as u64 / 10 * 8 + (id as u64 % 10 - 2)) as usize % npairs as usize];
                pairs_seen.insert((a, b));
                // the earlier field first, so that derived boundaries of the later one see it
                mutate(&mut c, a, &mut rng);
                mutate(&mut c, b, &mut rng);
                fields = vec![a, b];
                if rng.chance(1, 5) {
                    let extra = rng.below(N_FIELDS);
                    mutate(&mut c, extra, &mut rng);
                    fields.push(extra);
                }
                if rng.chance(1, 5) {
                    c.pol.rules = rules_menu(rng.below(RULE_MENU as u64) as usize);
                }
                if rng.chance(1, 4) {
                    c.entry = rng.below(4) as u8;
                }
                c
            }
        };
        let obs = run_commit(&mut c);
        *dist.entry(obs).or_insert(0) += 1;
        if kind == "base" {
            base_total += 1;
            if obs == 0 {
                base_accepted += 1;
            }
        }
        let mut viol: Vec<&str> = vec![];
        if obs == 0 {
            monitored += 1;
            let (v, ood) = reference_violations(&c, release);
            let v = not_downgraded(&c.pol.rules, v);
            if ood {
                out_of_domain += 1;
            }
            if !v.is_empty() {
                monitor_failures += 1;
                viol = v;
            }
        }
        emit(
            "CASE",
            json!({"id": id, "kind": kind, "mutated_fields": fields, "case": json_case(&c), "observed": obs,
                   "monitor_violation": viol, "coq": coq_commit_case(&c, obs)}),
        );
    }
    emit(
        "STATS",
        json!({"kind": "commit", "profile": profile_name(), "observed_distribution": dist,
               "accepted_checked_by_monitor": monitored, "monitor_failures": monitor_failures,
               "accepted_outside_theorem_domain_release_height_wrap": out_of_domain,
               "base_cases": base_total, "base_cases_accepted": base_accepted,
               "field_pairs_covered": pairs_seen.len(), "field_pairs_total": npairs}),
    );
}

// ------------------------------------------------------------------ setup

fn make_services(policy: SimplePolicy, onchain: bool, world: &World) -> NodeServices {
    let simple = SimpleValidatorFactory::new_with_policy(policy);
    let validator_factory: Arc<dyn ValidatorFactory> =
        if onchain { Arc::new(OnchainValidatorFactory::new_with_simple_factory(simple)) } else { Arc::new(simple) };
    let starting_time_factory: Arc<dyn StartingTimeFactory> = make_genesis_starting_time_factory(NETWORK);
    let persister: Arc<dyn Persist> = world.persister.clone();
    let clock: Arc<dyn Clock> = world.clock.clone();
    NodeServices { validator_factory, starting_time_factory, persister, clock, trusted_oracle_pubkeys: vec![] }
}

fn setup_domain(args: &Args) {
    let mut rng = Rng::new(args.seed ^ 0x5e7);
    let world = World::new(World::default_policy(), [5u8; 32], KeyDerivationStyle::Native);
    let node = world.new_node();
    // scripts: ours (wallet path [5]), allowlisted, foreign
    let path5: DerivationPath = vec![ChildNumber::from_normal_idx(5).unwrap()].into();
    let ours = node.get_native_address(&path5).expect("addr").script_pubkey();
    let allow_addr = lightning_signer::bitcoin::Address::p2wpkh(&make_test_bitcoin_pubkey(42), NETWORK);
    node.add_allowlist(&vec![allow_addr.to_string()]).expect("allowlist");
    let allowed = allow_addr.script_pubkey();
    let foreign = lightning_signer::bitcoin::Address::p2wpkh(&make_test_bitcoin_pubkey(43), NETWORK).script_pubkey();
    let mut dist: std::collections::BTreeMap<String, u64> = Default::default();
    let mut monitor_failures = 0u64;
    let delays = [(4u16, 2016u16), (144, 2016), (0, 65535), (6, 6), (7, 6)];
    let rule_sets: Vec<Vec<(String, bool, bool)>> = vec![
        vec![],
        vec![],
        vec![],
        vec![("policy-channel-".to_string(), true, true)],
        vec![("policy-channel-contest-delay-range-holder".to_string(), false, true)],
        vec![("policy-channel-safe-type".to_string(), false, true), ("policy-funding-max".to_string(), false, true)],
        vec![("policy-mutual-destination-allowlisted".to_string(), false, true)],
        vec![("policy-channel-contest-delay-range-counterparty".to_string(), false, false), ("policy-".to_string(), true, true)],
    ];
    for id in 0..args.n {
        let (mind, maxd) = *rng.pick(&delays);
        let maxsize = *rng.pick(&[1_000_000_001u64, 10_000_000_000, 0, U64MAX]);
        let rules = rng.pick(&rule_sets).clone();
        let pol = Pol {
            min_delay: mind,
            max_delay: maxd,
            max_channel_size_sat: maxsize,
            max_htlcs: 1000,
            max_htlc_value_sat: 16_777_216,
            use_chain_state: false,
            min_feerate: 253,
            max_feerate: 333_333,
            rules,
        };
        let d = |rng: &mut Rng| -> u16 {
            *rng.pick(&[mind.wrapping_sub(1), mind, mind.wrapping_add(1), maxd.wrapping_sub(1), maxd, maxd.wrapping_add(1), 0, 65535, mind, maxd])
        };
        let shutdown = *rng.pick(&[0u8, 0, 1, 1, 2]);
        let s = Setup {
            is_outbound: rng.chance(1, 2),
            channel_value_sat: edge64(&mut rng, maxsize),
            push_value_msat: 0,
            holder_delay: d(&mut rng),
            cp_delay: d(&mut rng),
            ctype: *rng.pick(&[0u8, 1, 1, 2, 3, 3]),
            shutdown,
        };
        let (script, path) = match shutdown {
            0 => (None, DerivationPath::master()),
            1 =>
                if rng.chance(1, 2) {
                    (Some(ours.clone()), path5.clone())
                } else {
                    (Some(allowed.clone()), DerivationPath::master())
                },
            _ => (Some(foreign.clone()), if rng.chance(1, 2) { path5.clone() } else { DerivationPath::master() }),
        };
        let onchain = rng.chance(1, 3);
        let validator = real_validator(&pol, onchain);
        let setup = real_setup(&s, script);
        let wallet: &dyn Wallet = &*node;
        let o1 = obs_of(catch_unwind(AssertUnwindSafe(|| validator.validate_setup_channel(wallet, &setup, &path))));
        let o2 = obs_of(catch_unwind(AssertUnwindSafe(|| validator.validate_channel_value(&setup))));
        *dist.entry(format!("{}/{}", o1, o2)).or_insert(0) += 1;
        // the property itself
        let mut viol: Vec<&str> = vec![];
        if o1 == 0 {
            if !(s.ctype == 1 || s.ctype == 3) {
                viol.push("unsafe commitment type accepted");
            }
            if s.cp_delay < mind || s.cp_delay > maxd {
                viol.push("counterparty-selected contest delay outside policy accepted");
            }
            if s.holder_delay < mind || s.holder_delay > maxd {
                viol.push("holder-selected contest delay outside policy accepted");
            }
            if shutdown == 2 {
                viol.push("foreign shutdown script accepted");
            }
        }
        if o2 == 0 && s.channel_value_sat > maxsize {
            viol.push("channel above max_channel_size_sat accepted");
        }
        let viol = not_downgraded(&pol.rules, viol);
        if !viol.is_empty() {
            monitor_failures += 1;
        }
        let coq = format!("(({}, {}), {}, ({}, {}))", coq_rules(&pol.rules), coq_pol(&pol), coq_setup(&s), o1, o2);
        emit(
            "CASE",
            json!({"id": id, "kind": "setup", "validator": if onchain { "onchain" } else { "simple" },
                   "policy": {"min_delay": mind, "max_delay": maxd, "max_channel_size_sat": maxsize, "filter_rules": pol.rules},
                   "setup": {"commitment_type": ctype_name(s.ctype), "holder_selected_contest_delay": s.holder_delay,
                             "counterparty_selected_contest_delay": s.cp_delay, "channel_value_sat": s.channel_value_sat,
                             "holder_shutdown_script": (["none", "ours-or-allowlisted", "foreign"][shutdown as usize])},
                   "observed_setup": o1, "observed_channel_value": o2, "monitor_violation": viol, "coq": coq}),
        );
    }
    emit("STATS", json!({"kind": "setup", "observed_distribution(setup/value)": dist, "monitor_failures": monitor_failures}));
}

// ------------------------------------------------------------------ chan: a real channel

struct SignStep {
    what: &'static str,
    n: u64,
    est: Est,
    info: Info,
}

fn chan_domain(args: &Args) {
    let mut rng = Rng::new(args.seed ^ 0xc4a2);
    let release = !overflow_checks();
    let mut dist: std::collections::BTreeMap<String, u64> = Default::default();
    let (mut monitor_failures, mut signed) = (0u64, 0u64);
    for id in 0..args.n {
        // id 0 and 1: the fee-truncation witness and its control, end to end
        let witness = id == 0;
        let control = id == 1;
        let maxsize = if witness || control { 10_000_000_000u64 } else { *rng.pick(&[1_000_000_001u64, 10_000_000_000, 5_000_000_000]) };
        let onchain = !(witness || control) && rng.chance(1, 2);
        let rules = if !(witness || control) && rng.chance(1, 6) {
            vec![("policy-funding-max".to_string(), false, true)]
        } else {
            vec![]
        };
        let mut pol = Pol {
            min_delay: 4,
            max_delay: 2016,
            max_channel_size_sat: maxsize,
            max_htlcs: 1000,
            max_htlc_value_sat: 16_777_216,
            use_chain_state: false,
            min_feerate: 253,
            max_feerate: 333_333,
            rules,
        };
        let mut maxsize = maxsize;
        let ctype = if witness || control { 1 } else { *rng.pick(&[1u8, 3]) };
        let cv = if witness || control {
            10_000_000_000
        } else {
            *rng.pick(&[maxsize - 1, maxsize, maxsize, maxsize + 1, 2 * maxsize, 3_000_000, 5_000_000_000])
        };
        let is_outbound = witness || control || rng.chance(2, 3);
        let push_sat = if witness || control || !is_outbound { 0 } else { *rng.pick(&[0u64, 0, 10_000, 1_000_000]) };
        let s = Setup {
            is_outbound,
            channel_value_sat: cv,
            push_value_msat: if is_outbound { push_sat * 1000 + *rng.pick(&[0u64, 999]) } else { *rng.pick(&[0u64, 1_000_000_000]) },
            holder_delay: 6,
            cp_delay: 7,
            ctype,
            shutdown: 0,
        };
        let w = weight(ctype, 0);
        let (flo, fhi) = fee_window(pol.min_feerate, pol.max_feerate, w);
        let trunc = ((1u128 << 32) + 302) * w / 1000 + 1;
        let fee: u128 = if witness {
            3_109_556_540
        } else if control {
            3_000_000_000
        } else {
            *rng.pick(&[flo, flo, fhi, fhi, flo.saturating_sub(1), fhi + 1, trunc, trunc, (flo + fhi) / 2, 0])
        };
        // counterparty commitment: broadcaster = counterparty
        let to_cp: u64 = if witness || control {
            0
        } else if is_outbound {
            *rng.pick(&[push_sat, push_sat, push_sat + 1, 0])
        } else {
            let holder = s.push_value_msat / 1000;
            (cv as u128).saturating_sub(fee).saturating_sub(holder as u128) as u64
        };
        let to_cp = if to_cp > 0 && to_cp < 354 { 354 } else { to_cp };
        let to_holder = clamp64((cv as u128).saturating_sub(fee).saturating_sub(to_cp as u128));
        let to_holder = if witness { 6_890_443_460 } else { to_holder };
        let info0 = Info {
            cp_broadcaster: true,
            to_countersigner: to_holder,
            to_broadcaster: to_cp,
            offered: vec![],
            received: vec![],
            feerate: if witness { 302 } else { *rng.pick(&[253u32, 1000, 5000]) },
        };
        // build the node and the channel
        let mut seed = [0u8; 32];
        seed[0] = (id % 251) as u8;
        seed[1] = 0xc5;
        let world = World::new(real_policy(&pol), seed, KeyDerivationStyle::Native);
        let services = make_services(real_policy(&pol), onchain, &world);
        let node = Arc::new(Node::new(world.config, &world.seed, vec![], services));
        let peer = [2u8; 33];
        let (channel_id, _) = node.new_channel(1 + id as u64, &peer, &node).expect("new_channel");
        let setup = real_setup(&s, None);
        let sr = catch_unwind(AssertUnwindSafe(|| {
            node.setup_channel(channel_id.clone(), None, setup.clone(), &DerivationPath::master())
        }));
        let setup_ok = matches!(sr, Ok(Ok(_)));
        let phase1 = !(witness || control) && ctype == 1 && rng.chance(1, 2);
        // one case in four: the operator lowers max_channel_size_sat after the channel was set up (a new
        // validator factory, as a restart with a changed configuration installs it); the limit in force
        // when a commitment is to be signed is the one that counts
        let lowered = setup_ok && !(witness || control) && cv > 1_000_000 && rng.chance(1, 4);
        if lowered {
            maxsize = *rng.pick(&[cv - 1, cv - 1, cv, cv / 2]);
            pol.max_channel_size_sat = maxsize;
            let services = make_services(real_policy(&pol), onchain, &world);
            node.set_validator_factory(services.validator_factory.clone());
            *dist.entry("limit-lowered-after-setup".to_string()).or_insert(0) += 1;
        }
        let mut steps_json = vec![];
        let mut coq_terms = vec![];
        let mut viols: Vec<String> = vec![];
        if setup_ok {
            let point = make_test_pubkey(10);
            let mut est = Est {
                next_holder: 0,
                next_cp_commit: 0,
                next_cp_revoke: 0,
                closed: false,
                cp_point: 0,
                cp_info_same: false,
                holder_info: 0,
            };
            let mut plan = vec![SignStep { what: "initial", n: 0, est: est.clone(), info: info0.clone() }];
            // after a signed initial commitment: a retry (same or changed) and the next commitment
            let mut changed = info0.clone();
            changed.to_countersigner = changed.to_countersigner.wrapping_sub(1);
            let retry_changed = rng.chance(1, 2);
            let mut next = info0.clone();
            if rng.chance(1, 2) && next.to_countersigner > 200_000 {
                next.to_countersigner -= 100_000;
                next.to_broadcaster += 100_000;
            }
            let mut k = 0;
            while k < plan.len() {
                let st = &plan[k];
                let (n, info) = (st.n, st.info.clone());
                let r: std::thread::Result<Result<(), lightning_signer::util::status::Status>> =
                    catch_unwind(AssertUnwindSafe(|| {
                        node.with_channel(&channel_id, |chan| {
                            if phase1 {
                                // phase 1: the caller supplies the transaction and the witness scripts
                                let parameters = chan.make_channel_parameters();
                                let directed = parameters.as_counterparty_broadcastable();
                                let keys = chan.make_counterparty_tx_keys(&point);
                                let ctx = chan.make_counterparty_commitment_tx(
                                    &point,
                                    n,
                                    info.feerate,
                                    info.to_countersigner,
                                    info.to_broadcaster,
                                    vec![],
                                );
                                let scripts = build_tx_scripts(
                                    &keys,
                                    info.to_broadcaster,
                                    info.to_countersigner,
                                    &mut vec![],
                                    &directed,
                                    &chan.keys.pubkeys().funding_pubkey,
                                    &chan.setup.counterparty_points.funding_pubkey,
                                )
                                .expect("scripts");
                                let witscripts: Vec<Vec<u8>> = scripts.iter().map(|s| s.as_bytes().to_vec()).collect();
                                let trusted = ctx.trust();
                                let tx = trusted.built_transaction();
                                chan.sign_counterparty_commitment_tx(
                                    &tx.transaction,
                                    &witscripts,
                                    &point,
                                    n,
                                    info.feerate,
                                    vec![],
                                    vec![],
                                )
                                .map(|_| ())
                            } else {
                                chan.sign_counterparty_commitment_tx_phase2(
                                    &point,
                                    n,
                                    info.feerate,
                                    info.to_countersigner,
                                    info.to_broadcaster,
                                    vec![],
                                    vec![],
                                )
                                .map(|_| ())
                            }
                        })
                    }));
                let obs: u64 = match &r {
                    Err(_) => 1,
                    Ok(Ok(_)) => 0,
                    Ok(Err(_)) => 2,
                };
                let status = match &r {
                    Ok(Err(e)) => format!("{:?}: {}", e.code(), e.message()),
                    _ => String::new(),
                };
                *dist.entry(format!("{}:{}", st.what, obs)).or_insert(0) += 1;
                let case = Case {
                    pol: pol.clone(),
                    entry: if onchain { 2 } else { 0 },
                    est: st.est.clone(),
                    setup: s.clone(),
                    cs: Chain { current_height: 0, funding_depth: 0, closing_depth: 0 },
                    n,
                    info: info.clone(),
                };
                if obs == 0 {
                    signed += 1;
                    let mut v: Vec<String> = vec![];
                    if !ref_warned(&pol.rules, "policy-funding-max") && cv > maxsize {
                        v.push("counterparty commitment signed for a channel above max_channel_size_sat".to_string());
                    }
                    let (rv, _) = reference_violations(&case, release);
                    v.extend(not_downgraded(&pol.rules, rv).iter().map(|x| x.to_string()));
                    if !v.is_empty() {
                        monitor_failures += 1;
                        viols.extend(v.iter().map(|x| format!("{} commitment {}: {}", st.what, n, x)));
                    }
                }
                steps_json.push(json!({"step": st.what, "api": if phase1 { "sign_counterparty_commitment_tx" } else { "sign_counterparty_commitment_tx_phase2" }, "commit_num": n, "feerate_per_kw": info.feerate,
                    "to_holder_value_sat": info.to_countersigner, "to_counterparty_value_sat": info.to_broadcaster,
                    "implied_fee_sat": (cv as u128).saturating_sub(info.to_countersigner as u128 + info.to_broadcaster as u128).to_string(),
                    "observed": (["signed", "panic", "refused"][obs as usize]), "status_code": status}));
                coq_terms.push(format!(
                    "(({}, {}, {}), ({}, {}, {}, {}, {}, {}), {})",
                    profile_name(),
                    coq_rules(&pol.rules),
                    coq_pol(&pol),
                    coq_bool(onchain),
                    coq_est(&st.est),
                    coq_setup(&s),
                    coq_chain(&case.cs),
                    n,
                    coq_info(&info),
                    obs
                ));
                if st.what == "initial" && obs == 0 {
                    est.next_cp_commit = 1;
                    let e_retry = Est { cp_point: 1, cp_info_same: !retry_changed, ..est.clone() };
                    let retry_info = if retry_changed { changed.clone() } else { info0.clone() };
                    let e_next = Est { cp_point: 1, cp_info_same: false, ..est.clone() };
                    plan.push(SignStep { what: "retry", n: 0, est: e_retry, info: retry_info });
                    plan.push(SignStep { what: "next", n: 1, est: e_next, info: next.clone() });
                }
                k += 1;
            }
        } else {
            *dist.entry("setup_channel-refused".to_string()).or_insert(0) += 1;
        }
        emit(
            "CASE",
            json!({"id": id, "kind": if witness { "chan-F5-witness" } else if control { "chan-F5-control" } else { "chan" },
                   "validator": if onchain { "onchain" } else { "simple" },
                   "policy": {"max_channel_size_sat": maxsize, "min_feerate_per_kw": pol.min_feerate,
                              "max_feerate_per_kw": pol.max_feerate, "filter_rules": pol.rules},
                   "setup": {"is_outbound": is_outbound, "channel_value_sat": cv, "push_value_msat": s.push_value_msat,
                             "commitment_type": ctype_name(ctype)},
                   "setup_channel_ok": setup_ok, "steps": steps_json, "monitor_violation": viols, "coq": coq_terms}),
        );
    }
    emit("STATS", json!({"kind": "chan", "profile": profile_name(), "observed_distribution": dist, "signed": signed,
                         "monitor_failures": monitor_failures}));
}

// ------------------------------------------------------------------ life: refused setups and what follows

const INITIAL_COMMITMENT_NUMBER: u64 = (1 << 48) - 1;

/// What the counterparty would send with commitment_signed: its funding-key signature on OUR
/// commitment 0 (no HTLCs), built with LDK from the channel's public parameters.  None when the
/// channel is not ready (a stub has no parameters).
fn counterparty_sig_on_holder_commitment_0(
    node: &Arc<Node>,
    channel_id: &lightning_signer::channel::ChannelId,
    cp_funding_key: &lightning_signer::bitcoin::secp256k1::SecretKey,
    to_holder: u64,
    to_cp: u64,
    feerate: u32,
) -> Option<lightning_signer::bitcoin::secp256k1::ecdsa::Signature> {
    use lightning_signer::bitcoin::secp256k1::Secp256k1;
    use lightning_signer::channel::ChannelBase;
    use lightning_signer::lightning::ln::chan_utils::{
        make_funding_redeemscript, CommitmentTransaction, HTLCOutputInCommitment, TxCreationKeys,
    };
    let secp = Secp256k1::new();
    catch_unwind(AssertUnwindSafe(|| {
        node.with_channel(channel_id, |chan| {
            let pcp = chan.get_per_commitment_point(0)?;
            let holder = chan.keys.pubkeys().clone();
            let cp = chan.setup.counterparty_points.clone();
            let txkeys = TxCreationKeys::derive_new(
                &secp,
                &pcp,
                &holder.delayed_payment_basepoint,
                &holder.htlc_basepoint,
                &cp.revocation_basepoint,
                &cp.htlc_basepoint,
            );
            let params = chan.make_channel_parameters();
            let directed = params.as_holder_broadcastable();
            let mut htlcs: Vec<(HTLCOutputInCommitment, ())> = vec![];
            let mut ctx = CommitmentTransaction::new_with_auxiliary_htlc_data(
                INITIAL_COMMITMENT_NUMBER,
                to_holder,
                to_cp,
                holder.funding_pubkey,
                cp.funding_pubkey,
                txkeys,
                feerate,
                &mut htlcs,
                &directed,
            );
            if chan.setup.is_anchors() {
                ctx = ctx.with_non_zero_fee_anchors();
            }
            let redeem = make_funding_redeemscript(&holder.funding_pubkey, &cp.funding_pubkey);
            let trusted = ctx.trust();
            Ok(trusted.built_transaction().sign_counterparty_commitment(
                cp_funding_key,
                &redeem,
                chan.setup.channel_value_sat,
                &secp,
            ))
        })
    }))
    .ok()
    .and_then(|r| r.ok())
}

fn coq_lop_setup(s: &Setup) -> String {
    format!("LSetup {}", coq_setup(s))
}

/// One channel id on a real node: setup_channel attempts (refused for each modelled reason, or
/// accepted), then sign_counterparty_commitment_tx_phase2 / validate_holder_commitment_tx_phase2
/// for commitment 0, retries of the same setup, a later good setup.  Monitor: a commitment is
/// only ever signed / accepted on a channel whose setup_channel call was accepted, and an
/// accepted setup satisfies the setup bounds.
fn life_domain(args: &Args) {
    use lightning_signer::bitcoin::secp256k1::{ecdsa::Signature, Secp256k1};
    use lightning_signer::channel::ChannelBase;
    use lightning_signer::lightning::ln::chan_utils::{
        make_funding_redeemscript, CommitmentTransaction, HTLCOutputInCommitment, TxCreationKeys,
    };
    use lightning_signer::util::test_utils::key::make_test_privkey;
    let mut rng = Rng::new(args.seed ^ 0x11fe);
    let release = !overflow_checks();
    let secp = Secp256k1::new();
    let mut dist: std::collections::BTreeMap<String, u64> = Default::default();
    let (mut monitor_failures, mut accepted_commitments, mut refused_setups, mut requests_after_refusal) = (0u64, 0u64, 0u64, 0u64);
    let allow_addr = lightning_signer::bitcoin::Address::p2wpkh(&make_test_bitcoin_pubkey(42), NETWORK);
    let allowed = allow_addr.script_pubkey();
    let foreign = lightning_signer::bitcoin::Address::p2wpkh(&make_test_bitcoin_pubkey(43), NETWORK).script_pubkey();
    let reasons = ["good", "holder-delay-low", "holder-delay-high", "cp-delay-low", "cp-delay-high", "unsafe-type", "foreign-shutdown"];
    for id in 0..args.n {
        let (mind, maxd) = *rng.pick(&[(4u16, 2016u16), (144, 2016), (6, 6)]);
        let onchain = rng.chance(1, 3);
        let rules = match rng.below(8) {
            0 => vec![("policy-channel-contest-delay-range-holder".to_string(), false, true)],
            1 => vec![("policy-channel-safe-type".to_string(), false, true)],
            _ => vec![],
        };
        let pol = Pol {
            min_delay: mind,
            max_delay: maxd,
            max_channel_size_sat: 1_000_000_001,
            max_htlcs: 1000,
            max_htlc_value_sat: 16_777_216,
            use_chain_state: false,
            min_feerate: 253,
            max_feerate: 333_333,
            rules,
        };
        // the first setup: every reason in turn, `good` as the control
        let reason = reasons[(id % reasons.len()) as usize];
        let anchors = rng.chance(1, 2);
        let is_outbound = rng.chance(2, 3);
        let cv = *rng.pick(&[3_000_000u64, 1_000_000_000, 1_000_000_001]);
        let push_sat = if is_outbound { *rng.pick(&[0u64, 10_000]) } else { 1_000_000 };
        let good = Setup {
            is_outbound,
            channel_value_sat: cv,
            push_value_msat: push_sat * 1000,
            holder_delay: mind.max(6).min(maxd),
            cp_delay: maxd.min(144).max(mind),
            ctype: if anchors { 3 } else { 1 },
            shutdown: *rng.pick(&[0u8, 1]),
        };
        let mut first = good.clone();
        match reason {
            "holder-delay-low" => first.holder_delay = mind.wrapping_sub(1),
            "holder-delay-high" => first.holder_delay = maxd.wrapping_add(1),
            "cp-delay-low" => first.cp_delay = mind.wrapping_sub(1),
            "cp-delay-high" => first.cp_delay = maxd.wrapping_add(1),
            "unsafe-type" => first.ctype = if anchors { 2 } else { 0 },
            "foreign-shutdown" => first.shutdown = 2,
            _ => {}
        }
        // a valid commitment 0 for this channel value (same weight for both types of a pair)
        let w = weight(good.ctype, 0);
        let (flo, fhi) = fee_window(pol.min_feerate, pol.max_feerate, w);
        let fee = *rng.pick(&[flo, fhi, (flo + fhi) / 2]);
        let (to_holder, to_cp) = if is_outbound {
            (clamp64(cv as u128 - fee - push_sat as u128), push_sat)
        } else {
            (push_sat, clamp64(cv as u128 - fee - push_sat as u128))
        };
        let feerate = 253u32;
        let cp_info = Info { cp_broadcaster: true, to_countersigner: to_holder, to_broadcaster: to_cp, offered: vec![], received: vec![], feerate };
        let holder_info = Info { cp_broadcaster: false, to_countersigner: to_cp, to_broadcaster: to_holder, offered: vec![], received: vec![], feerate };

        let mut seed = [0u8; 32];
        seed[0] = (id % 251) as u8;
        seed[1] = 0x1f;
        let world = World::new(real_policy(&pol), seed, KeyDerivationStyle::Native);
        let services = make_services(real_policy(&pol), onchain, &world);
        let node = Arc::new(Node::new(world.config, &world.seed, vec![], services));
        node.add_allowlist(&vec![allow_addr.to_string()]).expect("allowlist");
        let peer = [2u8; 33];
        let (channel_id, _) = node.new_channel(1 + id as u64, &peer, &node).expect("new_channel");
        let script_of = |s: &Setup| match s.shutdown {
            0 => None,
            1 => Some(allowed.clone()),
            _ => Some(foreign.clone()),
        };
        // plan: S = setup, C = counterparty commitment 0, H = holder commitment 0
        let plan: Vec<(&str, Setup)> = vec![
            ("setup", first.clone()),
            ("sign-counterparty", first.clone()),
            ("validate-holder", first.clone()),
            ("setup-retry", first.clone()),
            ("sign-counterparty", first.clone()),
            ("setup-good", good.clone()),
            ("sign-counterparty", good.clone()),
            ("validate-holder", good.clone()),
            ("setup-retry", first.clone()),
        ];
        let mut est = Est { next_holder: 0, next_cp_commit: 0, next_cp_revoke: 0, closed: false, cp_point: 0, cp_info_same: false, holder_info: 0 };
        let cs = Chain { current_height: 0, funding_depth: 0, closing_depth: 0 };
        let point = make_test_pubkey(10);
        let mut accepted_setup: Option<Setup> = None;
        let mut any_refused = false;
        let (mut ops, mut obs, mut steps, mut viols): (Vec<String>, Vec<u64>, Vec<Value>, Vec<String>) = (vec![], vec![], vec![], vec![]);
        for (what, s) in plan.iter() {
            let (o, status): (u64, String) = if what.starts_with("setup") {
                let setup = real_setup(s, script_of(s));
                let r = catch_unwind(AssertUnwindSafe(|| {
                    node.setup_channel(channel_id.clone(), None, setup.clone(), &DerivationPath::master())
                }));
                ops.push(coq_lop_setup(s));
                match r {
                    Err(_) => (1, "panic".to_string()),
                    Ok(Ok(_)) => (0, String::new()),
                    Ok(Err(e)) => (2, format!("{:?}: {}", e.code(), e.message())),
                }
            } else if *what == "sign-counterparty" {
                ops.push(format!("LSignCp {} {} 0 {}", coq_est(&est), coq_chain(&cs), coq_info(&cp_info)));
                let r = catch_unwind(AssertUnwindSafe(|| {
                    node.with_channel(&channel_id, |chan| {
                        chan.sign_counterparty_commitment_tx_phase2(&point, 0, feerate, to_holder, to_cp, vec![], vec![])
                            .map(|_| ())
                    })
                }));
                match r {
                    Err(_) => (1, "panic".to_string()),
                    Ok(Ok(_)) => (0, String::new()),
                    Ok(Err(e)) => (2, format!("{:?}: {}", e.code(), e.message())),
                }
            } else {
                ops.push(format!("LValidateHolder {} {} 0 {}", coq_est(&est), coq_chain(&cs), coq_info(&holder_info)));
                // what the counterparty would send: its signature on our commitment 0 (only possible
                // when the channel is ready; a stub gets a dummy signature and must refuse anyway)
                let sig: Option<Signature> =
                    counterparty_sig_on_holder_commitment_0(&node, &channel_id, &make_test_privkey(104), to_holder, to_cp, feerate);
                let dummy = Signature::from_compact(&[1u8; 64]).expect("sig");
                let sig = sig.unwrap_or(dummy);
                let r = catch_unwind(AssertUnwindSafe(|| {
                    node.with_channel(&channel_id, |chan| {
                        chan.validate_holder_commitment_tx_phase2(0, feerate, to_holder, to_cp, vec![], vec![], &sig, &[])
                    })
                }));
                match r {
                    Err(_) => (1, "panic".to_string()),
                    Ok(Ok(_)) => (0, String::new()),
                    Ok(Err(e)) => (2, format!("{:?}: {}", e.code(), e.message())),
                }
            };
            *dist.entry(format!("{}:{}", what, o)).or_insert(0) += 1;
            // ---- the property itself
            if what.starts_with("setup") {
                if o == 0 {
                    let mut v: Vec<&'static str> = vec![];
                    if !(s.ctype == 1 || s.ctype == 3) {
                        v.push("unsafe commitment type accepted");
                    }
                    if s.cp_delay < mind || s.cp_delay > maxd {
                        v.push("counterparty-selected contest delay outside policy accepted");
                    }
                    if s.holder_delay < mind || s.holder_delay > maxd {
                        v.push("holder-selected contest delay outside policy accepted");
                    }
                    if s.shutdown == 2 {
                        v.push("foreign shutdown script accepted");
                    }
                    for m in not_downgraded(&pol.rules, v) {
                        viols.push(format!("{}: setup_channel answered Ok: {}", what, m));
                    }
                    if accepted_setup.is_none() {
                        accepted_setup = Some(s.clone());
                    }
                } else {
                    any_refused = true;
                    refused_setups += 1;
                }
            } else {
                if any_refused && accepted_setup.is_none() {
                    requests_after_refusal += 1;
                }
                if o == 0 {
                    accepted_commitments += 1;
                    if accepted_setup.is_none() {
                        viols.push(format!(
                            "{}: commitment 0 accepted on a channel whose only setup_channel call(s) were refused ({})",
                            what, reason
                        ));
                    }
                    let case = Case {
                        pol: pol.clone(),
                        entry: (if onchain { 2 } else { 0 }) + (if *what == "validate-holder" { 1 } else { 0 }),
                        est: est.clone(),
                        setup: accepted_setup.clone().unwrap_or(s.clone()),
                        cs: cs.clone(),
                        n: 0,
                        info: if *what == "validate-holder" { holder_info.clone() } else { cp_info.clone() },
                    };
                    let (rv, _) = reference_violations(&case, release);
                    for m in not_downgraded(&pol.rules, rv) {
                        viols.push(format!("{}: {}", what, m));
                    }
                    if *what == "sign-counterparty" {
                        // state after a signed commitment 0: a second request is a retry with the same data
                        est.next_cp_commit = 1;
                        est.cp_point = 1;
                        est.cp_info_same = true;
                    } else {
                        est.next_holder = 1;
                        est.holder_info = 1;
                    }
                }
            }
            obs.push(o);
            steps.push(json!({"request": what, "commitment_type": ctype_name(s.ctype),
                "holder_selected_contest_delay": s.holder_delay, "counterparty_selected_contest_delay": s.cp_delay,
                "holder_shutdown_script": (["none", "allowlisted", "foreign"][s.shutdown as usize]),
                "observed": (["ok", "panic", "refused"][o as usize]), "status": status}));
        }
        if !viols.is_empty() {
            monitor_failures += 1;
        }
        let coq = format!(
            "(({}, {}, {}, {}), {}, {})",
            profile_name(),
            coq_rules(&pol.rules),
            coq_pol(&pol),
            coq_bool(onchain),
            coq_list(&ops),
            coq_nlist(&obs)
        );
        emit(
            "CASE",
            json!({"id": id, "kind": "life", "first_setup": reason, "validator": if onchain { "onchain" } else { "simple" },
                   "policy": {"min_delay": mind, "max_delay": maxd, "filter_rules": pol.rules},
                   "channel": {"is_outbound": is_outbound, "channel_value_sat": cv, "push_value_msat": good.push_value_msat,
                               "commitment_0": {"feerate_per_kw": feerate, "to_holder_value_sat": to_holder, "to_counterparty_value_sat": to_cp}},
                   "steps": steps, "monitor_violation": viols, "coq": coq}),
        );
    }
    emit("STATS", json!({"kind": "life", "profile": profile_name(), "observed_distribution": dist,
        "refused_setups": refused_setups, "commitment_requests_after_a_refused_setup": requests_after_refusal,
        "accepted_commitments": accepted_commitments, "monitor_failures": monitor_failures}));
}

// ------------------------------------------------------------------ wire: channels set up through protocol messages

/// CLN-style channel_type bytes for a set of feature bits (bit i lives in byte len-1-i/8, value
/// 1 << (i % 8)); `pad` extra leading zero bytes
fn channel_type_bytes(bits: &[usize], pad: usize) -> Vec<u8> {
    let max = bits.iter().copied().max();
    let len = max.map(|m| m / 8 + 1).unwrap_or(0) + pad;
    let mut v = vec![0u8; len];
    for b in bits {
        v[len - 1 - b / 8] |= 1 << (b % 8);
    }
    v
}

/// Channels created and set up the way the daemon does it: NewChannel to the RootHandler,
/// SetupChannel to the ChannelHandler (as_vec -> from_vec), every SetupChannel field varied; then
/// (a) the channel's ChannelSetup is read back and compared field by field with an independent
/// statement of the mapping, (b) initial-commitment requests (SignRemoteCommitmentTx2,
/// ValidateCommitmentTx2 with a genuine counterparty signature) are checked against the bounds
/// computed from the WIRE values, by the model (life_case) and by the u128 monitor.
fn wire_domain(args: &Args) {
    use lightning_signer::bitcoin::hashes::Hash;
    use lightning_signer::bitcoin::secp256k1::ecdsa::Signature;
    use lightning_signer::bitcoin::{BlockHash, OutPoint, Txid};
    use lightning_signer::util::test_utils::key::make_test_privkey;
    use vls_protocol::model::{self, Basepoints, BitcoinSignature, PubKey};
    use vls_protocol::msgs::{self, Message, SerBolt};
    use vls_protocol::serde_bolt::{Array, Octets};
    use vls_protocol_signer::approver::PositiveApprover;
    use vls_protocol_signer::handler::{Handler, InitHandler, RootHandler};
    let mut rng = Rng::new(args.seed ^ 0x3172e);
    let release = !overflow_checks();
    let mut dist: std::collections::BTreeMap<String, u64> = Default::default();
    let (mut monitor_failures, mut readbacks, mut fields_compared, mut accepted_commitments, mut nonzero_push_outbound) = (0u64, 0u64, 0u64, 0u64, 0u64);
    let allow_addr = lightning_signer::bitcoin::Address::p2wpkh(&make_test_bitcoin_pubkey(42), NETWORK);
    let allowed = allow_addr.script_pubkey();
    let foreign = lightning_signer::bitcoin::Address::p2wpkh(&make_test_bitcoin_pubkey(43), NETWORK).script_pubkey();
    let remote_script = lightning_signer::bitcoin::Address::p2wpkh(&make_test_bitcoin_pubkey(44), NETWORK).script_pubkey();
    for id in 0..args.n {
        let (mind, maxd) = *rng.pick(&[(4u16, 2016u16), (4, 2016), (144, 2016), (6, 6)]);
        let maxsize = *rng.pick(&[1_000_000_001u64, 10_000_000_000]);
        let rules = match rng.below(10) {
            0 => vec![("policy-commitment-initial-funding-value".to_string(), false, true)],
            1 => vec![("policy-channel-".to_string(), true, true)],
            _ => vec![],
        };
        let pol = Pol {
            min_delay: mind,
            max_delay: maxd,
            max_channel_size_sat: maxsize,
            max_htlcs: 1000,
            max_htlc_value_sat: 16_777_216,
            use_chain_state: false,
            min_feerate: 253,
            max_feerate: 333_333,
            rules,
        };
        // ---- the wire values
        // mostly valid; `perturb` picks the one kind of field that is pushed over an edge
        let perturb = if rng.chance(2, 5) { rng.below(6) } else { 99 };
        let is_outbound = rng.chance(2, 3);
        let cv = if perturb == 0 { maxsize + 1 } else { *rng.pick(&[3_000_000u64, 16_777_216, 1_000_000_000, maxsize]) };
        let cv_msat = cv as u128 * 1000;
        let push_msat: u64 = clamp64(if perturb == 1 {
            *rng.pick(&[cv_msat + 1, cv_msat, 1, 999, 1000, 1001])
        } else {
            *rng.pick(&[
                0u128,
                354_000,
                354_999,
                1_000_000,
                10_000_000,
                cv as u128,     // 0.1 % of the channel, as msat
                cv as u128 / 2,
                cv_msat / 100,
                cv_msat / 2,
            ])
        });
        let mut txid_bytes = rng.bytes32();
        txid_bytes[0] = id as u8;
        let funding_txid = Txid::from_byte_array(txid_bytes);
        let funding_txout = *rng.pick(&[0u16, 0, 1, 7, 65535]);
        let dgood = |rng: &mut Rng| -> u16 { *rng.pick(&[mind, maxd, mind.max(6).min(maxd), maxd.min(144).max(mind)]) };
        let dbad = |rng: &mut Rng| -> u16 { *rng.pick(&[mind.wrapping_sub(1), maxd.wrapping_add(1), 0, 65535]) };
        let to_self_delay = if perturb == 2 { dbad(&mut rng) } else { dgood(&mut rng) };
        let remote_to_self_delay = if perturb == 3 { dbad(&mut rng) } else { dgood(&mut rng) };
        let shutdown = if perturb == 4 { 2u8 } else { *rng.pick(&[0u8, 0, 1]) };
        let local_script: Vec<u8> = match shutdown {
            0 => vec![],
            1 => allowed.to_bytes(),
            _ => foreign.to_bytes(),
        };
        let wallet_index = *rng.pick(&[None, None, Some(0u32), Some(5)]);
        let key_base = *rng.pick(&[100u8, 110, 120]);
        let remote_script_bytes: Vec<u8> = if rng.chance(1, 2) { vec![] } else { remote_script.to_bytes() };
        let (bits, ctype): (Vec<usize>, u8) = if perturb == 5 {
            if rng.chance(1, 2) { (vec![], 0) } else { (vec![12, 20], 2) }
        } else {
            match rng.below(5) {
                0 | 1 => (vec![12], 1),
                2 => (vec![12, 22], 3),
                3 => (vec![12, 20, 22], 3),
                _ => (vec![12, 13], 1),
            }
        };
        let channel_type = channel_type_bytes(&bits, rng.below(2) as usize);
        let pk = |i: u8| PubKey(make_test_pubkey(i).serialize());
        // ---- the independent statement of the mapping (units: SetupChannel.push_value is msat)
        let wire_setup = Setup {
            is_outbound,
            channel_value_sat: cv,
            push_value_msat: push_msat,
            holder_delay: to_self_delay,
            cp_delay: remote_to_self_delay,
            ctype,
            shutdown,
        };
        if is_outbound && push_msat > 0 && (push_msat as u128) <= cv_msat {
            nonzero_push_outbound += 1;
        }

        // ---- node, handlers, messages
        let mut seed = [0u8; 32];
        seed[0] = (id % 251) as u8;
        seed[1] = 0x31;
        let mut world = World::new(real_policy(&pol), seed, KeyDerivationStyle::Native);
        let onchain = rng.chance(1, 3);
        world.onchain = onchain;
        let node = world.new_node();
        node.add_allowlist(&vec![allow_addr.to_string()]).expect("allowlist");
        let proto = *rng.pick(&[4u32, 5, 6]);
        let mut init = InitHandler::new(0, node.clone(), Arc::new(PositiveApprover()), proto);
        init.handle(Message::HsmdInit(msgs::HsmdInit {
            key_version: model::Bip32KeyVersion { pubkey_version: 0, privkey_version: 0 },
            chain_params: BlockHash::all_zeros(),
            encryption_key: None,
            dev_privkey: None,
            dev_bip32_seed: None,
            dev_channel_secrets: None,
            dev_channel_secrets_shaseed: None,
            hsm_wire_min_version: 2,
            hsm_wire_max_version: proto,
        }))
        .expect("init");
        let root: RootHandler = init.into();
        let peer = [2u8; 33];
        let dbid = 1 + (id as u64 % 1000);
        let send = |h: &dyn Fn(Message) -> Result<Box<dyn SerBolt>, vls_protocol_signer::handler::Error>, bytes: Vec<u8>| -> (u64, String) {
            let msg = msgs::from_vec(bytes).expect("request survives the wire");
            match catch_unwind(AssertUnwindSafe(|| h(msg))) {
                Err(_) => (1, "panic".to_string()),
                Ok(Ok(reply)) => {
                    let _ = msgs::from_vec(reply.as_vec()).expect("reply survives the wire");
                    (0, String::new())
                }
                Ok(Err(e)) => (2, format!("{:?}", e).chars().take(200).collect()),
            }
        };
        let (o_new, st_new) = send(&|m| root.handle(m), msgs::NewChannel { peer_id: PubKey(peer), dbid }.as_vec());
        assert_eq!(o_new, 0, "NewChannel: {}", st_new);
        let handler = root.for_new_client(1, PubKey(peer), dbid);
        let channel_id = node.get_channels().keys().next().expect("one channel").clone();
        let setup_msg = msgs::SetupChannel {
            is_outbound,
            channel_value: cv,
            push_value: push_msat,
            funding_txid,
            funding_txout,
            to_self_delay,
            local_shutdown_script: Octets(local_script.clone()),
            local_shutdown_wallet_index: wallet_index,
            remote_basepoints: Basepoints {
                revocation: pk(key_base),
                payment: pk(key_base + 1),
                htlc: pk(key_base + 3),
                delayed_payment: pk(key_base + 2),
            },
            remote_funding_pubkey: pk(key_base + 4),
            remote_to_self_delay,
            remote_shutdown_script: Octets(remote_script_bytes.clone()),
            channel_type: Octets(channel_type.clone()),
        };
        let mut ops: Vec<String> = vec![];
        let mut obs: Vec<u64> = vec![];
        let mut steps: Vec<Value> = vec![];
        let mut viols: Vec<String> = vec![];
        let (o_setup, st_setup) = send(&|m| handler.handle(m), setup_msg.as_vec());
        ops.push(coq_lop_setup(&wire_setup));
        obs.push(o_setup);
        *dist.entry(format!("SetupChannel:{}", o_setup)).or_insert(0) += 1;
        steps.push(json!({"message": "SetupChannel", "observed": (["ok", "panic", "refused"][o_setup as usize]), "status": st_setup}));
        // ---- (a) read the ChannelSetup back and compare every field with the wire values
        let mut readback: Option<Value> = None;
        if o_setup == 0 {
            let got = node.with_channel(&channel_id, |chan| Ok(chan.setup.clone()));
            match got {
                Err(_) => viols.push("SetupChannel answered Ok but the channel is not ready".to_string()),
                Ok(g) => {
                    readbacks += 1;
                    let mut cmp = |name: &str, wire: String, chan: String| {
                        fields_compared += 1;
                        if wire != chan {
                            viols.push(format!("ChannelSetup.{} = {} but the SetupChannel message says {}", name, chan, wire));
                        }
                    };
                    cmp("is_outbound", is_outbound.to_string(), g.is_outbound.to_string());
                    cmp("channel_value_sat", cv.to_string(), g.channel_value_sat.to_string());
                    cmp("push_value_msat (wire push_value is msat)", push_msat.to_string(), g.push_value_msat.to_string());
                    cmp(
                        "funding_outpoint",
                        format!("{}:{}", funding_txid, funding_txout as u32),
                        format!("{}:{}", g.funding_outpoint.txid, g.funding_outpoint.vout),
                    );
                    cmp("holder_selected_contest_delay (to_self_delay)", to_self_delay.to_string(), g.holder_selected_contest_delay.to_string());
                    cmp(
                        "counterparty_selected_contest_delay (remote_to_self_delay)",
                        remote_to_self_delay.to_string(),
                        g.counterparty_selected_contest_delay.to_string(),
                    );
                    let sc = |v: &Vec<u8>| if v.is_empty() { "none".to_string() } else { hex::encode(v) };
                    cmp(
                        "holder_shutdown_script",
                        sc(&local_script),
                        g.holder_shutdown_script.as_ref().map(|x| hex::encode(x.as_bytes())).unwrap_or("none".to_string()),
                    );
                    cmp(
                        "counterparty_shutdown_script",
                        sc(&remote_script_bytes),
                        g.counterparty_shutdown_script.as_ref().map(|x| hex::encode(x.as_bytes())).unwrap_or("none".to_string()),
                    );
                    let cpp = &g.counterparty_points;
                    cmp("counterparty_points.funding_pubkey", make_test_pubkey(key_base + 4).to_string(), cpp.funding_pubkey.to_string());
                    cmp("counterparty_points.revocation_basepoint", make_test_pubkey(key_base).to_string(), cpp.revocation_basepoint.0.to_string());
                    cmp("counterparty_points.payment_point", make_test_pubkey(key_base + 1).to_string(), cpp.payment_point.to_string());
                    cmp(
                        "counterparty_points.delayed_payment_basepoint",
                        make_test_pubkey(key_base + 2).to_string(),
                        cpp.delayed_payment_basepoint.0.to_string(),
                    );
                    cmp("counterparty_points.htlc_basepoint", make_test_pubkey(key_base + 3).to_string(), cpp.htlc_basepoint.0.to_string());
                    cmp("commitment_type", ctype_name(ctype).to_string(), format!("{:?}", g.commitment_type));
                    readback = Some(json!({"is_outbound": g.is_outbound, "channel_value_sat": g.channel_value_sat,
                        "push_value_msat": g.push_value_msat, "funding_vout": g.funding_outpoint.vout,
                        "holder_selected_contest_delay": g.holder_selected_contest_delay,
                        "counterparty_selected_contest_delay": g.counterparty_selected_contest_delay,
                        "commitment_type": format!("{:?}", g.commitment_type)}));
                }
            }
            // the accepted setup must satisfy the setup bounds (wire values)
            let mut v: Vec<&'static str> = vec![];
            if !(ctype == 1 || ctype == 3) {
                v.push("unsafe commitment type accepted");
            }
            if remote_to_self_delay < mind || remote_to_self_delay > maxd {
                v.push("counterparty-selected contest delay outside policy accepted");
            }
            if to_self_delay < mind || to_self_delay > maxd {
                v.push("holder-selected contest delay outside policy accepted");
            }
            if shutdown == 2 {
                v.push("foreign shutdown script accepted");
            }
            for m in not_downgraded(&pol.rules, v) {
                viols.push(format!("SetupChannel answered Ok: {}", m));
            }
        }
        // ---- (b) initial-commitment requests, allocations derived from the WIRE push value
        let w = weight(ctype, 0);
        let (flo, fhi) = fee_window(pol.min_feerate, pol.max_feerate, w);
        let fee = *rng.pick(&[flo, fhi, (flo + fhi) / 2]);
        let p = push_msat / 1000;
        let feerate = 253u32;
        let fit = |a: u128| -> Option<(u64, u64)> {
            // (to_holder, to_counterparty) for a counterparty allocation a
            if a + fee <= cv as u128 {
                Some((clamp64(cv as u128 - fee - a), clamp64(a)))
            } else {
                None
            }
        };
        let mut allocs: Vec<(&str, (u64, u64))> = vec![];
        if is_outbound {
            // we fund: the fundee may get push/1000 sat and not one more
            for (name, a) in [
                ("fundee gets 1000x the push", p as u128 * 1000),
                ("fundee gets the msat figure as sat", push_msat as u128),
                ("fundee gets push + 1 sat", p as u128 + 1),
                ("fundee gets exactly the push", p as u128),
            ] {
                if let Some(x) = fit(a) {
                    if name == "fundee gets exactly the push" || rng.chance(2, 3) {
                        allocs.push((name, x));
                    }
                }
            }
        } else {
            // we are the fundee: we get the push, the funder the rest
            if let Some((rest, ours)) = fit(p as u128) {
                allocs.push(("holder gets the push", (ours, rest)));
            }
        }
        let mut est = Est { next_holder: 0, next_cp_commit: 0, next_cp_revoke: 0, closed: false, cp_point: 0, cp_info_same: false, holder_info: 0 };
        let cs = Chain { current_height: 0, funding_depth: 0, closing_depth: 0 };
        let point = make_test_pubkey(10);
        let mut signed_info: Option<Info> = None;
        let mut last: Option<(u64, u64)> = None;
        for (name, (to_holder, to_cp)) in allocs.iter() {
            let info = Info { cp_broadcaster: true, to_countersigner: *to_holder, to_broadcaster: *to_cp, offered: vec![], received: vec![], feerate };
            if let Some(prev) = &signed_info {
                est.cp_info_same = prev.to_countersigner == info.to_countersigner && prev.to_broadcaster == info.to_broadcaster;
            }
            ops.push(format!("LSignCp {} {} 0 {}", coq_est(&est), coq_chain(&cs), coq_info(&info)));
            let m = msgs::SignRemoteCommitmentTx2 {
                remote_per_commitment_point: PubKey(point.serialize()),
                commitment_number: 0,
                feerate,
                to_local_value_sat: *to_holder,
                to_remote_value_sat: *to_cp,
                htlcs: Array(vec![]),
            };
            let (o, st) = send(&|m| handler.handle(m), m.as_vec());
            obs.push(o);
            *dist.entry(format!("SignRemoteCommitmentTx2:{}", o)).or_insert(0) += 1;
            if o == 0 {
                accepted_commitments += 1;
                if o_setup != 0 {
                    viols.push("SignRemoteCommitmentTx2: commitment 0 signed on a channel whose SetupChannel was refused".to_string());
                }
                let case = Case { pol: pol.clone(), entry: if onchain { 2 } else { 0 }, est: est.clone(), setup: wire_setup.clone(), cs: cs.clone(), n: 0, info: info.clone() };
                if !ref_warned(&pol.rules, "policy-funding-max") && cv > maxsize {
                    viols.push("SignRemoteCommitmentTx2: signed for a channel above max_channel_size_sat".to_string());
                }
                let (rv, _) = reference_violations(&case, release);
                for m in not_downgraded(&pol.rules, rv) {
                    viols.push(format!(
                        "SignRemoteCommitmentTx2 ({}; wire push_value {} msat = {} sat; to_remote_value_sat {}): {}",
                        name, push_msat, p, to_cp, m
                    ));
                }
                if signed_info.is_none() {
                    signed_info = Some(info.clone());
                    est.next_cp_commit = 1;
                    est.cp_point = 1;
                    est.cp_info_same = true;
                }
            }
            last = Some((*to_holder, *to_cp));
            steps.push(json!({"message": "SignRemoteCommitmentTx2", "allocation": name, "commitment_number": 0, "feerate": feerate,
                "to_local_value_sat": to_holder, "to_remote_value_sat": to_cp,
                "observed": (["ok", "panic", "refused"][o as usize]), "status": st}));
        }
        // our own commitment 0 with the last allocation, counterparty signature genuine when possible
        if let Some((to_holder, to_cp)) = last {
            let info = Info { cp_broadcaster: false, to_countersigner: to_cp, to_broadcaster: to_holder, offered: vec![], received: vec![], feerate };
            ops.push(format!("LValidateHolder {} {} 0 {}", coq_est(&est), coq_chain(&cs), coq_info(&info)));
            let sig = counterparty_sig_on_holder_commitment_0(&node, &channel_id, &make_test_privkey(key_base + 4), to_holder, to_cp, feerate)
                .unwrap_or(Signature::from_compact(&[1u8; 64]).expect("sig"));
            let m = msgs::ValidateCommitmentTx2 {
                commitment_number: 0,
                feerate,
                to_local_value_sat: to_holder,
                to_remote_value_sat: to_cp,
                htlcs: Array(vec![]),
                signature: BitcoinSignature { signature: model::Signature(sig.serialize_compact()), sighash: 1 },
                htlc_signatures: Array(vec![]),
            };
            let (o, st) = send(&|m| handler.handle(m), m.as_vec());
            obs.push(o);
            *dist.entry(format!("ValidateCommitmentTx2:{}", o)).or_insert(0) += 1;
            if o == 0 {
                accepted_commitments += 1;
                if o_setup != 0 {
                    viols.push("ValidateCommitmentTx2: commitment 0 accepted on a channel whose SetupChannel was refused".to_string());
                }
                let case = Case { pol: pol.clone(), entry: if onchain { 3 } else { 1 }, est: est.clone(), setup: wire_setup.clone(), cs: cs.clone(), n: 0, info: info.clone() };
                let (rv, _) = reference_violations(&case, release);
                for m in not_downgraded(&pol.rules, rv) {
                    viols.push(format!("ValidateCommitmentTx2 (wire push_value {} msat; to_remote_value_sat {}): {}", push_msat, to_cp, m));
                }
            }
            steps.push(json!({"message": "ValidateCommitmentTx2", "commitment_number": 0, "to_local_value_sat": to_holder,
                "to_remote_value_sat": to_cp, "observed": (["ok", "panic", "refused"][o as usize]), "status": st}));
        }
        if !viols.is_empty() {
            monitor_failures += 1;
        }
        let coq = format!(
            "(({}, {}, {}, {}), {}, {})",
            profile_name(),
            coq_rules(&pol.rules),
            coq_pol(&pol),
            coq_bool(onchain),
            coq_list(&ops),
            coq_nlist(&obs)
        );
        emit(
            "CASE",
            json!({"id": id, "kind": "wire", "protocol_version": proto, "validator": if onchain { "onchain" } else { "simple" },
                   "policy": {"min_delay": mind, "max_delay": maxd, "max_channel_size_sat": maxsize, "filter_rules": pol.rules},
                   "SetupChannel": {"is_outbound": is_outbound, "channel_value": cv, "push_value(msat)": push_msat,
                        "funding_txid": funding_txid.to_string(), "funding_txout": funding_txout, "to_self_delay": to_self_delay,
                        "remote_to_self_delay": remote_to_self_delay,
                        "local_shutdown_script": (["empty", "allowlisted", "foreign"][shutdown as usize]),
                        "local_shutdown_wallet_index": wallet_index, "remote_key_base": key_base,
                        "remote_shutdown_script_len": remote_script_bytes.len(),
                        "channel_type": hex::encode(&channel_type), "channel_type_bits": bits},
                   "channel_setup_read_back": readback,
                   "steps": steps, "monitor_violation": viols, "coq": coq}),
        );
    }
    emit("STATS", json!({"kind": "wire", "profile": profile_name(), "observed_distribution": dist,
        "setups_read_back": readbacks, "setup_fields_compared": fields_compared,
        "outbound_channels_with_nonzero_push": nonzero_push_outbound,
        "accepted_commitments": accepted_commitments, "monitor_failures": monitor_failures}));
}

// ------------------------------------------------------------------ signed: what the signature is actually for

/// adjacent duplicates (same value, payment hash and expiry) removed from a sorted list
fn dedup_triples(hs: &[(u64, u8, u32)]) -> Vec<(u64, u8, u32)> {
    let mut v = hs.to_vec();
    v.sort();
    v.dedup();
    v
}

/// Phase-2 signing with HTLCs, including several HTLCs that agree in amount, payment hash and
/// expiry on one side (two equal parts of a multi-part payment are two outputs).  Entry points:
/// Channel::sign_counterparty_commitment_tx_phase2 directly, the same through the
/// SignRemoteCommitmentTx2 handler, and Channel::sign_holder_commitment_tx_phase2_redundant.
/// The returned signature is verified against the transaction the harness builds with LDK from
/// the FULL lists of the request; the bounds are then evaluated on the commitment that was signed.
fn signed_domain(args: &Args) {
    use lightning_signer::bitcoin::hashes::Hash;
    use lightning_signer::bitcoin::secp256k1::ecdsa::Signature;
    use lightning_signer::bitcoin::secp256k1::{Message as SecpMessage, Secp256k1};
    use lightning_signer::bitcoin::sighash::{EcdsaSighashType, SighashCache};
    use lightning_signer::bitcoin::{Amount, BlockHash, Txid};
    use lightning_signer::channel::ChannelBase;
    use lightning_signer::lightning::ln::chan_utils::{
        make_funding_redeemscript, CommitmentTransaction, HTLCOutputInCommitment, TxCreationKeys,
    };
    use vls_protocol::model::{self, Basepoints, Htlc, PubKey};
    use vls_protocol::msgs::{self, Message, SerBolt};
    use vls_protocol::serde_bolt::{Array, Octets};
    use vls_protocol_signer::approver::PositiveApprover;
    use vls_protocol_signer::handler::{Handler, InitHandler, RootHandler};
    let mut rng = Rng::new(args.seed ^ 0x51931ed);
    let release = !overflow_checks();
    let secp = Secp256k1::new();
    let mut dist: std::collections::BTreeMap<String, u64> = Default::default();
    let (mut monitor_failures, mut signed_full, mut signed_other, mut with_dups, mut dup_signed) = (0u64, 0u64, 0u64, 0u64, 0u64);
    for id in 0..args.n {
        let entry = (id % 3) as u8; // 0 direct phase 2, 1 SignRemoteCommitmentTx2, 2 holder phase-2 redundant
        let ctype = *rng.pick(&[1u8, 1, 3]);
        let mode = *rng.pick(&["valid", "valid", "fee-low", "fee-low", "inflight", "count", "fee-high"]);
        let cv = 10_000_000u64;
        let push_sat = 2_000_000u64;
        let feerate = *rng.pick(&[253u32, 1000]);
        let s = Setup { is_outbound: true, channel_value_sat: cv, push_value_msat: push_sat * 1000, holder_delay: 6, cp_delay: 7, ctype, shutdown: 0 };
        // ---- HTLC lists (value, hash id, expiry); `offered`/`received` in the sense of the commitment's broadcaster
        let lim_o = htlc_limit(&s, &Info { cp_broadcaster: true, to_countersigner: 0, to_broadcaster: 0, offered: vec![], received: vec![], feerate }, 663) as u64;
        let lim_r = htlc_limit(&s, &Info { cp_broadcaster: true, to_countersigner: 0, to_broadcaster: 0, offered: vec![], received: vec![], feerate }, 703) as u64;
        let dup_side = rng.below(3); // 0 offered, 1 received, 2 both
        let dup_n = *rng.pick(&[2usize, 2, 3]);
        let no_dups = rng.chance(1, 6);
        let mut offered: Vec<(u64, u8, u32)> = vec![];
        let mut received: Vec<(u64, u8, u32)> = vec![];
        for k in 0..rng.below(2) {
            offered.push((lim_o + 1000 + 100 * k, 10 + k as u8, 500 + k as u32));
        }
        for k in 0..rng.below(2) {
            received.push((lim_r + 2000 + 100 * k, 20 + k as u8, 600 + k as u32));
        }
        let dv = *rng.pick(&[0u64, 1, 500, 3000, 9000]);
        if !no_dups {
            if dup_side == 0 || dup_side == 2 {
                for _ in 0..dup_n {
                    offered.push((lim_o + dv, 1, 1000));
                }
            }
            if dup_side == 1 || dup_side == 2 {
                for _ in 0..dup_n {
                    received.push((lim_r + dv, 2, 1000));
                }
            }
        } else if offered.is_empty() && received.is_empty() {
            offered.push((lim_o + dv, 1, 1000));
        }
        offered.sort();
        received.sort();
        let has_dups = dedup_triples(&offered).len() != offered.len() || dedup_triples(&received).len() != received.len();
        if has_dups {
            with_dups += 1;
        }
        let count = offered.len() + received.len();
        let hsum: u64 = offered.iter().chain(received.iter()).map(|h| h.0).sum();
        let d_count = dedup_triples(&offered).len() + dedup_triples(&received).len();
        let d_sum: u64 = dedup_triples(&offered).iter().chain(dedup_triples(&received).iter()).map(|h| h.0).sum();
        // ---- policy: limits that the full lists meet or miss by one, and that a list without the
        // repeated entries would meet
        let mut pol = Pol {
            min_delay: 4,
            max_delay: 2016,
            max_channel_size_sat: 1_000_000_001,
            max_htlcs: 1000,
            max_htlc_value_sat: 16_777_216,
            use_chain_state: false,
            min_feerate: 253,
            max_feerate: 25_000,
            rules: vec![],
        };
        let w = weight(ctype, count);
        let (flo, fhi) = fee_window(pol.min_feerate, pol.max_feerate, w);
        let fee: u128 = match mode {
            "fee-low" => *rng.pick(&[0u128, 10, flo.saturating_sub(1)]),
            "fee-high" => fhi + 1,
            _ => *rng.pick(&[flo, flo + 1, (flo + fhi) / 2]),
        };
        match mode {
            "inflight" => pol.max_htlc_value_sat = if has_dups { *rng.pick(&[hsum - 1, d_sum, (hsum - 1).max(d_sum)]) } else { hsum - 1 },
            "count" => pol.max_htlcs = if has_dups { *rng.pick(&[count - 1, d_count]) } else { count - 1 },
            "valid" => {
                if rng.chance(1, 2) {
                    pol.max_htlc_value_sat = hsum;
                    pol.max_htlcs = count;
                }
            }
            _ => {}
        }
        // who pays what: HTLCs the counterparty offers come out of its balance, ours out of ours
        let (cp_out, our_out): (u64, u64) = if entry == 2 {
            // holder commitment: offered = ours
            (received.iter().map(|h| h.0).sum(), offered.iter().map(|h| h.0).sum())
        } else {
            (offered.iter().map(|h| h.0).sum(), received.iter().map(|h| h.0).sum())
        };
        let to_cp = push_sat - cp_out.min(push_sat);
        let to_holder = clamp64((cv as u128).saturating_sub(push_sat as u128 + our_out as u128 + fee));

        // ---- node, channel through the wire, commitment 0
        let mut seed = [0u8; 32];
        seed[0] = (id % 251) as u8;
        seed[1] = 0x51;
        let world = World::new(real_policy(&pol), seed, KeyDerivationStyle::Native);
        let node = world.new_node();
        let mut init = InitHandler::new(0, node.clone(), Arc::new(PositiveApprover()), 6);
        init.handle(Message::HsmdInit(msgs::HsmdInit {
            key_version: model::Bip32KeyVersion { pubkey_version: 0, privkey_version: 0 },
            chain_params: BlockHash::all_zeros(),
            encryption_key: None,
            dev_privkey: None,
            dev_bip32_seed: None,
            dev_channel_secrets: None,
            dev_channel_secrets_shaseed: None,
            hsm_wire_min_version: 2,
            hsm_wire_max_version: 6,
        }))
        .expect("init");
        let root: RootHandler = init.into();
        let peer = [2u8; 33];
        let dbid = 1 + id as u64;
        root.handle(msgs::from_vec(msgs::NewChannel { peer_id: PubKey(peer), dbid }.as_vec()).unwrap()).expect("NewChannel");
        let handler = root.for_new_client(1, PubKey(peer), dbid);
        let channel_id = node.get_channels().keys().next().expect("one channel").clone();
        let pk = |i: u8| PubKey(make_test_pubkey(i).serialize());
        let bits: Vec<usize> = if ctype == 3 { vec![12, 22] } else { vec![12] };
        let mut txid_bytes = [7u8; 32];
        txid_bytes[0] = id as u8;
        let setup_msg = msgs::SetupChannel {
            is_outbound: true,
            channel_value: cv,
            push_value: push_sat * 1000,
            funding_txid: Txid::from_byte_array(txid_bytes),
            funding_txout: 0,
            to_self_delay: 6,
            local_shutdown_script: Octets(vec![]),
            local_shutdown_wallet_index: None,
            remote_basepoints: Basepoints { revocation: pk(100), payment: pk(101), htlc: pk(103), delayed_payment: pk(102) },
            remote_funding_pubkey: pk(104),
            remote_to_self_delay: 7,
            remote_shutdown_script: Octets(vec![]),
            channel_type: Octets(channel_type_bytes(&bits, 0)),
        };
        handler.handle(msgs::from_vec(setup_msg.as_vec()).unwrap()).expect("SetupChannel");
        let point = make_test_pubkey(10);
        let w0 = weight(ctype, 0);
        let (flo0, fhi0) = fee_window(pol.min_feerate, pol.max_feerate, w0);
        let fee0 = (flo0 + fhi0) / 2;
        let hash_of_id = |h: u8| {
            let mut b = [0u8; 32];
            b[0] = h;
            PaymentHash(b)
        };
        let mk = |hs: &[(u64, u8, u32)]| -> Vec<HTLCInfo2> {
            hs.iter().map(|(v, h, e)| HTLCInfo2 { value_sat: *v, payment_hash: hash_of_id(*h), cltv_expiry: *e }).collect()
        };
        let n = 1u64;
        let (est, what): (Est, &str);
        if entry == 2 {
            node.with_channel(&channel_id, |chan| {
                chan.enforcement_state.set_next_holder_commit_num_for_testing(1);
                Ok(())
            })
            .expect("prepare holder");
            est = Est { next_holder: 1, next_cp_commit: 0, next_cp_revoke: 0, closed: false, cp_point: 0, cp_info_same: false, holder_info: 0 };
            what = "Channel::sign_holder_commitment_tx_phase2_redundant";
        } else {
            node.with_channel(&channel_id, |chan| {
                chan.sign_counterparty_commitment_tx_phase2(&point, 0, feerate, clamp64(cv as u128 - push_sat as u128 - fee0), push_sat, vec![], vec![])
            })
            .expect("commitment 0");
            // outgoing HTLCs of the next commitment are keysends approved beforehand (per hash, total amount)
            let mut per_hash: std::collections::BTreeMap<u8, u64> = Default::default();
            for (v, h, _) in received.iter() {
                *per_hash.entry(*h).or_insert(0) += *v;
            }
            for (h, total) in per_hash {
                node.add_keysend(make_test_pubkey(50), hash_of_id(h), total * 1000).expect("keysend");
            }
            est = Est { next_holder: 0, next_cp_commit: 1, next_cp_revoke: 0, closed: false, cp_point: 1, cp_info_same: false, holder_info: 0 };
            what = if entry == 0 { "Channel::sign_counterparty_commitment_tx_phase2" } else { "SignRemoteCommitmentTx2 (ChannelHandler)" };
        }
        // ---- the request
        let r: std::thread::Result<Result<Signature, String>> = catch_unwind(AssertUnwindSafe(|| match entry {
            0 => node
                .with_channel(&channel_id, |chan| {
                    chan.sign_counterparty_commitment_tx_phase2(&point, n, feerate, to_holder, to_cp, mk(&offered), mk(&received))
                })
                .map(|(sig, _)| sig)
                .map_err(|e| format!("{:?}: {}", e.code(), e.message())),
            1 => {
                // wire sides: LOCAL = offered by us = `received` of the counterparty's commitment
                let mut hs = vec![];
                for (v, h, e) in offered.iter() {
                    hs.push(Htlc { side: Htlc::REMOTE, amount: v * 1000, payment_hash: model::Sha256(hash_of_id(*h).0), ctlv_expiry: *e });
                }
                for (v, h, e) in received.iter() {
                    hs.push(Htlc { side: Htlc::LOCAL, amount: v * 1000, payment_hash: model::Sha256(hash_of_id(*h).0), ctlv_expiry: *e });
                }
                let m = msgs::SignRemoteCommitmentTx2 {
                    remote_per_commitment_point: PubKey(point.serialize()),
                    commitment_number: n,
                    feerate,
                    to_local_value_sat: to_holder,
                    to_remote_value_sat: to_cp,
                    htlcs: Array(hs),
                };
                match handler.handle(msgs::from_vec(m.as_vec()).expect("wire")) {
                    Err(e) => Err(format!("{:?}", e).chars().take(240).collect()),
                    Ok(reply) => match msgs::from_vec(reply.as_vec()).expect("reply") {
                        Message::SignCommitmentTxWithHtlcsReply(rep) =>
                            Ok(Signature::from_compact(&rep.signature.signature.0).expect("sig")),
                        other => Err(format!("unexpected reply {:?}", other)),
                    },
                }
            }
            _ => node
                .with_channel(&channel_id, |chan| {
                    chan.sign_holder_commitment_tx_phase2_redundant(n, feerate, to_holder, to_cp, mk(&offered), mk(&received))
                })
                .map_err(|e| format!("{:?}: {}", e.code(), e.message())),
        }));
        // ---- which commitment is the signature for?
        let tx_for = |offs: &[(u64, u8, u32)], recs: &[(u64, u8, u32)]| -> Option<lightning_signer::bitcoin::Transaction> {
            node.with_channel(&channel_id, |chan| {
                let holder = chan.keys.pubkeys().clone();
                let cp = chan.setup.counterparty_points.clone();
                let params = chan.make_channel_parameters();
                let mut hs: Vec<(HTLCOutputInCommitment, ())> = vec![];
                for (offered_flag, list) in [(true, offs), (false, recs)] {
                    for (v, h, e) in list.iter() {
                        hs.push((
                            HTLCOutputInCommitment {
                                offered: offered_flag,
                                amount_msat: v * 1000,
                                cltv_expiry: *e,
                                payment_hash: hash_of_id(*h),
                                transaction_output_index: None,
                            },
                            (),
                        ));
                    }
                }
                let ctx = if entry == 2 {
                    let pcp = chan.get_per_commitment_point(n)?;
                    let keys = TxCreationKeys::derive_new(
                        &secp,
                        &pcp,
                        &holder.delayed_payment_basepoint,
                        &holder.htlc_basepoint,
                        &cp.revocation_basepoint,
                        &cp.htlc_basepoint,
                    );
                    let build_feerate = if chan.setup.is_zero_fee_htlc() { 0 } else { feerate };
                    let mut c = CommitmentTransaction::new_with_auxiliary_htlc_data(
                        INITIAL_COMMITMENT_NUMBER - n,
                        to_holder,
                        to_cp,
                        holder.funding_pubkey,
                        cp.funding_pubkey,
                        keys,
                        build_feerate,
                        &mut hs,
                        &params.as_holder_broadcastable(),
                    );
                    if chan.setup.is_anchors() {
                        c = c.with_non_zero_fee_anchors();
                    }
                    c
                } else {
                    let keys = TxCreationKeys::derive_new(
                        &secp,
                        &point,
                        &cp.delayed_payment_basepoint,
                        &cp.htlc_basepoint,
                        &holder.revocation_basepoint,
                        &holder.htlc_basepoint,
                    );
                    CommitmentTransaction::new_with_auxiliary_htlc_data(
                        INITIAL_COMMITMENT_NUMBER - n,
                        to_cp,
                        to_holder,
                        cp.funding_pubkey,
                        holder.funding_pubkey,
                        keys,
                        feerate,
                        &mut hs,
                        &params.as_counterparty_broadcastable(),
                    )
                };
                Ok(ctx.trust().built_transaction().transaction.clone())
            })
            .ok()
        };
        let verifies = |sig: &Signature, tx: &lightning_signer::bitcoin::Transaction| -> bool {
            node.with_channel(&channel_id, |chan| {
                let holder = chan.keys.pubkeys().clone();
                let redeem = make_funding_redeemscript(&holder.funding_pubkey, &chan.setup.counterparty_points.funding_pubkey);
                let sighash = SighashCache::new(tx)
                    .p2wsh_signature_hash(0, &redeem, Amount::from_sat(cv), EcdsaSighashType::All)
                    .expect("sighash");
                let msg = SecpMessage::from_digest(sighash.to_byte_array());
                Ok(secp.verify_ecdsa(&msg, sig, &holder.funding_pubkey).is_ok())
            })
            .unwrap_or(false)
        };
        let (obs, status): (u64, String) = match &r {
            Err(_) => (1, "panic".to_string()),
            Ok(Err(e)) => (2, e.clone()),
            Ok(Ok(sig)) => {
                let full = tx_for(&offered, &received);
                let ded = tx_for(&dedup_triples(&offered), &dedup_triples(&received));
                if full.as_ref().map(|t| verifies(sig, t)).unwrap_or(false) {
                    (0, "signature is for the commitment with the full HTLC lists".to_string())
                } else if ded.as_ref().map(|t| verifies(sig, t)).unwrap_or(false) {
                    (3, "signature is for the commitment WITHOUT the repeated HTLC entries".to_string())
                } else {
                    (4, "signature matches neither reconstruction".to_string())
                }
            }
        };
        *dist.entry(format!("{}:{}:{}", ["direct", "handler", "holder-redundant"][entry as usize], mode, obs)).or_insert(0) += 1;
        // ---- the property on the commitment that was SIGNED
        let proj = |hs: &[(u64, u8, u32)]| hs.iter().map(|h| (h.0, h.2)).collect::<Vec<_>>();
        let info = if entry == 2 {
            Info { cp_broadcaster: false, to_countersigner: to_cp, to_broadcaster: to_holder, offered: proj(&offered), received: proj(&received), feerate }
        } else {
            Info { cp_broadcaster: true, to_countersigner: to_holder, to_broadcaster: to_cp, offered: proj(&offered), received: proj(&received), feerate }
        };
        let case = Case { pol: pol.clone(), entry: if entry == 2 { 1 } else { 0 }, est: est.clone(), setup: s.clone(), cs: Chain { current_height: 0, funding_depth: 0, closing_depth: 0 }, n, info: info.clone() };
        let mut viols: Vec<String> = vec![];
        match obs {
            0 => {
                signed_full += 1;
                if has_dups {
                    dup_signed += 1;
                }
                let (rv, _) = reference_violations(&case, release);
                for m in not_downgraded(&pol.rules, rv) {
                    viols.push(format!("{} signed commitment {} (signature verified against the transaction with all {} HTLCs): {}", what, n, count, m));
                }
            }
            3 | 4 => {
                signed_other += 1;
                viols.push(format!("{}: {}", what, status));
            }
            _ => {}
        }
        if !viols.is_empty() {
            monitor_failures += 1;
        }
        let coq = format!(
            "(({}, {}, {}), ({}, {}, {}, {}, {}, {}), {})",
            profile_name(),
            coq_rules(&pol.rules),
            coq_pol(&pol),
            if entry == 2 { 1 } else { 0 },
            coq_est(&est),
            coq_setup(&s),
            coq_chain(&case.cs),
            n,
            coq_info(&info),
            obs
        );
        emit(
            "CASE",
            json!({"id": id, "kind": "signed", "entry": what, "mode": mode,
                   "policy": {"max_htlcs": pol.max_htlcs, "max_htlc_value_sat": pol.max_htlc_value_sat,
                              "min_feerate_per_kw": pol.min_feerate, "max_feerate_per_kw": pol.max_feerate},
                   "channel": {"channel_value_sat": cv, "push_value_msat": s.push_value_msat, "commitment_type": ctype_name(ctype)},
                   "request": {"commitment_number": n, "feerate_per_kw": feerate, "to_holder_value_sat": to_holder,
                               "to_counterparty_value_sat": to_cp,
                               "offered_htlcs(value_sat,hash_id,cltv)": offered, "received_htlcs(value_sat,hash_id,cltv)": received,
                               "implied_fee_sat": fee.to_string(), "in_flight_sat": hsum, "htlc_count": count,
                               "has_identical_htlcs": has_dups},
                   "observed": obs, "status": status, "monitor_violation": viols, "coq": coq}),
        );
    }
    emit("STATS", json!({"kind": "signed", "profile": profile_name(), "observed_distribution(entry:mode:obs)": dist,
        "requests_with_identical_htlcs": with_dups, "signed_and_verified_against_full_lists": signed_full,
        "signed_with_identical_htlcs": dup_signed, "signed_something_else": signed_other, "monitor_failures": monitor_failures}));
}

// ------------------------------------------------------------------ chainlife: the on-chain clause against the harness's own chain record

/// A real node with the OnchainValidatorFactory on the KVV persister (MemoryKVVStore, JSON): one
/// outbound channel whose funding transaction the harness mines or does not mine; blocks go
/// through ChainTracker::add_block with honest proofs and with forged ones (same header, proof
/// over "filler + funding" although the header does not commit to the funding transaction);
/// restarts from the store anywhere; a close (spend of the funding output) may be mined.
/// Requests for counterparty commitment 1 are judged by the harness's OWN record of the best chain
/// (is the funding transaction in one of its blocks, is its output spent) — never by the
/// signer's funding_depth.
fn chainlife_domain(args: &Args) {
    use lightning_signer::bitcoin::absolute::LockTime;
    use lightning_signer::bitcoin::hashes::Hash;
    use lightning_signer::bitcoin::transaction::Version;
    use lightning_signer::bitcoin::{Amount, Block, OutPoint, Sequence, Transaction, TxIn, TxOut, Txid, Witness};
    use lightning_signer::txoo::proof::TxoProof;
    use lightning_signer::util::test_utils::make_block;
    let mut rng = Rng::new(args.seed ^ 0xc4a1711fe);
    let release = !overflow_checks();
    let mut dist: std::collections::BTreeMap<String, u64> = Default::default();
    let (mut monitor_failures, mut restarts, mut forged_refused, mut forged_accepted, mut signed_beyond_initial) = (0u64, 0u64, 0u64, 0u64, 0u64);
    let cv = 3_000_000u64;
    let filler = |height: u32| Transaction { version: Version::non_standard(0), lock_time: LockTime::from_consensus(height), input: vec![], output: vec![] };
    for id in 0..args.n {
        let pol = Pol {
            min_delay: 4,
            max_delay: 2016,
            max_channel_size_sat: 1_000_000_001,
            max_htlcs: 1000,
            max_htlc_value_sat: 16_777_216,
            use_chain_state: false,
            min_feerate: 253,
            max_feerate: 333_333,
            rules: vec![],
        };
        let mut seed = [0u8; 32];
        seed[0] = (id % 251) as u8;
        seed[1] = 0xc7;
        let mut world = World::new(real_policy(&pol), seed, KeyDerivationStyle::Native);
        world.onchain = true;
        let mut node = world.new_node();
        let node_id = node.get_id();
        let funding_tx = Transaction {
            version: Version::TWO,
            lock_time: LockTime::ZERO,
            input: vec![TxIn {
                previous_output: OutPoint { txid: Txid::from_slice(&[7u8; 32]).unwrap(), vout: id as u32 },
                script_sig: ScriptBuf::new(),
                sequence: Sequence::ZERO,
                witness: Witness::default(),
            }],
            output: vec![TxOut { value: Amount::from_sat(cv), script_pubkey: ScriptBuf::new() }],
        };
        let funding_outpoint = OutPoint { txid: funding_tx.compute_txid(), vout: 0 };
        let closing_tx = Transaction {
            version: Version::TWO,
            lock_time: LockTime::ZERO,
            input: vec![TxIn { previous_output: funding_outpoint, script_sig: ScriptBuf::new(), sequence: Sequence::ZERO, witness: Witness::default() }],
            output: vec![TxOut { value: Amount::from_sat(cv - 1000), script_pubkey: ScriptBuf::new() }],
        };
        // deliver one block; `claimed` = transactions the proof is built over (None: the real ones)
        let deliver = |node: &Arc<Node>, real: Vec<Transaction>, claimed: Option<Vec<Transaction>>| -> bool {
            let mut tracker = node.get_tracker();
            let (tip, height) = (tracker.tip().clone(), tracker.height());
            let mut txs = vec![filler(height + 1)];
            txs.extend(real);
            let block = make_block(tip.0, txs);
            let proof_block = match claimed {
                None => block.clone(),
                Some(c) => {
                    let mut t = vec![filler(height + 1)];
                    t.extend(c);
                    Block { header: block.header, txdata: t }
                }
            };
            let proof = TxoProof::prove_unchecked(&proof_block, &tip.1, height + 1);
            let ok = matches!(catch_unwind(AssertUnwindSafe(|| tracker.add_block(block.header, proof))), Ok(Ok(_)));
            // what the protocol handler does after each block
            world.persister.update_tracker(&node_id, &tracker).expect("persist tracker");
            ok
        };
        for _ in 0..3 {
            assert!(deliver(&node, vec![], None), "honest block");
        }
        let peer = [2u8; 33];
        let (channel_id, _) = node.new_channel(1 + id as u64, &peer, &node).expect("new_channel");
        let s = Setup { is_outbound: true, channel_value_sat: cv, push_value_msat: 0, holder_delay: 6, cp_delay: 7, ctype: 1, shutdown: 0 };
        let mut setup = real_setup(&s, None);
        setup.funding_outpoint = funding_outpoint;
        node.setup_channel(channel_id.clone(), None, setup, &DerivationPath::master()).expect("setup_channel");
        let (flo, fhi) = fee_window(pol.min_feerate, pol.max_feerate, weight(1, 0));
        let fee = (flo + fhi) / 2;
        let to_holder = clamp64(cv as u128 - fee);
        let info = Info { cp_broadcaster: true, to_countersigner: to_holder, to_broadcaster: 0, offered: vec![], received: vec![], feerate: 1000 };
        let point = make_test_pubkey(10);
        // ---- the harness's own record of the best chain (blocks since the channel exists)
        let mut funding_block: Option<usize> = None; // index of the block that holds the funding tx
        let mut closing_block: Option<usize> = None;
        let mut nblocks: usize = 0;
        let mut est = Est { next_holder: 0, next_cp_commit: 0, next_cp_revoke: 0, closed: false, cp_point: 0, cp_info_same: false, holder_info: 0 };
        let mut steps: Vec<Value> = vec![];
        let mut coq_terms: Vec<String> = vec![];
        let mut viols: Vec<String> = vec![];
        let len = 6 + rng.below(8);
        let mut plan: Vec<&str> = vec!["sign0"];
        for _ in 0..len {
            plan.push(*rng.pick(&["sign1", "sign1", "sign1", "block", "block", "fund", "forge", "forge", "restart", "restart", "close", "forge-no-close"]));
        }
        plan.push("sign1");
        for op in plan {
            match op {
                "block" => {
                    assert!(deliver(&node, vec![], None), "honest block");
                    nblocks += 1;
                    steps.push(json!({"op": "block (honest, filler only)"}));
                }
                "fund" if funding_block.is_none() => {
                    assert!(deliver(&node, vec![funding_tx.clone()], None), "honest funding block");
                    funding_block = Some(nblocks);
                    nblocks += 1;
                    steps.push(json!({"op": "block (honest, contains the funding tx)"}));
                }
                "close" if funding_block.is_some() && closing_block.is_none() => {
                    let ok = deliver(&node, vec![closing_tx.clone()], None);
                    if ok {
                        closing_block = Some(nblocks);
                        nblocks += 1;
                    }
                    steps.push(json!({"op": "block (honest, spends the funding output)", "accepted": ok}));
                }
                "forge" if funding_block.is_none() => {
                    // real block: filler only; the proof claims the funding tx is in it
                    let ok = deliver(&node, vec![], Some(vec![funding_tx.clone()]));
                    if ok {
                        forged_accepted += 1;
                    } else {
                        forged_refused += 1;
                        // the node has to tell the truth to get on: the same block, honest proof
                        assert!(deliver(&node, vec![], None), "honest re-delivery");
                    }
                    nblocks += 1;
                    steps.push(json!({"op": "block (header of a filler-only block, proof claims the funding tx)", "accepted": ok}));
                }
                "forge-no-close" if funding_block.is_some() && closing_block.is_none() => {
                    // real block spends the funding output; the proof leaves the spend out
                    let ok = deliver(&node, vec![closing_tx.clone()], Some(vec![]));
                    if ok {
                        forged_accepted += 1;
                    } else {
                        forged_refused += 1;
                        assert!(deliver(&node, vec![closing_tx.clone()], None), "honest re-delivery");
                    }
                    closing_block = Some(nblocks);
                    nblocks += 1;
                    steps.push(json!({"op": "block (spends the funding output, proof leaves the spend out)", "accepted": ok}));
                }
                "restart" => {
                    drop(node);
                    node = world.restart(&node_id);
                    restarts += 1;
                    steps.push(json!({"op": "restart from the store"}));
                }
                "sign0" | "sign1" => {
                    let n: u64 = if op == "sign0" { 0 } else { 1 };
                    // chain state by the harness's own record
                    let cs = Chain {
                        current_height: 0,
                        funding_depth: funding_block.map(|b| (nblocks - b) as u32).unwrap_or(0),
                        closing_depth: closing_block.map(|b| (nblocks - b) as u32).unwrap_or(0),
                    };
                    let r = catch_unwind(AssertUnwindSafe(|| {
                        node.with_channel(&channel_id, |chan| {
                            chan.sign_counterparty_commitment_tx_phase2(&point, n, info.feerate, info.to_countersigner, info.to_broadcaster, vec![], vec![])
                        })
                    }));
                    let (o, status): (u64, String) = match &r {
                        Err(_) => (1, "panic".to_string()),
                        Ok(Ok(_)) => (0, String::new()),
                        Ok(Err(e)) => (2, format!("{:?}: {}", e.code(), e.message()).chars().take(160).collect()),
                    };
                    *dist.entry(format!("sign{}:funded={}:closed={}:{}", n, cs.funding_depth > 0, cs.closing_depth > 0, o)).or_insert(0) += 1;
                    coq_terms.push(format!(
                        "(({}, {}, {}), (true, {}, {}, {}, {}, {}), {})",
                        profile_name(),
                        coq_rules(&pol.rules),
                        coq_pol(&pol),
                        coq_est(&est),
                        coq_setup(&s),
                        coq_chain(&cs),
                        n,
                        coq_info(&info),
                        o
                    ));
                    if o == 0 {
                        let case = Case { pol: pol.clone(), entry: 2, est: est.clone(), setup: s.clone(), cs: cs.clone(), n, info: info.clone() };
                        let (rv, _) = reference_violations(&case, release);
                        for m in not_downgraded(&pol.rules, rv) {
                            viols.push(format!(
                                "counterparty commitment {} signed; by the harness's record of the chain the funding tx is {} and its output is {}: {}",
                                n,
                                if cs.funding_depth > 0 { "in a block" } else { "in NO block" },
                                if cs.closing_depth > 0 { "spent" } else { "unspent" },
                                m
                            ));
                        }
                        if n >= 1 {
                            signed_beyond_initial += 1;
                        }
                        if n == est.next_cp_commit {
                            est.next_cp_commit = n + 1;
                            est.cp_point = 1;
                            est.cp_info_same = true;
                        }
                    }
                    steps.push(json!({"op": format!("sign_counterparty_commitment_tx_phase2(commitment {})", n),
                        "own_record": {"funding_depth": cs.funding_depth, "closing_depth": cs.closing_depth},
                        "observed": (["signed", "panic", "refused"][o as usize]), "status": status}));
                }
                _ => {}
            }
        }
        if !viols.is_empty() {
            monitor_failures += 1;
        }
        emit(
            "CASE",
            json!({"id": id, "kind": "chainlife", "validator": "onchain", "persister": "KVVPersister<MemoryKVVStore, JsonFormat>",
                   "channel": {"channel_value_sat": cv, "is_outbound": true, "to_holder_value_sat": to_holder},
                   "steps": steps, "monitor_violation": viols, "coq": coq_terms}),
        );
    }
    emit("STATS", json!({"kind": "chainlife", "profile": profile_name(), "observed_distribution": dist, "restarts": restarts,
        "forged_blocks_refused": forged_refused, "forged_blocks_accepted": forged_accepted,
        "signed_beyond_initial": signed_beyond_initial, "monitor_failures": monitor_failures}));
}

fn main() {
    std::panic::set_hook(Box::new(|_| {}));
    let argv: Vec<String> = std::env::args().collect();
    let args = parse_args(&argv[2..]);
    match argv[1].as_str() {
        "commit" => commit(&args),
        "setup" => setup_domain(&args),
        "chan" => chan_domain(&args),
        "life" => life_domain(&args),
        "wire" => wire_domain(&args),
        "signed" => signed_domain(&args),
        "chainlife" => chainlife_domain(&args),
        other => {
            eprintln!("unknown sub-domain {}", other);
            std::process::exit(2)
        }
    }
}
