//! Domain `onchain` (C08): the real Node::check_onchain_tx, Approve::handle_proposed_onchain,
//! unchecked_sign_onchain_tx and SimpleValidator::validate_onchain_tx (through the Validator
//! trait) against Model/Onchain.v, with the property itself computed independently in u128.
//!
//!   node   a real node (own policy, manual clock, memory store) with 0-3 real channels whose
//!          funding outpoints designate outputs of a generated transaction; per step:
//!          check_onchain_tx, then handle_proposed_onchain with a recording approver, then (when
//!          approved and signable) unchecked_sign_onchain_tx and a look at the persisted entry
//!   val    the same worlds, validate_onchain_tx called directly with free weight / values / flags
//!
//! The wallet / allowlist answers that enter the model come from a reference derivation in this
//! file (BIP32 from the account key and the allowlisted xpubs), not from the node's can_spend /
//! allowlist_contains, so those two functions are inside the comparison.
use vharness::*;

use lightning_signer::bitcoin;

use bitcoin::absolute::LockTime;
use bitcoin::bip32::{ChildNumber, DerivationPath, Xpriv, Xpub};
use bitcoin::hashes::Hash;
use bitcoin::key::UntweakedPublicKey;
use bitcoin::secp256k1::{All, PublicKey, Secp256k1, SecretKey};
use bitcoin::transaction::Version;
use bitcoin::{
    Address, Amount, CompressedPublicKey, OutPoint, ScriptBuf, Sequence, Transaction, TxIn, TxOut, Txid, Witness,
};
use lightning_signer::channel::ChannelSlot;
use lightning_signer::invoice::Invoice;
use lightning_signer::lightning::types::payment::PaymentHash;
use lightning_signer::node::Node;
use lightning_signer::persist::Persist;
use lightning_signer::policy::error::{ValidationError, ValidationErrorKind};
use lightning_signer::policy::filter::{FilterResult, FilterRule, PolicyFilter};
use lightning_signer::policy::simple_validator::{PolicyDevFlags, SimplePolicy, SimpleValidatorFactory};
use lightning_signer::policy::validator::ValidatorFactory;
use lightning_signer::signer::derive::KeyDerivationStyle;
use lightning_signer::util::test_utils::{
    channel_initial_holder_commitment, counterparty_sign_holder_commitment, funding_tx_setup_channel,
    make_test_funding_channel_outpoint, test_chan_ctx_with_push_val, validate_holder_commitment, TestChannelContext,
    TestNodeContext,
};
use lightning_signer::util::velocity::{VelocityControl, VelocityControlIntervalType, VelocityControlSpec};
use lightning_signer::wallet::Wallet;
use lightning_signer::SendSync;
use serde_json::{json, Value};
use std::panic::{catch_unwind, AssertUnwindSafe};
use std::sync::{Arc, Mutex};
use std::time::Duration;
use vls_protocol::model::{self, PubKey, Utxo};
use vls_protocol::msgs::{self, Message, SerBolt};
use vls_protocol::psbt::StreamedPSBT;
use vls_protocol::serde_bolt::{Array, Octets, WithSize};
use vls_protocol_signer::approver::{
    Approval, Approve, MemoApprover, NegativeApprover, PositiveApprover, VelocityApprover, WarningPositiveApprover,
};
use vls_protocol_signer::handler::{Handler, InitHandler, RootHandler};

const U64MAX: u64 = u64::MAX;
const U32MAX: u32 = u32::MAX;
const MAX_ONCHAIN_TX_SIZE: u128 = 32 * 1024;

// ------------------------------------------------------------------ tags and filters

const TAGS: [&str; 10] = [
    "policy-onchain-format-standard",
    "policy-onchain-max-size",
    "policy-onchain-funding-non-malleable",
    "policy-onchain-output-scriptpubkey",
    "policy-onchain-no-unknown-outputs",
    "policy-onchain-output-match-commitment",
    "policy-onchain-initial-commitment-countersigned",
    "policy-onchain-no-fund-inbound",
    "policy-onchain-no-channel-push",
    "policy-onchain-fee-range",
];

type Rules = Vec<(String, bool, bool)>; // (tag, is_prefix, warn)

fn rules_menu(k: u64) -> Rules {
    let r = |t: &str, p: bool, w: bool| (t.to_string(), p, w);
    match k {
        0 => vec![r("policy-onchain-fee-range", false, true)],
        1 => vec![r("policy-onchain-", true, true)],
        2 => vec![r("", true, true)],
        3 => vec![r("policy-onchain-no-unknown-outputs", false, true)],
        4 => vec![
            r("policy-onchain-output-match-commitment", false, true),
            r("policy-onchain-initial-commitment-countersigned", false, true),
        ],
        5 => vec![r("policy-onchain-no-fund-inbound", false, true), r("policy-onchain-no-channel-push", false, true)],
        6 => vec![r("policy-onchain-funding-non-malleable", false, true), r("policy-onchain-output-scriptpubkey", false, true)],
        7 => vec![r("policy-onchain-fee-range", false, false), r("policy-onchain-", true, true)],
        8 => vec![r("policy-onchain-format-standard", false, true), r("policy-onchain-max-size", false, true)],
        _ => vec![r("policy-onchain-fee-rang", false, true), r("policy-commitment-", true, true)],
    }
}

/// reference reading of a filter: the first matching rule decides, no match = not downgraded
fn ref_warned(rules: &Rules, tag: &str) -> bool {
    for (t, is_prefix, warn) in rules {
        let hit = if *is_prefix { tag.len() >= t.len() && &tag[..t.len()] == t.as_str() } else { tag == t.as_str() };
        if hit {
            return *warn;
        }
    }
    false
}

fn coq_rules(rules: &Rules) -> String {
    coq_list(
        &rules
            .iter()
            .map(|(t, p, w)| format!("CommitmentPolicy.mkRule \"{}\"%string {} {}", t, coq_bool(*p), coq_bool(*w)))
            .collect::<Vec<_>>(),
    )
}

/// `Rng::new` is linear in the seed (seed s + 1 replays the stream of seed s shifted by one draw):
/// scramble it, so that neighbouring seeds and the chunk seeds of the driver are unrelated
fn mix_seed(seed: u64) -> u64 {
    let mut z = seed.wrapping_add(0x632B_E59B_D9B4_E019);
    z = (z ^ (z >> 30)).wrapping_mul(0xBF58476D1CE4E5B9);
    z = (z ^ (z >> 27)).wrapping_mul(0x94D049BB133111EB);
    z ^ (z >> 31)
}

fn overflow_checks() -> bool {
    let x: u8 = std::hint::black_box(255);
    catch_unwind(|| std::hint::black_box(x + std::hint::black_box(1))).is_err()
}
fn profile_name() -> &'static str {
    if overflow_checks() {
        "Debug"
    } else {
        "Release"
    }
}

// ------------------------------------------------------------------ abstract description of a case

#[derive(Clone, Debug)]
struct Pol {
    max_feerate: u32,
    disable_beneficial: bool,
    rules: Rules,
    vel_kind: u8, // 0 hourly, 1 daily, 2 unlimited
    vel_limit: u64,
}

#[derive(Clone, Debug)]
struct ChanFacts {
    value: u64,
    script_ok: bool,
    next_holder: u64,
    outbound: bool,
    push_msat: u64,
}

#[derive(Clone, Debug)]
struct OutSpec {
    class: &'static str,
    value: u64,
    script: ScriptBuf,
    /// None: the opaths vector ends before this output
    opath: Option<DerivationPath>,
    can_spend: Option<bool>,
    allow_path: Option<bool>,
    allow_script: bool,
    chan: Option<ChanFacts>,
}

#[derive(Clone)]
struct InSpec {
    kind: &'static str,
    value: u64,
    script: ScriptBuf,
    spend_valid: bool,
    ipath: DerivationPath,
    signable: bool,
}

type Uck = Option<(SecretKey, Vec<Vec<u8>>)>;

fn uck_len(u: &Uck) -> Option<u64> {
    u.as_ref().map(|(_, stack)| stack.iter().map(|v| 1 + v.len() as u64).sum())
}

// ------------------------------------------------------------------ reference wallet / allowlist

struct RefWallet {
    secp: Secp256k1<All>,
    account: Xpriv,
    allow_scripts: Vec<ScriptBuf>,
    xpubs: Vec<Xpub>,
}

fn hardened(path: &DerivationPath) -> bool {
    path.into_iter().any(|c| c.is_hardened())
}

impl RefWallet {
    fn wallet_key(&self, path: &DerivationPath) -> CompressedPublicKey {
        let sk = self.account.derive_priv(&self.secp, path).expect("derive").private_key;
        CompressedPublicKey(PublicKey::from_secret_key(&self.secp, &sk))
    }
    /// kind: 0 p2wpkh, 1 p2sh-p2wpkh, 2 p2tr, 3 p2pkh
    fn script_of(&self, pk: &CompressedPublicKey, kind: u64) -> ScriptBuf {
        match kind {
            0 => Address::p2wpkh(pk, NETWORK).script_pubkey(),
            1 => Address::p2shwpkh(pk, NETWORK).script_pubkey(),
            2 => Address::p2tr(&self.secp, UntweakedPublicKey::from(pk.0), None, NETWORK).script_pubkey(),
            _ => Address::p2pkh(pk, NETWORK).script_pubkey(),
        }
    }
    /// what the wallet can spend with the key at `path`: native, wrapped or taproot
    fn can_spend(&self, path: &DerivationPath, script: &ScriptBuf) -> Option<bool> {
        if path.len() == 0 {
            return Some(false);
        }
        if path.len() != 1 {
            return None; // the native derivation style has one-step paths
        }
        let pk = self.wallet_key(path);
        Some((0..3).any(|k| self.script_of(&pk, k) == *script))
    }
    /// allowlisted script, or (with a path) a key-hash / taproot script of an allowlisted xpub's child;
    /// None: a hardened step cannot be derived from an xpub (the implementation unwraps)
    fn allow(&self, script: &ScriptBuf, path: &DerivationPath) -> Option<bool> {
        if self.allow_scripts.contains(script) {
            return Some(true);
        }
        if path.len() == 0 {
            return Some(false);
        }
        for xp in &self.xpubs {
            if hardened(path) {
                return None;
            }
            let pk = CompressedPublicKey(xp.derive_pub(&self.secp, path).expect("derive_pub").public_key);
            for k in [0u64, 3, 2] {
                if self.script_of(&pk, k) == *script {
                    return Some(true);
                }
            }
        }
        Some(false)
    }
}

// ------------------------------------------------------------------ recording approver

struct RecordingApprover {
    answer: bool,
    asked: Mutex<Vec<Vec<usize>>>,
}
impl SendSync for RecordingApprover {}
impl Approve for RecordingApprover {
    fn approve_invoice(&self, _invoice: &Invoice) -> bool {
        false
    }
    fn approve_keysend(&self, _payment_hash: PaymentHash, _amount_msat: u64) -> bool {
        false
    }
    fn approve_onchain(&self, _tx: &Transaction, _prev_outs: &[TxOut], unknown_indices: &[usize]) -> bool {
        self.asked.lock().unwrap().push(unknown_indices.to_vec());
        self.answer
    }
}

// ------------------------------------------------------------------ real objects

fn real_policy(p: &Pol) -> SimplePolicy {
    let mut policy = World::default_policy();
    policy.max_feerate_per_kw = p.max_feerate;
    policy.max_channel_size_sat = 1 << 60;
    if p.disable_beneficial {
        policy.dev_flags = Some(PolicyDevFlags { disable_beneficial_balance_checks: true });
    }
    policy.filter = PolicyFilter {
        rules: p
            .rules
            .iter()
            .map(|(t, pre, w)| FilterRule {
                tag: t.clone(),
                is_prefix: *pre,
                action: if *w { FilterResult::Warn } else { FilterResult::Error },
            })
            .collect(),
    };
    policy.fee_velocity_control = match p.vel_kind {
        0 => VelocityControlSpec { limit_msat: p.vel_limit, interval_type: VelocityControlIntervalType::Hourly },
        1 => VelocityControlSpec { limit_msat: p.vel_limit, interval_type: VelocityControlIntervalType::Daily },
        _ => VelocityControlSpec::UNLIMITED,
    };
    policy
}

fn vel_shape(p: &Pol) -> (u64, u64) {
    match p.vel_kind {
        0 => (300, 12),
        1 => (3600, 24),
        _ => (300, 12),
    }
}

/// (code, unknown indices): 0 ok, 1 panic, 2 unknown destinations, 100 + tag refused, 19x outside the model
fn err_obs(ve: &ValidationError) -> (u64, Vec<u64>) {
    match &ve.kind {
        ValidationErrorKind::UnknownDestinations(_, idx) => (2, idx.iter().map(|i| *i as u64).collect()),
        ValidationErrorKind::Policy(_) => match TAGS.iter().position(|t| *t == ve.tag.as_str()) {
            Some(k) => (100 + k as u64, vec![]),
            None => (199, vec![]),
        },
        _ => (198, vec![]),
    }
}

fn vc_obs(c: &VelocityControl) -> String {
    format!("({}, {}, {}, {})", c.start_sec, c.bucket_interval, coq_nlist(&c.buckets), c.limit)
}
fn vc_json(c: &VelocityControl) -> Value {
    json!({"start_sec": c.start_sec, "bucket_interval": c.bucket_interval, "buckets": c.buckets, "limit": c.limit})
}

// ------------------------------------------------------------------ Coq terms

fn coq_opt_bool(o: Option<bool>) -> String {
    match o {
        Some(b) => format!("(Some {})", coq_bool(b)),
        None => "None".to_string(),
    }
}
fn coq_out(o: &OutSpec) -> String {
    let path = match &o.opath {
        None => "NoPath",
        Some(p) if p.len() == 0 => "EmptyPath",
        Some(_) => "WalletPath",
    };
    let chan = match &o.chan {
        None => "None".to_string(),
        Some(c) => format!(
            "(Some (mkChan {} {} {} {} {}))",
            c.value,
            coq_bool(c.script_ok),
            c.next_holder,
            coq_bool(c.outbound),
            c.push_msat
        ),
    };
    format!(
        "mkOut {} {} {} {} {} {}",
        o.value,
        path,
        coq_opt_bool(o.can_spend),
        coq_opt_bool(o.allow_path),
        coq_bool(o.allow_script),
        chan
    )
}
fn coq_pol(p: &Pol) -> String {
    format!("mkOPol {} {}", p.max_feerate, coq_bool(p.disable_beneficial))
}
fn coq_flags(f: &[bool]) -> String {
    coq_list(&f.iter().map(|b| coq_bool(*b)).collect::<Vec<_>>())
}

// ------------------------------------------------------------------ a generated world

struct Built {
    world: World,
    node: Arc<Node>,
    pol: Pol,
    refw: RefWallet,
    tx: Transaction,
    ins: Vec<InSpec>,
    prev_outs: Vec<TxOut>,
    ucks: Vec<Uck>,
    flags: Vec<bool>,
    outs: Vec<OutSpec>,
    opaths: Vec<DerivationPath>,
    chan_ids: Vec<Option<lightning_signer::channel::ChannelId>>, // per output
    malformed: Vec<&'static str>,
}

fn path_of(idx: &[u32]) -> DerivationPath {
    idx.iter().map(|i| ChildNumber::from_normal_idx(*i).unwrap()).collect::<Vec<_>>().into()
}

fn gen_policy(rng: &mut Rng, clean: bool) -> Pol {
    let max_feerate = match rng.below(12) {
        0 => 253,
        1 => 1000,
        2 => 25_000,
        3 => 4_000_000_000,
        4 => U32MAX - 1,
        5 => U32MAX,
        _ => 333_333,
    };
    let (vel_kind, vel_limit) = match rng.below(8) {
        0 => (1u8, 50_000_000u64),
        1 => (0, 10_000_000),
        2 => (1, 1_000_000_000_000_000),
        3 => (2, 0),
        4 => (0, 1_000_000_000),
        _ => (1, 1_000_000_000),
    };
    let noisy = if clean { rng.chance(1, 12) } else { true };
    let rules = if noisy && rng.chance(1, 4) { rules_menu(rng.below(10)) } else { vec![] };
    Pol { max_feerate, disable_beneficial: noisy && rng.chance(1, 20), rules, vel_kind, vel_limit }
}

fn big_script(len: usize) -> ScriptBuf {
    // OP_RETURN followed by filler: never a wallet, allowlist or channel script
    let mut v = vec![0x6au8];
    v.resize(len, 0x51);
    ScriptBuf::from_bytes(v)
}

fn gen_value(rng: &mut Rng) -> u64 {
    match rng.below(40) {
        0 => 0,
        1 => 1,
        2 => 546,
        3 => 1 << 63,
        4 => U64MAX,
        5 => U64MAX / 2 + 1,
        6 => (1 << 32) + 1,
        7..=15 => 1000 * (1 + rng.below(100)),
        _ => 10_000 + rng.below(1_000_000_000),
    }
}

/// Build a node, its allowlist, a transaction skeleton, and the channels whose funding outpoints
/// designate its outputs.  Input values are filled in afterwards (they do not enter the txid).
fn build(rng: &mut Rng, case: usize, with_malformed: bool) -> Built {
    // 9/20 valid transactions, 7/20 valid but for one defect, the rest anything goes
    let style = if with_malformed {
        2
    } else {
        match rng.below(20) {
            0..=8 => 0,
            9..=15 => 1,
            _ => 2,
        }
    };
    let clean = style < 2;
    // 0 push 1000 msat, 1 push 5e6 msat, 2 inbound, 3 initial commitment missing, 4 past the initial commitment,
    // 5 value + 1, 6 value - 1, 7 wrong script, 8 one flag flipped, 9 an unknown output, 10 a wallet path with
    // another key's script, 11 a p2pkh input
    // 12 one segwit flag missing, 13 a taproot input of another wallet key than the one named, 14 an input path
    // of the wrong length (13 and 14 pass the check and are refused when it comes to signing)
    let defect: Option<u64> = if style == 1 { Some(*rng.pick(&[0u64, 1, 2, 3, 4, 5, 6, 7, 8, 9, 10, 11, 12, 13, 13, 14, 14])) } else { None };
    // the defect together with an output to nowhere: whether an approval can wash the defect away
    let also_unknown = style == 1 && defect != Some(9) && rng.chance(2, 5);
    let pol = gen_policy(rng, clean);
    let mut seed = [0u8; 32];
    seed[0] = (case % 251) as u8;
    seed[1] = 0xc8;
    let mut world = World::new(real_policy(&pol), seed, KeyDerivationStyle::Native);
    // half of the nodes run under OnchainValidatorFactory over the same simple policy
    world.onchain = rng.chance(1, 2);
    let node = world.new_node();
    let node_ctx = TestNodeContext { node: node.clone(), secp_ctx: Secp256k1::signing_only() };
    let secp = Secp256k1::new();
    let n_xpub = match rng.below(5) {
        0 => 1,
        1 => 2,
        _ => 0,
    };
    let xpubs: Vec<Xpub> = (0..n_xpub)
        .map(|k| {
            let mut s = rng.bytes32();
            s[0] = k as u8;
            Xpub::from_priv(&secp, &Xpriv::new_master(NETWORK, &s).unwrap())
        })
        .collect();
    let mut refw =
        RefWallet { secp: secp.clone(), account: node.get_account_extended_key().clone(), allow_scripts: vec![], xpubs };
    let mut malformed: Vec<&'static str> = vec![];

    // ---- channels (stubs first: the funding script is known before the transaction is)
    let mut n_ch = match rng.below(10) {
        0..=2 => 0,
        3..=6 => 1,
        7..=8 => 2,
        _ => 3,
    };
    if matches!(defect, Some(0..=8) | Some(11..=14)) && n_ch == 0 {
        n_ch = 1;
    }
    struct ChPlan {
        ctx: TestChannelContext,
        mode: u64,      // 0 normal, 1 wrong script, 2 shadowed by a wallet output, 3 shadowed by the allowlist, 4 elsewhere
        holder: u64,    // 0 validate the real initial commitment, 1.. synthetic next_holder_commit_num = holder - 1
        value_delta: i64,
        funding: ScriptBuf,
    }
    let mut plans: Vec<ChPlan> = vec![];
    for k in 0..n_ch {
        let value = match rng.below(10) {
            0 => 1u64 << 53,
            1 => 10_000_000_000_000_000,
            2 => 3000,
            _ => 100_000 + rng.below(20_000_000),
        };
        let push = match rng.below(12) {
            0 => 999,
            1 if !clean => 1000,
            2 if !clean => 5_000_000,
            3 => 1,
            _ => 0,
        };
        let d0 = if k == 0 { defect } else { None };
        let push = match d0 {
            Some(0) => 1000,
            Some(1) => 5_000_000,
            _ => push,
        };
        let mut ctx = test_chan_ctx_with_push_val(&node_ctx, case * 8 + k + 1, value, push);
        if (!clean && rng.chance(1, 10)) || d0 == Some(2) {
            ctx.setup.is_outbound = false;
        }
        let mode = match if clean { 19 } else { rng.below(20) } {
            0 => 1,
            1 => 2,
            2 => 3,
            3 => 4,
            _ => 0,
        };
        let holder = match rng.below(10) {
            0 if !clean => 1, // synthetic 0: initial commitment not validated
            1 if !clean => 3, // synthetic 2: already past the initial commitment
            2 | 3 => 2,   // synthetic 1
            _ => 0,       // the real thing
        };
        let value_delta = match if clean { 15 } else { rng.below(16) } {
            0 => 1,
            1 => -1,
            2 => 1000,
            _ => 0,
        };
        let (mode, holder, value_delta) = match d0 {
            Some(3) => (mode, 1, value_delta),
            Some(4) => (mode, 3, value_delta),
            Some(5) => (mode, holder, 1),
            Some(6) => (mode, holder, -1),
            Some(7) => (1, holder, value_delta),
            _ => (mode, holder, value_delta),
        };
        let funding = make_test_funding_channel_outpoint(&node, &ctx.setup, &ctx.channel_id, 0).script_pubkey;
        plans.push(ChPlan { ctx, mode, holder, value_delta, funding });
    }

    // ---- outputs
    let n_free = if n_ch > 0 { rng.below(4) } else { rng.below(6) } as usize;
    struct Draft {
        class: &'static str,
        value: u64,
        script: ScriptBuf,
        opath: DerivationPath,
        plan: Option<usize>,
    }
    let mut drafts: Vec<Draft> = vec![];
    for (k, pl) in plans.iter().enumerate() {
        let cv = pl.ctx.setup.channel_value_sat;
        let value = (cv as i128 + pl.value_delta as i128).max(0) as u64;
        let funding = pl.funding.clone();
        let d = match pl.mode {
            1 => Draft {
                class: "channel/wrong-script",
                value,
                script: refw.script_of(&refw.wallet_key(&path_of(&[20_000 + k as u32])), 0),
                opath: path_of(&[]),
                plan: Some(k),
            },
            2 => {
                let p = path_of(&[30 + k as u32]);
                Draft { class: "channel/on-wallet-output", value, script: refw.script_of(&refw.wallet_key(&p), 0), opath: p, plan: Some(k) }
            }
            3 => {
                refw.allow_scripts.push(funding.clone());
                Draft { class: "channel/allowlisted-script", value, script: funding, opath: path_of(&[]), plan: Some(k) }
            }
            4 => Draft { class: "channel-script/no-channel-here", value, script: funding, opath: path_of(&[]), plan: Some(k) },
            _ => Draft { class: "channel", value, script: funding, opath: path_of(&[]), plan: Some(k) },
        };
        drafts.push(d);
    }
    for _ in 0..n_free {
        let value = if clean { 1000 + rng.below(50_000_000) } else { gen_value(rng) };
        let i = rng.below(50) as u32;
        let kind = rng.below(3);
        // clean: wallet, allowlisted script / xpub, allowlisted script under a wallet path; now and then one unknown
        let pick = if clean { *rng.pick(&[0u64, 0, 0, 0, 0, 40, 40, 50, 50, 80, 0, 40, 60]) } else { rng.below(100) };
        let d = if pick < 34 {
            let p = path_of(&[i]);
            Draft { class: "wallet", value, script: refw.script_of(&refw.wallet_key(&p), kind), opath: p, plan: None }
        } else if pick < 46 {
            let s = refw.script_of(&refw.wallet_key(&path_of(&[10_000 + i])), kind);
            refw.allow_scripts.push(s.clone());
            Draft { class: "allowlisted-script", value, script: s, opath: path_of(&[]), plan: None }
        } else if pick < 56 && !refw.xpubs.is_empty() {
            let x = refw.xpubs[rng.below(refw.xpubs.len() as u64) as usize];
            let p = path_of(&[i]);
            let pk = CompressedPublicKey(x.derive_pub(&refw.secp, &p).unwrap().public_key);
            let k = [0u64, 3, 2][rng.below(3) as usize];
            Draft { class: "allowlisted-xpub", value, script: refw.script_of(&pk, k), opath: p, plan: None }
        } else if pick < 70 {
            let s = refw.script_of(&refw.wallet_key(&path_of(&[10_000 + i])), kind);
            Draft { class: "unknown", value, script: s, opath: path_of(&[]), plan: None }
        } else if pick < 75 {
            Draft {
                class: "wallet-path/other-key",
                value,
                script: refw.script_of(&refw.wallet_key(&path_of(&[i + 1])), kind),
                opath: path_of(&[i]),
                plan: None,
            }
        } else if pick < 79 {
            let p = path_of(&[i]);
            Draft { class: "wallet-path/p2pkh", value, script: refw.script_of(&refw.wallet_key(&p), 3), opath: p, plan: None }
        } else if pick < 83 {
            let s = refw.script_of(&refw.wallet_key(&path_of(&[10_000 + i])), kind);
            refw.allow_scripts.push(s.clone());
            Draft { class: "wallet-path/allowlisted-script", value, script: s, opath: path_of(&[i]), plan: None }
        } else if pick < 86 {
            let p = path_of(&[i, 1]);
            Draft { class: "wallet-path/two-steps", value, script: refw.script_of(&refw.wallet_key(&path_of(&[i])), 0), opath: p, plan: None }
        } else if pick < 90 {
            let p: DerivationPath = vec![ChildNumber::from_hardened_idx(i).unwrap()].into();
            let own = rng.chance(1, 2);
            let s = if own { refw.script_of(&refw.wallet_key(&p), kind) } else { refw.script_of(&refw.wallet_key(&path_of(&[i])), kind) };
            Draft { class: "wallet-path/hardened", value, script: s, opath: p, plan: None }
        } else if pick < 94 && !refw.xpubs.is_empty() {
            let x = refw.xpubs[0];
            let pk = CompressedPublicKey(x.derive_pub(&refw.secp, &path_of(&[i])).unwrap().public_key);
            Draft { class: "xpub-child/no-path", value, script: refw.script_of(&pk, 0), opath: path_of(&[]), plan: None }
        } else {
            Draft { class: "unknown", value, script: big_script(20 + rng.below(40) as usize), opath: path_of(&[]), plan: None }
        };
        drafts.push(d);
    }
    if defect == Some(9) || also_unknown {
        let s = refw.script_of(&refw.wallet_key(&path_of(&[10_777])), 0);
        // value boundaries too: an output of 0 or 1 sat to nowhere still needs approval
        let value = match rng.below(6) {
            0 | 1 => 0,
            2 => 1,
            3 => 546,
            _ => 1000 + rng.below(1_000_000),
        };
        drafts.push(Draft { class: "unknown", value, script: s, opath: path_of(&[]), plan: None });
    }
    if defect == Some(10) {
        let s = refw.script_of(&refw.wallet_key(&path_of(&[778])), 0);
        drafts.push(Draft { class: "wallet-path/other-key", value: 1000 + rng.below(1_000_000), script: s, opath: path_of(&[777]), plan: None });
    }
    // shuffle
    for i in (1..drafts.len()).rev() {
        let j = rng.below(i as u64 + 1) as usize;
        drafts.swap(i, j);
    }

    // ---- inputs
    let n_in = if clean { 1 + rng.below(4) as usize } else { rng.below(5) as usize };
    let mut ins: Vec<InSpec> = vec![];
    let mut ucks: Vec<Uck> = vec![];
    let mut flags: Vec<bool> = vec![];
    let mut txins: Vec<TxIn> = vec![];
    for k in 0..n_in {
        let i = rng.below(40) as u32;
        let p = path_of(&[i]);
        let pk = refw.wallet_key(&p);
        let pick = if defect == Some(11) && k == 0 {
            0
        } else if clean {
            (if n_ch > 0 { 14 } else { 0 }) + rng.below(72)
        } else {
            rng.below(100)
        };
        let legacy_cut = if n_ch > 0 { 6 } else { 14 };
        let (kind, script, spend_valid, uck, signable): (&'static str, ScriptBuf, bool, Uck, bool) = if defect == Some(13) && k == 0 {
            ("p2tr-of-another-key", refw.script_of(&refw.wallet_key(&path_of(&[i + 100])), 2), true, None, true)
        } else if defect == Some(14) && k == 0 {
            ("p2wpkh-two-step-path", refw.script_of(&pk, 0), true, None, true)
        } else if pick < legacy_cut {
            ("p2pkh", refw.script_of(&pk, 3), true, None, true)
        } else if pick < 60 {
            ("p2wpkh", refw.script_of(&pk, 0), true, None, true)
        } else if pick < 70 {
            ("p2sh-p2wpkh", refw.script_of(&pk, 1), true, None, true)
        } else if pick < 78 {
            ("p2tr", refw.script_of(&pk, 2), true, None, true)
        } else if pick < 86 {
            // swept from a unilateral close: to-remote key, or a delayed output with its redeemscript
            let sk = SecretKey::from_slice(&[(k + 11) as u8; 32]).unwrap();
            let upk = CompressedPublicKey(PublicKey::from_secret_key(&secp, &sk));
            if rng.chance(1, 2) {
                ("uniclose-p2wpkh", refw.script_of(&upk, 0), true, Some((sk, vec![upk.0.serialize().to_vec()])), true)
            } else {
                let redeem = big_script(40 + rng.below(60) as usize);
                let s = Address::p2wsh(&redeem, NETWORK).script_pubkey();
                ("uniclose-p2wsh", s, true, Some((sk, vec![vec![], redeem.to_bytes()])), true)
            }
        } else if pick < 93 {
            ("foreign-empty-script", ScriptBuf::new(), false, None, true)
        } else {
            ("foreign-opreturn", big_script(10), false, if rng.chance(1, 2) { Some((SecretKey::from_slice(&[9u8; 32]).unwrap(), vec![vec![1, 2, 3]])) } else { None }, true)
        };
        let mut flag = kind != "p2pkh";
        if (!clean && rng.chance(1, 20)) || (defect == Some(8) && k == 0) {
            flag = !flag;
        }
        flags.push(flag);
        let mut h = rng.bytes32();
        h[31] = k as u8;
        txins.push(TxIn {
            previous_output: OutPoint { txid: Txid::from_slice(&h).unwrap(), vout: rng.below(3) as u32 },
            script_sig: ScriptBuf::new(),
            sequence: Sequence::ZERO,
            witness: Witness::default(),
        });
        let p = if kind == "p2wpkh-two-step-path" { path_of(&[i, 1]) } else { p };
        ins.push(InSpec { kind, value: 0, script, spend_valid, ipath: if spend_valid && uck.is_none() { p } else { path_of(&[]) }, signable });
        ucks.push(uck);
    }

    if defect == Some(12) {
        malformed.push("segwit_flags shorter than the inputs");
        flags.pop();
    }

    // ---- malformed shapes
    let mut version = Version::TWO;
    let mut opaths_cut: Option<usize> = None;
    if with_malformed {
        match rng.below(7) {
            0 => {
                malformed.push("segwit_flags shorter than the inputs");
                flags.pop();
            }
            1 => {
                malformed.push("segwit_flags longer than the inputs");
                flags.push(true);
            }
            2 =>
                if !drafts.is_empty() {
                    malformed.push("opaths shorter than the outputs");
                    opaths_cut = Some(rng.below(drafts.len() as u64) as usize);
                },
            3 => {
                malformed.push("uniclosekeys longer than prev_outs");
                ucks.push(None);
            }
            4 => {
                malformed.push("version 1");
                version = Version::ONE;
            }
            5 => {
                malformed.push("an input without prev_out");
                txins.push(TxIn {
                    previous_output: OutPoint { txid: Txid::all_zeros(), vout: 7 },
                    script_sig: ScriptBuf::new(),
                    sequence: Sequence::ZERO,
                    witness: Witness::default(),
                });
            }
            _ => {
                malformed.push("oversized output script");
                drafts.push(Draft { class: "unknown", value: 0, script: big_script(33_000), opath: path_of(&[]), plan: None });
            }
        }
    }

    let mut tx = Transaction {
        version,
        lock_time: LockTime::ZERO,
        input: txins,
        output: drafts.iter().map(|d| TxOut { value: Amount::from_sat(d.value), script_pubkey: d.script.clone() }).collect(),
    };
    // size boundary: pad one filler output so that base_size lands on the limit or one above
    if with_malformed && malformed.contains(&"oversized output script") && rng.chance(2, 3) {
        let target = MAX_ONCHAIN_TX_SIZE as i64 + if rng.chance(1, 2) { 0 } else { 1 };
        let last = tx.output.len() - 1;
        let cur = tx.base_size() as i64;
        let len = (33_000 + target - cur) as usize;
        tx.output[last].script_pubkey = big_script(len);
        drafts[last].script = big_script(len);
        debug_assert_eq!(tx.base_size() as i64, target);
    }
    let txid = tx.compute_txid();

    // ---- allowlist, then channels (the funding outpoint needs the txid)
    let mut adds: Vec<String> = vec![];
    for s in &refw.allow_scripts {
        adds.push(Address::from_script(s, NETWORK).expect("address").to_string());
    }
    for x in &refw.xpubs {
        adds.push(format!("xpub:{}", x));
    }
    node.add_allowlist(&adds).expect("add_allowlist");

    let mut chan_facts: Vec<Option<ChanFacts>> = vec![None; drafts.len()];
    let mut chan_ids = vec![None; drafts.len()];
    for (vout, d) in drafts.iter().enumerate() {
        let k = match d.plan {
            Some(k) => k,
            None => continue,
        };
        let pl = &mut plans[k];
        let real_vout = if pl.mode == 4 { vout as u32 + 7 } else { vout as u32 };
        pl.ctx.setup.funding_outpoint = OutPoint { txid, vout: real_vout };
        let r = catch_unwind(AssertUnwindSafe(|| funding_tx_setup_channel(&node_ctx, &mut pl.ctx, &tx, real_vout)));
        let ready = matches!(r, Ok(None));
        if !ready {
            continue; // still a stub: invisible to find_channel_with_funding_outpoint
        }
        if pl.holder == 0 {
            let _ = catch_unwind(AssertUnwindSafe(|| {
                let mut cctx = channel_initial_holder_commitment(&node_ctx, &pl.ctx);
                let (csig, hsigs) = counterparty_sign_holder_commitment(&node_ctx, &pl.ctx, &mut cctx);
                validate_holder_commitment(&node_ctx, &pl.ctx, &cctx, &csig, &hsigs)
            }));
            if clean {
                // the commitment policy (fee range) may have refused the test commitment: count it as validated
                node.with_channel(&pl.ctx.channel_id, |chan| {
                    if chan.enforcement_state.next_holder_commit_num != 1 {
                        chan.enforcement_state.set_next_holder_commit_num_for_testing(1);
                    }
                    Ok(())
                })
                .expect("channel");
            }
        } else {
            let n = pl.holder - 1;
            node.with_channel(&pl.ctx.channel_id, |chan| {
                chan.enforcement_state.set_next_holder_commit_num_for_testing(n);
                Ok(())
            })
            .expect("channel");
        }
        if pl.mode == 4 {
            continue;
        }
        let next_holder = node
            .with_channel(&pl.ctx.channel_id, |chan| Ok(chan.enforcement_state.next_holder_commit_num))
            .expect("channel");
        chan_facts[vout] = Some(ChanFacts {
            value: pl.ctx.setup.channel_value_sat,
            script_ok: d.script == pl.funding,
            next_holder,
            outbound: pl.ctx.setup.is_outbound,
            push_msat: pl.ctx.setup.push_value_msat,
        });
        chan_ids[vout] = Some(pl.ctx.channel_id.clone());
    }

    let mut outs: Vec<OutSpec> = vec![];
    let mut opaths: Vec<DerivationPath> = vec![];
    for (vout, d) in drafts.iter().enumerate() {
        let has_path = opaths_cut.map(|c| vout < c).unwrap_or(true);
        if has_path {
            opaths.push(d.opath.clone());
        }
        outs.push(OutSpec {
            class: d.class,
            value: d.value,
            script: d.script.clone(),
            opath: if has_path { Some(d.opath.clone()) } else { None },
            can_spend: refw.can_spend(&d.opath, &d.script),
            allow_path: refw.allow(&d.script, &d.opath),
            allow_script: refw.allow(&d.script, &path_of(&[])) == Some(true),
            chan: chan_facts[vout].clone(),
        });
    }
    let prev_outs: Vec<TxOut> = ins.iter().map(|i| TxOut { value: Amount::ZERO, script_pubkey: i.script.clone() }).collect();
    Built { world, node, pol, refw, tx, ins, prev_outs, ucks, flags, outs, opaths, chan_ids, malformed }
}

// ------------------------------------------------------------------ reference arithmetic (u128)

/// what the property counts as coming back for an output, by construction
fn counted(o: &OutSpec) -> u128 {
    match &o.opath {
        None => 0,
        Some(p) if p.len() > 0 =>
            if o.can_spend == Some(true) || (o.can_spend == Some(false) && o.allow_path == Some(true)) {
                o.value as u128
            } else {
                0
            },
        Some(_) =>
            if o.allow_script {
                o.value as u128
            } else if let Some(c) = &o.chan {
                (c.value as u128).saturating_sub(c.push_msat as u128 / 1000)
            } else {
                0
            },
    }
}
fn is_unknown(o: &OutSpec) -> bool {
    matches!(&o.opath, Some(p) if p.len() == 0) && !o.allow_script && o.chan.is_none()
}
fn funds_channel(o: &OutSpec) -> bool {
    matches!(&o.opath, Some(p) if p.len() == 0) && !o.allow_script && o.chan.is_some()
}

/// the weight lower bound: the unsigned transaction plus, per input the node may sign, a witness
/// of signature and key (or the unilateral-close stack)
fn ref_weight(b: &Built) -> Option<u128> {
    let mut w = b.tx.weight().to_wu() as u128;
    for (idx, u) in b.ucks.iter().enumerate() {
        let i = b.ins.get(idx)?;
        if i.spend_valid {
            w += 2 + 1 + 1 + 72 + 1 + uck_len(u).map(|l| l as u128).unwrap_or(33);
        }
    }
    Some(w)
}

/// largest non-beneficial value whose rate is within max_feerate for weight w
fn fee_bound(max_feerate: u32, w: u128) -> u128 {
    ((max_feerate as u128 + 1) * w).saturating_sub(1000) / 1000
}

fn choose_input_values(rng: &mut Rng, n_in: usize, sum_counted: u128, w: u128, pol: &Pol) -> Vec<u64> {
    if n_in == 0 {
        return vec![];
    }
    let fb = fee_bound(pol.max_feerate, w.max(1));
    let lim_sat = (pol.vel_limit / 1000) as u128;
    let fee: i128 = match rng.below(24) {
        0 => 0,
        1 => 1,
        2 => fb as i128 - 1,
        3 | 4 => fb as i128,
        5 | 6 => fb as i128 + 1,
        7 => (2 * fb + 7) as i128,
        8 => lim_sat as i128 - 1,
        9 => lim_sat as i128,
        10 => lim_sat as i128 + 1,
        11 => (((1u128 << 32) + 200 + rng.below(1000) as u128) * w + 999) as i128 / 1000, // read as a few hundred per kw when truncated to u32
        12 => (U64MAX / 1000) as i128,
        13 => (U64MAX / 1000) as i128 + 1,
        14 => -1,
        15 => (lim_sat / 2 + 1) as i128,
        _ => rng.below((fb.min(60_000) + 1) as u64) as i128,
    };
    let mut total: i128 = sum_counted as i128 + fee;
    if total < 0 {
        total = 0;
    }
    let mut vals = vec![0u64; n_in];
    if rng.chance(1, 30) {
        // overflow candidates: the sum of the inputs passes 2^64
        for v in vals.iter_mut() {
            *v = *rng.pick(&[U64MAX, 1 << 63, (1 << 63) + 1, U64MAX / 2]);
        }
        return vals;
    }
    let mut rest = total as u128;
    for k in 0..n_in - 1 {
        let part = if rest == 0 { 0 } else { (rng.below(1000) as u128 * rest / 2000).min(U64MAX as u128) };
        vals[k] = part as u64;
        rest -= part;
    }
    vals[n_in - 1] = rest.min(U64MAX as u128) as u64;
    vals
}

/// the property, computed from the description of the case; returns the violated conjuncts whose tag
/// the filter does not downgrade
fn reference_violations(
    pol: &Pol,
    outs: &[OutSpec],
    values: &[u64],
    flags: &[bool],
    n_txin: usize,
    w: u128,
    version_two: bool,
    base_size: u128,
    nbv_reported: Option<u64>,
    // the verdict rests on an explicit approval of the unknown destinations: that waives the unknown
    // outputs themselves and the accounting of what leaves (inputs, fee rate), nothing else
    approved_unknown: bool,
) -> Vec<String> {
    let mut v: Vec<(String, &str)> = vec![];
    let sin: u128 = values.iter().map(|x| *x as u128).sum();
    let sc: u128 = outs.iter().map(counted).sum();
    if !version_two {
        v.push(("version is not 2".into(), TAGS[0]));
    }
    if base_size > MAX_ONCHAIN_TX_SIZE {
        v.push(("transaction above MAX_ONCHAIN_TX_SIZE".into(), TAGS[1]));
    }
    for (i, o) in outs.iter().enumerate() {
        match &o.opath {
            None => v.push((format!("output[{}] has no path entry", i), "")),
            Some(p) if p.len() > 0 => {
                let ok = o.can_spend == Some(true) || (o.can_spend == Some(false) && o.allow_path == Some(true));
                if !ok {
                    let tag = if o.can_spend.is_none() || o.allow_path.is_none() { "" } else { TAGS[4] };
                    v.push((format!("output[{}] carries a wallet path but is neither spendable by the wallet nor allowlisted", i), tag));
                }
            }
            Some(_) => {
                if is_unknown(o) && !approved_unknown {
                    v.push((format!("output[{}] goes to an unknown destination", i), ""));
                }
                if funds_channel(o) {
                    let c = o.chan.as_ref().unwrap();
                    if o.value != c.value {
                        v.push((format!("output[{}] funds a channel with {} instead of its value {}", i, o.value, c.value), TAGS[5]));
                    }
                    if !c.script_ok {
                        v.push((format!("output[{}] funds a channel but does not pay to its funding script", i), TAGS[3]));
                    }
                    if c.next_holder != 1 {
                        v.push((format!("output[{}] funds a channel with next_holder_commit_num {}", i, c.next_holder), TAGS[6]));
                    }
                    if !c.outbound {
                        v.push((format!("output[{}] funds an inbound channel", i), TAGS[7]));
                    }
                    if c.push_msat / 1000 > 0 {
                        v.push((format!("output[{}] funds a channel that pushes {} msat", i, c.push_msat), TAGS[8]));
                    }
                    if (c.push_msat / 1000) as u128 > c.value as u128 {
                        v.push((format!("output[{}]: push above the channel value", i), ""));
                    }
                }
            }
        }
    }
    if outs.iter().any(|o| o.chan.is_some()) {
        if flags.len() != n_txin {
            v.push(("segwit flags do not cover the inputs of a funding transaction".into(), ""));
        } else if !flags.iter().all(|f| *f) {
            v.push(("a channel is funded with a non-segwit input".into(), TAGS[2]));
        }
    }
    if sc > U64MAX as u128 {
        v.push(("sum of the beneficial outputs above u64".into(), ""));
    }
    if approved_unknown {
        // what goes to the approved destinations is the approver's business
    } else if sin > U64MAX as u128 {
        v.push(("sum of the inputs above u64".into(), ""));
    } else if sc > sin {
        v.push(("beneficial outputs exceed the inputs".into(), ""));
    } else {
        let nbv = sin - sc;
        if let Some(r) = nbv_reported {
            if r as u128 != nbv {
                v.push((format!("reported non-beneficial value {} is not inputs - beneficial = {}", r, nbv), ""));
            }
        }
        if w == 0 {
            v.push(("zero weight".into(), ""));
        } else if pol.max_feerate != U32MAX && !pol.disable_beneficial && nbv * 1000 + 999 >= (pol.max_feerate as u128 + 1) * w {
            v.push((format!("non-beneficial value {} above the fee at max_feerate_per_kw {} for weight {}", nbv, pol.max_feerate, w), TAGS[9]));
        }
    }
    v.into_iter().filter(|(_, tag)| tag.is_empty() || !ref_warned(&pol.rules, tag)).map(|(m, _)| m).collect()
}

/// sliding-window monitor over the approvals of one node
fn window_violation(log: &[(u64, u128)], limit: u64, interval: u64, nb: u64) -> Option<(u64, u64, u128)> {
    let len = interval * (nb - 1);
    for (i, (t0, _)) in log.iter().enumerate() {
        let mut sum: u128 = 0;
        for (t, a) in &log[i..] {
            if *t >= *t0 && (*t as u128) < *t0 as u128 + len as u128 {
                sum += *a;
            }
        }
        if sum > limit as u128 {
            return Some((*t0, len, sum));
        }
    }
    None
}

// ------------------------------------------------------------------ JSON description

fn out_json(o: &OutSpec) -> Value {
    let h = hex::encode(o.script.as_bytes());
    let script_hex = if h.len() > 140 { format!("{}..({} bytes)", &h[..40], o.script.len()) } else { h };
    json!({"class": o.class, "value_sat": o.value,
           "opath": o.opath.as_ref().map(|p| p.to_string()),
           "script_pubkey": script_hex,
           "wallet_can_spend": o.can_spend, "allowlisted_with_path": o.allow_path, "allowlisted_script": o.allow_script,
           "channel": o.chan.as_ref().map(|c| json!({"channel_value_sat": c.value, "pays_to_funding_script": c.script_ok,
                "next_holder_commit_num": c.next_holder, "is_outbound": c.outbound, "push_value_msat": c.push_msat}))})
}
fn pol_json(p: &Pol) -> Value {
    json!({"max_feerate_per_kw": p.max_feerate, "disable_beneficial_balance_checks": p.disable_beneficial,
           "filter_rules(tag,is_prefix,warn)": p.rules,
           "fee_velocity": (["hourly", "daily", "unlimited"][p.vel_kind as usize]), "fee_velocity_limit_msat": p.vel_limit})
}
fn tx_json(b: &Built, values: &[u64]) -> Value {
    json!({
        "version": b.tx.version.0, "base_size": b.tx.base_size(), "weight": b.tx.weight().to_wu(),
        "n_tx_inputs": b.tx.input.len(), "segwit_flags": b.flags,
        "inputs": b.ins.iter().zip(values.iter()).enumerate().map(|(k, (i, v))| json!({"kind": i.kind, "value_sat": v,
            "uniclose_stack_len": b.ucks.get(k).and_then(|u| uck_len(u))})).collect::<Vec<_>>(),
        "n_uniclosekeys": b.ucks.len(),
        "outputs": b.outs.iter().map(out_json).collect::<Vec<_>>(),
        "allowlist": {"scripts": b.refw.allow_scripts.len(), "xpubs": b.refw.xpubs.iter().map(|x| x.to_string()).collect::<Vec<_>>()},
        "malformed": b.malformed,
    })
}

fn coq_nodecase(b: &Built, values: &[u64]) -> String {
    let prevs: Vec<String> =
        b.ins.iter().zip(values.iter()).map(|(i, v)| format!("mkIn {} {}", v, coq_bool(i.spend_valid))).collect();
    let ucks: Vec<String> = b
        .ucks
        .iter()
        .map(|u| match uck_len(u) {
            Some(l) => format!("Some {}", l),
            None => "None".to_string(),
        })
        .collect();
    format!(
        "(mkNode {} {} {} {} {} {} {} {})",
        coq_bool(b.tx.version == Version::TWO),
        b.tx.base_size(),
        b.tx.weight().to_wu(),
        b.tx.input.len(),
        coq_flags(&b.flags),
        coq_list(&prevs),
        coq_list(&ucks),
        coq_list(&b.outs.iter().map(coq_out).collect::<Vec<_>>())
    )
}

// ------------------------------------------------------------------ node domain

struct StepObs {
    coq: String,
    json: Value,
    check_code: u64,
    handle_code: u64,
    monitor: Vec<String>,
    poisoned: bool,
}

/// C10: what a refused request may not touch — the node as fingerprint_full sees it and every entry of the store
struct Snap {
    fp: Vec<(String, String)>,
    store: Vec<(String, u64, String)>,
    fee: VelocityControl,
}
fn snap(world: &World, node: &Arc<Node>) -> Snap {
    Snap { fp: fingerprint_full(node), store: store_dump(&world.persister), fee: node.get_state().fee_velocity_control.clone() }
}
/// the time-only part of VelocityControl::insert: a refused insert leaves the buckets rotated to `now`,
/// which is the same control seen at a later time, not a change
fn rotated(c: &VelocityControl, now: u64) -> VelocityControl {
    let mut r = c.clone();
    let len = r.buckets.len();
    let nshift = (((now.saturating_sub(r.start_sec)) / r.bucket_interval as u64) as usize).min(len);
    r.buckets.truncate(len - nshift);
    for _ in 0..nshift {
        r.buckets.insert(0, 0);
    }
    r.start_sec = now - now % r.bucket_interval as u64;
    r
}
fn same_control(a: &VelocityControl, b: &VelocityControl) -> bool {
    a.start_sec == b.start_sec && a.bucket_interval == b.bucket_interval && a.buckets == b.buckets && a.limit == b.limit
}
/// differences a refused request left behind ("C10: ..."), None when there are none
fn c10_diff(world: &World, node: &Arc<Node>, before: &Snap, now: u64, what: &str) -> Option<String> {
    let after = snap(world, node);
    let mut d = fingerprint_diff(&before.fp, &after.fp);
    if same_control(&after.fee, &rotated(&before.fee, now)) {
        d.retain(|x| x != "fee_velocity differs");
    }
    // a request that is check + sign (the SignWithdrawal handler) and is refused at signing has had its fee counted
    // by the check: the control in memory over-counts (nothing is stored).  Kept apart as an observation: it errs
    // on the refusing side and a restart forgets it.
    let mut note = None;
    if d.iter().any(|x| x == "fee_velocity differs") {
        let r = rotated(&before.fee, now);
        let only_current_grew = after.fee.start_sec == r.start_sec
            && after.fee.limit == r.limit
            && after.fee.buckets.len() == r.buckets.len()
            && !r.buckets.is_empty()
            && after.fee.buckets[0] >= r.buckets[0]
            && after.fee.buckets[1..] == r.buckets[1..];
        if only_current_grew {
            d.retain(|x| x != "fee_velocity differs");
            note = Some(format!(
                "C10-note: refused {} left its fee counted in the fee velocity control in memory ({} -> {} msat in the current bucket), nothing stored",
                what, r.buckets[0], after.fee.buckets[0]
            ));
        }
    }
    d.extend(store_diff(&before.store, &after.store));
    if d.is_empty() {
        note
    } else {
        Some(format!("C10: refused {} changed: {}", what, d.join("; ")))
    }
}

fn fee_control(node: &Arc<Node>) -> VelocityControl {
    node.get_state().fee_velocity_control.clone()
}

/// one step on a live node: check_onchain_tx, then handle_proposed_onchain, then signing
fn node_step(b: &Built, node: &Arc<Node>, values: &[u64], now: u64, answer: bool, log: &mut Vec<(u64, u128)>, stats: &mut Stats) -> StepObs {
    let prev_outs: Vec<TxOut> =
        b.prev_outs.iter().zip(values.iter()).map(|(o, v)| TxOut { value: Amount::from_sat(*v), script_pubkey: o.script_pubkey.clone() }).collect();
    b.world.clock.set(Duration::from_secs(now));
    let c0 = fee_control(node);
    // what a restart would already change before this request (this domain forces some channel
    // states in memory when it prepares a case, and an earlier check that was not followed by a
    // signature leaves its fee in memory only): not this request's doing.  The request is the
    // pair check + sign, as in the SignWithdrawal handler, so the gap is taken before the check.
    let pre_gap: Vec<String> = {
        let shadow = b.world.restart(&node.get_id());
        fingerprint_diff(&fingerprint(node), &fingerprint(&shadow))
    };
    // C10 is stated for the default filter (a downgraded tag lets a request carry on past its refusal)
    let c10_on = b.pol.rules.is_empty();
    let mut c10: Vec<String> = vec![];
    let s1 = if c10_on { Some(snap(&b.world, node)) } else { None };
    let r1 = catch_unwind(AssertUnwindSafe(|| node.check_onchain_tx(&b.tx, &b.flags, &prev_outs, &b.ucks, &b.opaths)));
    let (code1, idx1) = match &r1 {
        Err(_) => (1u64, vec![]),
        Ok(Ok(())) => (0, vec![]),
        Ok(Err(ve)) => err_obs(ve),
    };
    let poisoned = r1.is_err();
    if let (Some(s1), Ok(Err(_))) = (&s1, &r1) {
        stats.c10_checked += 1;
        c10.extend(c10_diff(&b.world, node, s1, now, &format!("Node::check_onchain_tx (code {})", code1)));
    }
    let s2 = if c10_on && !poisoned { Some(snap(&b.world, node)) } else { None };
    let c1 = if poisoned { c0.clone() } else { fee_control(node) };
    let approver = RecordingApprover { answer, asked: Mutex::new(vec![]) };
    let r2 = catch_unwind(AssertUnwindSafe(|| approver.handle_proposed_onchain(node, &b.tx, &b.flags, &prev_outs, &b.ucks, &b.opaths)));
    let hcode = match &r2 {
        Err(_) => 3u64,
        Ok(Ok(true)) => 0,
        Ok(Ok(false)) => 1,
        Ok(Err(_)) => 2,
    };
    let asked = approver.asked.lock().unwrap().clone();
    if let (Some(s2), true) = (&s2, matches!(r2, Ok(Err(_)) | Ok(Ok(false)))) {
        stats.c10_checked += 1;
        c10.extend(c10_diff(&b.world, node, s2, now, &format!("Approve::handle_proposed_onchain (code {})", hcode)));
    }
    let c2 = if poisoned || r2.is_err() { c1.clone() } else { fee_control(node) };
    let asked_coq = match asked.first() {
        Some(ix) => format!("(Some {})", coq_nlist(&ix.iter().map(|i| *i as u64).collect::<Vec<_>>())),
        None => "None".to_string(),
    };

    // ---- the property itself, on the implementation's answers
    let mut monitor: Vec<String> = vec![];
    let w = ref_weight(b);
    let sin: u128 = values.iter().map(|x| *x as u128).sum();
    let sc: u128 = b.outs.iter().map(counted).sum();
    let unknown_ref: Vec<u64> = b.outs.iter().enumerate().filter(|(_, o)| is_unknown(o)).map(|(i, _)| i as u64).collect();
    let accepted = |monitor: &mut Vec<String>, before: &VelocityControl, after: &VelocityControl, which: &str| {
        match w {
            None => monitor.push(format!("{}: accepted although uniclosekeys outruns prev_outs", which)),
            Some(w) => {
                for m in reference_violations(&b.pol, &b.outs, values, &b.flags, b.tx.input.len(), w, b.tx.version == Version::TWO, b.tx.base_size() as u128, None, false) {
                    monitor.push(format!("{}: accepted although {}", which, m));
                }
            }
        }
        if sc <= sin && !ref_warned(&b.pol.rules, TAGS[9]) {
            let msat = (sin - sc) * 1000;
            // the control must have counted it
            let tot = |c: &VelocityControl| c.buckets.iter().map(|x| *x as u128).sum::<u128>();
            let configured = if b.pol.vel_kind == 2 { U64MAX } else { b.pol.vel_limit };
            if configured != U64MAX && tot(after) > configured as u128 {
                monitor.push(format!("{}: fee velocity control holds {} above the configured limit {}", which, tot(after), configured));
            }
            let (ivl, nb) = vel_shape(&b.pol);
            if after.limit != configured || after.bucket_interval as u64 != ivl || after.buckets.len() as u64 != nb {
                monitor.push(format!(
                    "{}: the fee velocity control runs with limit {} / {} buckets of {} s, configured is limit {} / {} buckets of {} s",
                    which, after.limit, after.buckets.len(), after.bucket_interval, configured, nb, ivl
                ));
            }
            if msat > 0 && after.buckets.first().map(|x| (*x as u128) < msat.min(U64MAX as u128)).unwrap_or(true) {
                monitor.push(format!("{}: accepted {} msat but the current bucket holds {:?}", which, msat, after.buckets.first()));
            }
            let _ = before;
        }
    };
    if code1 == 0 {
        accepted(&mut monitor, &c0, &c1, "check_onchain_tx");
    }
    if code1 == 2 && idx1 != unknown_ref {
        monitor.push(format!("check_onchain_tx reported unknown outputs {:?}, the unclassified outputs are {:?}", idx1, unknown_ref));
    }
    if hcode == 0 {
        match asked.first() {
            None => accepted(&mut monitor, &c1, &c2, "handle_proposed_onchain"),
            Some(ix) => {
                let ix: Vec<u64> = ix.iter().map(|i| *i as u64).collect();
                if ix != unknown_ref || unknown_ref.is_empty() {
                    monitor.push(format!("approval was asked for outputs {:?}, the unclassified outputs are {:?}", ix, unknown_ref));
                }
                if !answer {
                    monitor.push("approved although the approver said no".into());
                }
                // the final verdict: signable on the approver's word.  Everything the approval cannot waive
                // must hold for it: format, size, segwit inputs when a channel is funded, every other output
                // returned / allowlisted / into a validated channel, no overflow of what is counted
                match w {
                    None => monitor.push("handle_proposed_onchain: approved although uniclosekeys outruns prev_outs".into()),
                    Some(w) => {
                        for m in reference_violations(&b.pol, &b.outs, values, &b.flags, b.tx.input.len(), w, b.tx.version == Version::TWO, b.tx.base_size() as u128, None, true) {
                            monitor.push(format!("handle_proposed_onchain: signable after approval of the unknown outputs {:?} although {}", ix, m));
                        }
                    }
                }
            }
        }
    }
    if hcode == 1 && (asked.is_empty() || answer) {
        monitor.push("rejected without a refusing approver".into());
    }
    if !unknown_ref.is_empty() && hcode == 0 && asked.is_empty() {
        monitor.push(format!("outputs {:?} are unclassified but the transaction passed without asking", unknown_ref));
    }

    // ---- signing persists the node entry (the fee counted by the check must survive a restart)
    let mut signed = Value::Null;
    if hcode == 0 && !poisoned && b.malformed.is_empty() && b.ins.iter().all(|i| i.signable) {
        let ipaths: Vec<DerivationPath> = b.ins.iter().map(|i| i.ipath.clone()).collect();
        let s3 = if c10_on { Some(snap(&b.world, node)) } else { None };
        let r = catch_unwind(AssertUnwindSafe(|| node.unchecked_sign_onchain_tx(&b.tx, &ipaths, &prev_outs, b.ucks.clone())));
        if let (Some(s3), Ok(Err(e))) = (&s3, &r) {
            stats.c10_checked += 1;
            stats.c10_sign_refusals_funding += b.outs.iter().any(funds_channel) as u64;
            c10.extend(c10_diff(&b.world, node, s3, now, &format!("Node::unchecked_sign_onchain_tx after an accepted check ({:?})", e.message())));
        }
        monitor.extend(c10.drain(..));
        match r {
            Ok(Ok(wit)) => {
                stats.signed += 1;
                // a signature was released on the strength of the check: this is a fee that counts
                if asked.is_empty() && sc <= sin && !ref_warned(&b.pol.rules, TAGS[9]) {
                    log.push((now, (sin - sc) * 1000));
                }
                let mem = fee_control(node);
                let nodes = b.world.persister.get_nodes().expect("get_nodes");
                let e = nodes.into_iter().find(|(id, _)| *id == node.get_id()).unwrap().1;
                let disk = e.state.fee_velocity_control;
                let same = mem.start_sec == disk.start_sec && mem.buckets == disk.buckets && mem.limit == disk.limit;
                if !same {
                    monitor.push(format!("signed, but the persisted fee control {:?} differs from the one in memory {:?}", disk.buckets, mem.buckets));
                }
                signed = json!({"witness_stacks": wit.len(), "persisted_equals_memory": same});
                // C11 (reported under that property, not under C08): a signer restored from the
                // store right after the signature has the same channels, tracker and node state
                let shadow = b.world.restart(&node.get_id());
                let d: Vec<String> =
                    fingerprint_diff(&fingerprint(node), &fingerprint(&shadow)).into_iter().filter(|x| !pre_gap.contains(x)).collect();
                if !d.is_empty() {
                    monitor.push(format!("C11: after check_onchain_tx + unchecked_sign_onchain_tx (Ok) a restart would differ: {}", d.join("; ")));
                }
            }
            Ok(Err(_)) => stats.sign_refused += 1,
            Err(_) => {
                stats.sign_panicked += 1;
                return StepObs {
                    coq: String::new(),
                    json: json!({"now": now, "note": "unchecked_sign_onchain_tx panicked; step not compared"}),
                    check_code: code1,
                    handle_code: hcode,
                    monitor,
                    poisoned: true,
                };
            }
        }
    }

    monitor.extend(c10.drain(..));
    let coq = format!(
        "(({}, {}, {}), ({}, {}, {}, {}), (({}, {}), {}, ({}, {}), {}))",
        profile_name(),
        coq_rules(&b.pol.rules),
        coq_pol(&b.pol),
        vc_obs(&c0),
        now,
        coq_nodecase(b, values),
        coq_bool(answer),
        code1,
        coq_nlist(&idx1),
        vc_obs(&c1),
        hcode,
        asked_coq,
        vc_obs(&c2)
    );
    let json = json!({"now": now, "input_values_sat": values, "approver_answers": answer,
        "fee_control_before": vc_json(&c0),
        "check_onchain_tx": {"code(0 ok,1 panic,2 unknown,100+tag)": code1, "unknown_indices": idx1, "fee_control_after": vc_json(&c1)},
        "handle_proposed_onchain": {"code(0 approved,1 rejected,2 failed,3 panic)": hcode, "asked_about": asked, "fee_control_after": vc_json(&c2)},
        "signed": signed,
        "reference": {"weight_lower_bound": w.map(|x| x.to_string()), "sum_inputs": sin.to_string(), "sum_beneficial": sc.to_string(),
                      "unclassified_outputs": unknown_ref}});
    StepObs { coq, json, check_code: code1, handle_code: hcode, monitor, poisoned: poisoned || r2.is_err() }
}

#[derive(Default)]
struct Stats {
    steps: u64,
    check_codes: std::collections::BTreeMap<u64, u64>,
    handle_codes: std::collections::BTreeMap<u64, u64>,
    classes: std::collections::BTreeMap<&'static str, u64>,
    input_kinds: std::collections::BTreeMap<&'static str, u64>,
    channels_funded: std::collections::BTreeMap<usize, u64>,
    accepted_with_channels: u64,
    accepted_with_two_or_more_channels: u64,
    signed: u64,
    sign_refused: u64,
    sign_panicked: u64,
    restarts: u64,
    c10_checked: u64,
    c10_sign_refusals_funding: u64,
    allowlist_ops: u64,
    monitor_failures: u64,
    malformed: u64,
}

/// the witness against `non_beneficial_sat * 1000` in plain u64: no effective rate bound, one input worth
/// ceil(2^64 / 1000) sat, no outputs, hourly fee limit 10 000 000 msat
fn witness_domain(_args: &Args) {
    let pol = Pol { max_feerate: U32MAX, disable_beneficial: false, rules: vec![], vel_kind: 0, vel_limit: 10_000_000 };
    let mut seed = [0u8; 32];
    seed[1] = 0xc8;
    let world = World::new(real_policy(&pol), seed, KeyDerivationStyle::Native);
    let node = world.new_node();
    let refw = RefWallet { secp: Secp256k1::new(), account: node.get_account_extended_key().clone(), allow_scripts: vec![], xpubs: vec![] };
    let tx = Transaction {
        version: Version::TWO,
        lock_time: LockTime::ZERO,
        input: vec![TxIn {
            previous_output: OutPoint { txid: Txid::all_zeros(), vout: 0 },
            script_sig: ScriptBuf::new(),
            sequence: Sequence::ZERO,
            witness: Witness::default(),
        }],
        output: vec![],
    };
    let ins = vec![InSpec { kind: "foreign-empty-script", value: 0, script: ScriptBuf::new(), spend_valid: false, ipath: path_of(&[]), signable: true }];
    let b = Built {
        world,
        node: node.clone(),
        pol,
        refw,
        tx,
        prev_outs: vec![TxOut { value: Amount::ZERO, script_pubkey: ScriptBuf::new() }],
        ins,
        ucks: vec![None],
        flags: vec![],
        outs: vec![],
        opaths: vec![],
        chan_ids: vec![],
        malformed: vec![],
    };
    let mut log = vec![];
    let mut stats = Stats::default();
    let values = vec![U64MAX / 1000 + 1];
    let st = node_step(&b, &node, &values, 161_398, false, &mut log, &mut stats);
    let mut monitor: Vec<String> = st.monitor.iter().filter(|m| !m.starts_with("C10") && !m.starts_with("C11:")).cloned().collect();
    if let Some((t0, len, sum)) = window_violation(&log, b.pol.vel_limit, 300, 12) {
        monitor.push(format!("accepted non-beneficial values in the window [{}, {}+{}) sum to {} msat, above the fee velocity limit {}", t0, t0, len, sum, b.pol.vel_limit));
    }
    emit(
        "CASE",
        json!({"id": 0, "kind": "witness", "policy": pol_json(&b.pol), "transaction": tx_json(&b, &values), "steps": [st.json],
               "n_funded": 0, "accepted": st.check_code == 0, "monitor_violation": monitor, "coq": [st.coq]}),
    );
}

// ------------------------------------------------------------------ the operator's allowlist

fn allow_entry_script(s: &ScriptBuf) -> String {
    Address::from_script(s, NETWORK).expect("address").to_string()
}
fn allow_entry_xpub(x: &Xpub) -> String {
    format!("xpub:{}", x)
}

/// One operation on the allowlist through the node's real entry points.  `refw` is the harness's own record
/// of what the operator's list is: it follows the meaning of the operation (add = union, remove = difference,
/// set = exactly the given list) whenever the node accepted it, and is never read back from the node.
fn mutate_allowlist(rng: &mut Rng, node: &Arc<Node>, refw: &mut RefWallet, in_use: &[ScriptBuf]) -> Value {
    let secp = Secp256k1::new();
    let fresh_script = |rng: &mut Rng, refw: &RefWallet| refw.script_of(&refw.wallet_key(&path_of(&[12_000 + rng.below(500) as u32])), rng.below(3));
    let fresh_xpub = |rng: &mut Rng| {
        let s = rng.bytes32();
        Xpub::from_priv(&secp, &Xpriv::new_master(NETWORK, &s).unwrap())
    };
    // what the operation names
    let mut scripts: Vec<ScriptBuf> = vec![];
    let mut xpubs: Vec<Xpub> = vec![];
    let listed_in_use: Vec<ScriptBuf> = in_use.iter().filter(|s| refw.allow_scripts.contains(s)).cloned().collect();
    let op = match rng.below(12) {
        0..=3 => "set-empty",
        4 | 5 => "remove",
        6 => "remove-all",
        7 | 8 => "set",
        9 => "set-same",
        _ => "add",
    };
    match op {
        "set-empty" => {}
        "remove" => {
            // preferably a destination the next spend pays to
            if !listed_in_use.is_empty() && rng.chance(3, 4) {
                scripts.push(rng.pick(&listed_in_use).clone());
            } else if !refw.allow_scripts.is_empty() {
                scripts.push(rng.pick(&refw.allow_scripts).clone());
            }
            if !refw.xpubs.is_empty() && rng.chance(1, 2) {
                xpubs.push(*rng.pick(&refw.xpubs));
            }
        }
        "remove-all" | "set-same" => {
            scripts = refw.allow_scripts.clone();
            xpubs = refw.xpubs.clone();
        }
        "set" => {
            for s in &refw.allow_scripts {
                if rng.chance(1, 2) {
                    scripts.push(s.clone());
                }
            }
            for x in &refw.xpubs {
                if rng.chance(1, 2) {
                    xpubs.push(*x);
                }
            }
            for _ in 0..rng.below(3) {
                scripts.push(fresh_script(rng, refw));
            }
            if rng.chance(1, 3) {
                xpubs.push(fresh_xpub(rng));
            }
        }
        _ => {
            for _ in 0..1 + rng.below(2) {
                scripts.push(fresh_script(rng, refw));
            }
            if rng.chance(1, 3) {
                xpubs.push(fresh_xpub(rng));
            }
        }
    }
    let mut entries: Vec<String> = scripts.iter().map(allow_entry_script).collect();
    entries.extend(xpubs.iter().map(allow_entry_xpub));
    let r = catch_unwind(AssertUnwindSafe(|| match op {
        "set-empty" | "set" | "set-same" => node.set_allowlist(&entries),
        "remove" | "remove-all" => node.remove_allowlist(&entries),
        _ => node.add_allowlist(&entries),
    }));
    let accepted = matches!(r, Ok(Ok(())));
    if accepted {
        match op {
            "set-empty" | "set" | "set-same" => {
                refw.allow_scripts = vec![];
                refw.xpubs = vec![];
                for s in scripts {
                    if !refw.allow_scripts.contains(&s) {
                        refw.allow_scripts.push(s);
                    }
                }
                for x in xpubs {
                    if !refw.xpubs.contains(&x) {
                        refw.xpubs.push(x);
                    }
                }
            }
            "remove" | "remove-all" => {
                refw.allow_scripts.retain(|s| !scripts.contains(s));
                refw.xpubs.retain(|x| !xpubs.contains(x));
            }
            _ => {
                for s in scripts {
                    if !refw.allow_scripts.contains(&s) {
                        refw.allow_scripts.push(s);
                    }
                }
                for x in xpubs {
                    if !refw.xpubs.contains(&x) {
                        refw.xpubs.push(x);
                    }
                }
            }
        }
    }
    json!({"allowlist_operation": match op { "set-empty" | "set" | "set-same" => "Node::set_allowlist", "remove" | "remove-all" => "Node::remove_allowlist", _ => "Node::add_allowlist" },
           "entries": entries, "accepted": accepted,
           "operator_list_afterwards": {"scripts": refw.allow_scripts.iter().map(allow_entry_script).collect::<Vec<_>>(), "xpubs": refw.xpubs.iter().map(|x| x.to_string()).collect::<Vec<_>>()}})
}

/// the allowlist answers of every output, from the harness's record of the operator's list
fn refresh_allow(outs: &mut [OutSpec], refw: &RefWallet) {
    for o in outs.iter_mut() {
        let path = o.opath.clone().unwrap_or_else(|| path_of(&[]));
        o.allow_path = refw.allow(&o.script, &path);
        o.allow_script = refw.allow(&o.script, &path_of(&[])) == Some(true);
    }
}

fn node_domain(args: &Args) {
    let mut rng = Rng::new(mix_seed(args.seed ^ 0xc08));
    let mut stats = Stats::default();
    for case in 0..args.n {
        let malformed = rng.chance(1, 8);
        let mut b = build(&mut rng, case, malformed);
        if !b.malformed.is_empty() {
            stats.malformed += 1;
        }
        for o in &b.outs {
            *stats.classes.entry(o.class).or_insert(0) += 1;
        }
        for i in &b.ins {
            *stats.input_kinds.entry(i.kind).or_insert(0) += 1;
        }
        let n_funded = b.outs.iter().filter(|o| funds_channel(o)).count();
        *stats.channels_funded.entry(n_funded).or_insert(0) += 1;
        let (ivl, nb) = vel_shape(&b.pol);
        let w = ref_weight(&b).unwrap_or(1);
        let sc: u128 = b.outs.iter().map(counted).sum();
        let mut now = rng.below(1_000_000);
        let mut log: Vec<(u64, u128)> = vec![];
        let mut steps: Vec<StepObs> = vec![];
        let mut timeline: Vec<Value> = vec![];
        let mut n_steps = 1 + (rng.below(3) as usize).min(if rng.chance(1, 2) { 0 } else { 2 });
        if n_steps == 1 && b.outs.iter().any(|o| o.allow_script || o.allow_path == Some(true)) && rng.chance(2, 3) {
            n_steps = 2; // a spend, an edit of the allowlist, the spend again
        }
        let mut node = b.node.clone();
        for s in 0..n_steps {
            if s > 0 {
                now += match rng.below(6) {
                    0 | 1 => 0,
                    2 => ivl - 1,
                    3 => ivl,
                    4 => ivl * (nb - 1),
                    _ => rng.below(ivl * 2),
                };
            }
            let sc: u128 = b.outs.iter().map(counted).sum();
            let values = choose_input_values(&mut rng, b.ins.len(), sc, w, &b.pol);
            let answer = rng.chance(3, 5);
            let st = node_step(&b, &node, &values, now, answer, &mut log, &mut stats);
            timeline.push(json!({"spend": steps.len(), "check_code": st.check_code, "handle_code": st.handle_code}));
            stats.steps += 1;
            *stats.check_codes.entry(st.check_code).or_insert(0) += 1;
            *stats.handle_codes.entry(st.handle_code).or_insert(0) += 1;
            if st.check_code == 0 && n_funded > 0 {
                stats.accepted_with_channels += 1;
                if n_funded > 1 {
                    stats.accepted_with_two_or_more_channels += 1;
                }
            }
            let stop = st.poisoned;
            steps.push(st);
            if stop {
                break;
            }
            // the operator edits the allowlist between two requests
            if s + 1 < n_steps && rng.chance(1, 2) {
                let in_use: Vec<ScriptBuf> = b.outs.iter().map(|o| o.script.clone()).collect();
                for _ in 0..1 + rng.below(2) {
                    let ev = mutate_allowlist(&mut rng, &node, &mut b.refw, &in_use);
                    timeline.push(ev);
                    stats.allowlist_ops += 1;
                }
                refresh_allow(&mut b.outs, &b.refw);
            }
            // a restart from the store between two requests (channels and allowlist come back from it)
            if s + 1 < n_steps && rng.chance(1, 4) && b.outs.iter().all(|o| o.chan.is_none()) {
                node = b.world.restart(&node.get_id());
                b.node = node.clone();
                stats.restarts += 1;
                timeline.push(json!("restart from the store"));
            }
        }
        let all_mon: Vec<String> = steps.iter().flat_map(|s| s.monitor.clone()).collect();
        let c11: Vec<String> = all_mon.iter().filter(|m| m.starts_with("C11:")).cloned().collect();
        let c10: Vec<String> = all_mon.iter().filter(|m| m.starts_with("C10:")).cloned().collect();
        let c10_notes: Vec<String> = all_mon.iter().filter(|m| m.starts_with("C10-note:")).cloned().collect();
        let mut monitor: Vec<String> = all_mon.into_iter().filter(|m| !m.starts_with("C11:") && !m.starts_with("C10")).collect();
        if b.pol.vel_kind != 2 && !ref_warned(&b.pol.rules, TAGS[9]) {
            if let Some((t0, len, sum)) = window_violation(&log, b.pol.vel_limit, ivl, nb) {
                monitor.push(format!("accepted non-beneficial values in the window [{}, {}+{}) sum to {} msat, above the fee velocity limit {}", t0, t0, len, sum, b.pol.vel_limit));
            }
        }
        if !monitor.is_empty() {
            stats.monitor_failures += 1;
        }
        let coq: Vec<String> = steps.iter().filter(|s| !s.coq.is_empty()).map(|s| s.coq.clone()).collect();
        emit(
            "CASE",
            json!({"id": case, "kind": "node", "policy": pol_json(&b.pol), "transaction": tx_json(&b, &vec![0; b.ins.len()]),
                   "steps": steps.iter().map(|s| s.json.clone()).collect::<Vec<_>>(), "timeline": timeline,
                   "n_funded": n_funded, "accepted": steps.iter().any(|s| s.check_code == 0),
                   "monitor_violation": monitor, "c11_violations": c11, "c10_violations": c10, "c10_observations": c10_notes, "coq": coq}),
        );
    }
    emit(
        "STATS",
        json!({"kind": "node", "profile": profile_name(), "steps": stats.steps,
               "check_codes(0 ok,1 panic,2 unknown,100+tag)": stats.check_codes.iter().map(|(k, v)| (k.to_string(), *v)).collect::<std::collections::BTreeMap<_, _>>(),
               "handle_codes(0 approved,1 rejected,2 failed,3 panic)": stats.handle_codes.iter().map(|(k, v)| (k.to_string(), *v)).collect::<std::collections::BTreeMap<_, _>>(),
               "output_classes": stats.classes, "input_kinds": stats.input_kinds,
               "cases_by_channels_funded": stats.channels_funded.iter().map(|(k, v)| (k.to_string(), *v)).collect::<std::collections::BTreeMap<_, _>>(),
               "accepted_steps_with_channels": stats.accepted_with_channels,
               "accepted_steps_with_two_or_more_channels": stats.accepted_with_two_or_more_channels,
               "signed": stats.signed, "sign_refused": stats.sign_refused, "sign_panicked": stats.sign_panicked,
               "restarts": stats.restarts, "c10_refused_requests_checked": stats.c10_checked,
               "c10_signing_refusals_on_funding_transactions": stats.c10_sign_refusals_funding, "allowlist_operations": stats.allowlist_ops, "malformed_cases": stats.malformed, "monitor_failures": stats.monitor_failures}),
    );
}

// ------------------------------------------------------------------ validator domain

fn val_domain(args: &Args) {
    let mut rng = Rng::new(mix_seed(args.seed ^ 0xc08a));
    let mut codes: std::collections::BTreeMap<u64, u64> = Default::default();
    let mut monitor_failures = 0u64;
    for case in 0..args.n {
        let malformed = rng.chance(1, 6);
        let mut b = build(&mut rng, case + 100_000, malformed);
        // the validator takes what the node would compute; here they are free
        let w_ref = ref_weight(&b).unwrap_or(600);
        let w: u128 = match rng.below(14) {
            0 => 0,
            1 => 1,
            2 => (1u128 << 32) - 1,
            3 => 1u128 << 32,
            4 => 1u128 << 63,
            5 => U64MAX as u128,
            6 => 4,
            _ => w_ref,
        };
        let sc: u128 = b.outs.iter().map(counted).sum();
        let n_vals = if rng.chance(1, 10) { rng.below(5) as usize } else { b.ins.len() };
        let values = choose_input_values(&mut rng, n_vals, sc, w, &b.pol);
        if rng.chance(1, 10) {
            b.flags = (0..rng.below(5)).map(|_| rng.chance(3, 4)).collect();
        }
        let channels: Vec<Option<Arc<lightning_signer::prelude::Mutex<ChannelSlot>>>> =
            b.chan_ids.iter().map(|c| c.as_ref().map(|id| b.node.get_channel(id).expect("channel"))).collect();
        let validator = SimpleValidatorFactory::new_with_policy(real_policy(&b.pol)).make_validator(NETWORK, b.node.get_id(), None);
        let wallet: &dyn Wallet = &*b.node;
        let r = catch_unwind(AssertUnwindSafe(|| validator.validate_onchain_tx(wallet, channels, &b.tx, &b.flags, &values, &b.opaths, w as usize)));
        let (code, idx, nbv) = match &r {
            Err(_) => (1u64, vec![], 0u64),
            Ok(Ok(n)) => (0, vec![], *n),
            Ok(Err(ve)) => {
                let (c, i) = err_obs(ve);
                (c, i, 0)
            }
        };
        *codes.entry(code).or_insert(0) += 1;
        let mut monitor: Vec<String> = vec![];
        let unknown_ref: Vec<u64> = b.outs.iter().enumerate().filter(|(_, o)| is_unknown(o)).map(|(i, _)| i as u64).collect();
        if code == 0 {
            for m in reference_violations(&b.pol, &b.outs, &values, &b.flags, b.tx.input.len(), w, b.tx.version == Version::TWO, b.tx.base_size() as u128, Some(nbv), false) {
                monitor.push(format!("validate_onchain_tx accepted although {}", m));
            }
        }
        if code == 2 && idx != unknown_ref {
            monitor.push(format!("reported unknown outputs {:?}, the unclassified outputs are {:?}", idx, unknown_ref));
        }
        // the wallet oracle on its own: the node's answers against the reference derivation
        // (not after a panic: the node's state lock is poisoned then)
        for (i, o) in b.outs.iter().enumerate() {
            if code == 1 {
                break;
            }
            let p = match &o.opath {
                Some(p) => p.clone(),
                None => continue,
            };
            let cs = catch_unwind(AssertUnwindSafe(|| b.node.can_spend(&p, &o.script))).ok().map(|r| r.ok());
            if cs != Some(o.can_spend) {
                monitor.push(format!("output[{}]: Wallet::can_spend answers {:?}, reference {:?}", i, cs, o.can_spend));
            }
            let al = catch_unwind(AssertUnwindSafe(|| b.node.allowlist_contains(&o.script, &p))).ok();
            if al != o.allow_path {
                monitor.push(format!("output[{}]: Wallet::allowlist_contains answers {:?}, reference {:?}", i, al, o.allow_path));
            }
            if al.is_none() {
                break; // the panic poisoned the node state; nothing more can be asked
            }
        }
        if !monitor.is_empty() {
            monitor_failures += 1;
        }
        let tx_coq = format!(
            "(mkTx {} {} {} {} {} {} {})",
            coq_bool(b.tx.version == Version::TWO),
            b.tx.base_size(),
            b.tx.input.len(),
            coq_flags(&b.flags),
            coq_nlist(&values),
            coq_list(&b.outs.iter().map(coq_out).collect::<Vec<_>>()),
            w
        );
        let coq = format!("(({}, {}), {}, ({}, {}, {}))", coq_rules(&b.pol.rules), coq_pol(&b.pol), tx_coq, code, coq_nlist(&idx), nbv);
        emit(
            "CASE",
            json!({"id": case, "kind": "val", "policy": pol_json(&b.pol), "transaction": tx_json(&b, &vec![0; b.ins.len()]),
                   "values_sat": values, "weight_lower_bound": w.to_string(),
                   "observed": {"code(0 ok,1 panic,2 unknown,100+tag)": code, "unknown_indices": idx, "non_beneficial_sat": nbv},
                   "code": code, "monitor_violation": monitor, "coq": coq}),
        );
    }
    emit(
        "STATS",
        json!({"kind": "val", "profile": profile_name(),
               "codes(0 ok,1 panic,2 unknown,100+tag)": codes.iter().map(|(k, v)| (k.to_string(), *v)).collect::<std::collections::BTreeMap<_, _>>(),
               "monitor_failures": monitor_failures}),
    );
}

// ------------------------------------------------------------------ handler domain

/// what the request says about one input
#[derive(Clone, Copy, PartialEq, Debug)]
enum Form {
    Both,          // non_witness_utxo and a matching witness_utxo
    PrevOnly,      // non_witness_utxo only
    ClaimOnly,     // witness_utxo only, true
    ClaimLow,      // witness_utxo only, value understated
    ClaimHigh,     // witness_utxo only, value overstated
    BothLow,       // previous transaction and an understated witness_utxo
    BothHigh,      // previous transaction and an overstated witness_utxo
    BothScript,    // previous transaction and a witness_utxo with another script
    Neither,
}

fn make_root(node: &Arc<Node>, approver: Arc<dyn Approve>) -> RootHandler {
    let proto = 6;
    let mut init = InitHandler::new(0, node.clone(), approver, proto);
    let m = msgs::HsmdInit {
        key_version: model::Bip32KeyVersion { pubkey_version: 0, privkey_version: 0 },
        chain_params: bitcoin::BlockHash::all_zeros(),
        encryption_key: None,
        dev_privkey: None,
        dev_bip32_seed: None,
        dev_channel_secrets: None,
        dev_channel_secrets_shaseed: None,
        hsm_wire_min_version: 2,
        hsm_wire_max_version: proto,
    };
    init.handle(Message::HsmdInit(m)).expect("init");
    init.into()
}

/// SignWithdrawal requests through the wire codec and RootHandler::handle.  The TRUE value and script of
/// every input are those of the previous transaction built here; the request may say otherwise.
fn handler_domain(args: &Args) {
    use bitcoin::psbt::Psbt;
    use bitcoin::script::PushBytesBuf;
    let mut rng = Rng::new(mix_seed(args.seed ^ 0xc08b));
    let secp = Secp256k1::new();
    let mut codes: std::collections::BTreeMap<String, u64> = Default::default();
    let mut forms: std::collections::BTreeMap<String, u64> = Default::default();
    let mut kinds_signed: std::collections::BTreeMap<String, u64> = Default::default();
    let (mut signed_usable, mut signed_unusable, mut monitor_failures, mut decode_disagreements) = (0u64, 0u64, 0u64, 0u64);
    let (mut c10_checked, mut sign_refusal_cases, mut sign_refusal_hit) = (0u64, 0u64, 0u64);
    for case in 0..args.n {
        let mut pol = gen_policy(&mut rng, true);
        // a funding transaction that passes the check and is refused when it comes to signing: a taproot input
        // whose script is the address of another wallet key than the one the utxo names
        let sign_refusal = rng.chance(1, 8);
        if sign_refusal || rng.chance(9, 10) {
            pol.rules = vec![];
            pol.disable_beneficial = false;
        }
        if sign_refusal && pol.max_feerate < 25_000 {
            pol.max_feerate = 333_333;
        }
        let mut seed = [0u8; 32];
        seed[0] = (case % 251) as u8;
        seed[1] = 0xc9;
        let mut world = World::new(real_policy(&pol), seed, KeyDerivationStyle::Native);
        world.onchain = rng.chance(1, 2);
        let node = world.new_node();
        let node_ctx = TestNodeContext { node: node.clone(), secp_ctx: Secp256k1::signing_only() };
        let mut refw = RefWallet { secp: secp.clone(), account: node.get_account_extended_key().clone(), allow_scripts: vec![], xpubs: vec![] };
        let answer = rng.chance(3, 5);
        let approver = Arc::new(RecordingApprover { answer, asked: Mutex::new(vec![]) });
        let root = make_root(&node, approver.clone());

        // ---- inputs: wallet outputs of previous transactions made here
        let n_in = 1 + rng.below(3) as usize;
        let liar = if !sign_refusal && rng.chance(2, 5) { Some(rng.below(n_in as u64) as usize) } else { None };
        let mut kinds: Vec<(&'static str, u64, u32, u32)> = vec![]; // (name, script kind, key index named, key of the script)
        let mut in_forms: Vec<Form> = vec![];
        for k in 0..n_in {
            let (name, code) = if sign_refusal {
                *rng.pick(&[("p2wpkh", 0u64), ("p2tr", 2)])
            } else {
                *rng.pick(&[("p2wpkh", 0u64), ("p2wpkh", 0), ("p2sh-p2wpkh", 1), ("p2tr", 2), ("p2pkh", 3), ("p2pkh", 3)])
            };
            let idx = rng.below(40) as u32;
            if sign_refusal && k == 0 {
                kinds.push(("p2tr-of-another-key", 2, idx, idx + 100));
            } else {
                kinds.push((name, code, idx, idx));
            }
            let f = if sign_refusal {
                *rng.pick(&[Form::Both, Form::PrevOnly])
            } else if liar == Some(k) {
                *rng.pick(&[Form::ClaimLow, Form::ClaimLow, Form::ClaimHigh, Form::BothLow, Form::BothLow, Form::BothHigh, Form::BothScript, Form::Neither])
            } else {
                *rng.pick(&[Form::Both, Form::Both, Form::Both, Form::PrevOnly, Form::PrevOnly, Form::ClaimOnly])
            };
            in_forms.push(f);
        }

        // ---- an optional channel (stub first, its funding script is needed for the output)
        let mut chan: Option<(TestChannelContext, ScriptBuf, u64)> = None; // (ctx, funding script, holder mode)
        if sign_refusal || rng.chance(3, 10) {
            let value = 100_000 + rng.below(20_000_000);
            let push = if sign_refusal { 0 } else { *rng.pick(&[0u64, 0, 0, 0, 999, 1000]) };
            let ctx = test_chan_ctx_with_push_val(&node_ctx, case * 8 + 1, value, push);
            let funding = make_test_funding_channel_outpoint(&node, &ctx.setup, &ctx.channel_id, 0).script_pubkey;
            chan = Some((ctx, funding, if sign_refusal { 0 } else { *rng.pick(&[0u64, 0, 0, 2, 1]) }));
        }

        // ---- outputs
        struct HOut {
            class: &'static str,
            value: u64,
            script: ScriptBuf,
            opath: DerivationPath,
            key: Option<PublicKey>,
            is_chan: bool,
        }
        let mut houts: Vec<HOut> = vec![];
        if let Some((ctx, funding, _)) = &chan {
            houts.push(HOut { class: "channel", value: ctx.setup.channel_value_sat, script: funding.clone(), opath: path_of(&[]), key: None, is_chan: true });
        }
        for _ in 0..rng.below(3) + if chan.is_some() { 0 } else { 1 } {
            let value = 1000 + rng.below(50_000_000);
            let i = rng.below(50) as u32;
            let kind = rng.below(3);
            match if sign_refusal { rng.below(9) } else { rng.below(10) } {
                0..=5 => {
                    let p = path_of(&[i]);
                    let pk = refw.wallet_key(&p);
                    houts.push(HOut { class: "wallet", value, script: refw.script_of(&pk, kind), opath: p, key: Some(pk.0), is_chan: false });
                }
                6..=8 => {
                    let s = refw.script_of(&refw.wallet_key(&path_of(&[10_000 + i])), kind);
                    refw.allow_scripts.push(s.clone());
                    houts.push(HOut { class: "allowlisted-script", value, script: s, opath: path_of(&[]), key: None, is_chan: false });
                }
                _ => {
                    let s = refw.script_of(&refw.wallet_key(&path_of(&[10_000 + i])), kind);
                    houts.push(HOut { class: "unknown", value, script: s, opath: path_of(&[]), key: None, is_chan: false });
                }
            }
        }
        for i in (1..houts.len()).rev() {
            let j = rng.below(i as u64 + 1) as usize;
            houts.swap(i, j);
        }
        let adds: Vec<String> = refw.allow_scripts.iter().map(|s| Address::from_script(s, NETWORK).expect("address").to_string()).collect();
        node.add_allowlist(&adds).expect("add_allowlist");
        // the operator edits the list before the request comes (the harness keeps its own record in refw)
        let mut allow_events: Vec<Value> = vec![];
        if !sign_refusal && rng.chance(1, 3) {
            let in_use: Vec<ScriptBuf> = houts.iter().map(|o| o.script.clone()).collect();
            for _ in 0..1 + rng.below(2) {
                allow_events.push(mutate_allowlist(&mut rng, &node, &mut refw, &in_use));
            }
            for o in houts.iter_mut() {
                if o.class == "allowlisted-script" && !refw.allow_scripts.contains(&o.script) {
                    o.class = "dropped-from-allowlist";
                }
            }
        }

        // ---- values: what the outputs take, the fee the request shows, and what the lie hides
        let sum_out_counted: u128 = houts.iter().filter(|o| o.class != "unknown" && o.class != "dropped-from-allowlist").map(|o| o.value as u128).sum();
        let sum_out_all: u128 = houts.iter().map(|o| o.value as u128).sum();
        let _ = sum_out_all;
        // weight: outputs and inputs are fixed now (values do not change sizes)
        let skeleton = Transaction {
            version: Version::TWO,
            lock_time: LockTime::ZERO,
            input: (0..n_in)
                .map(|_| TxIn { previous_output: OutPoint { txid: Txid::all_zeros(), vout: 0 }, script_sig: ScriptBuf::new(), sequence: Sequence::ZERO, witness: Witness::default() })
                .collect(),
            output: houts.iter().map(|o| TxOut { value: Amount::from_sat(o.value), script_pubkey: o.script.clone() }).collect(),
        };
        let w = skeleton.weight().to_wu() as u128 + n_in as u128 * (77 + 33);
        let fb = fee_bound(pol.max_feerate, w);
        let shown_fee: u128 = match if sign_refusal { 7 } else { rng.below(8) } {
            0 => fb,
            1 => fb + 1,
            2 => 0,
            3 => fb.saturating_sub(1),
            _ => rng.below((fb.min(60_000) + 1) as u64) as u128,
        };
        let hidden: u128 = *rng.pick(&[1u128, 1000, 100_000_000, 250_000]);
        let lie = liar.map(|k| in_forms[k]);
        let understate = matches!(lie, Some(Form::ClaimLow) | Some(Form::BothLow));
        let overstate = matches!(lie, Some(Form::ClaimHigh) | Some(Form::BothHigh));
        let shown_total = sum_out_counted + shown_fee;
        let true_total = if understate { shown_total + hidden } else if overstate { shown_total.saturating_sub(hidden).max(n_in as u128) } else { shown_total.max(n_in as u128) };
        // split the true total; the liar holds the largest share
        let mut true_vals = vec![0u64; n_in];
        let mut rest = true_total;
        for k in 0..n_in - 1 {
            let part = (rng.below(400) as u128 * rest / 2000).min(U64MAX as u128);
            true_vals[k] = part as u64;
            rest -= part;
        }
        true_vals[n_in - 1] = rest.min(U64MAX as u128) as u64;
        if let Some(k) = liar {
            let (imax, _) = true_vals.iter().enumerate().max_by_key(|(_, v)| **v).unwrap();
            true_vals.swap(k, imax);
        }

        // ---- previous transactions and the PSBT
        let mut prevs: Vec<(Transaction, u32)> = vec![];
        let mut true_outs: Vec<TxOut> = vec![];
        for k in 0..n_in {
            let (_, code, _, skey) = kinds[k];
            let pk = refw.wallet_key(&path_of(&[skey]));
            let script = refw.script_of(&pk, code);
            let vout = rng.below(3) as u32;
            let mut outputs = vec![];
            for v in 0..=vout {
                if v == vout {
                    outputs.push(TxOut { value: Amount::from_sat(true_vals[k]), script_pubkey: script.clone() });
                } else {
                    outputs.push(TxOut { value: Amount::from_sat(1000 + v as u64), script_pubkey: big_script(8) });
                }
            }
            let mut h = rng.bytes32();
            h[31] = k as u8;
            let prev = Transaction {
                version: Version::TWO,
                lock_time: LockTime::ZERO,
                input: vec![TxIn { previous_output: OutPoint { txid: Txid::from_slice(&h).unwrap(), vout: 0 }, script_sig: ScriptBuf::new(), sequence: Sequence::MAX, witness: Witness::default() }],
                output: outputs,
            };
            true_outs.push(prev.output[vout as usize].clone());
            prevs.push((prev, vout));
        }
        let tx = Transaction {
            version: Version::TWO,
            lock_time: LockTime::ZERO,
            input: prevs
                .iter()
                .map(|(p, vout)| TxIn { previous_output: OutPoint { txid: p.compute_txid(), vout: *vout }, script_sig: ScriptBuf::new(), sequence: Sequence::ZERO, witness: Witness::default() })
                .collect(),
            output: skeleton.output.clone(),
        };
        let txid = tx.compute_txid();
        let mut psbt = Psbt::from_unsigned_tx(tx.clone()).expect("psbt");
        let mut claimed: Vec<Option<TxOut>> = vec![];
        for k in 0..n_in {
            let t = &true_outs[k];
            let d = (hidden.min(u64::MAX as u128)) as u64;
            let low = TxOut { value: Amount::from_sat(t.value.to_sat().saturating_sub(d)), script_pubkey: t.script_pubkey.clone() };
            let high = TxOut { value: Amount::from_sat(t.value.to_sat().saturating_add(d)), script_pubkey: t.script_pubkey.clone() };
            let other = TxOut { value: t.value, script_pubkey: refw.script_of(&refw.wallet_key(&path_of(&[kinds[k].2 + 1])), kinds[k].1) };
            let (nwu, wu) = match in_forms[k] {
                Form::Both => (true, Some(t.clone())),
                Form::PrevOnly => (true, None),
                Form::ClaimOnly => (false, Some(t.clone())),
                Form::ClaimLow => (false, Some(low)),
                Form::ClaimHigh => (false, Some(high)),
                Form::BothLow => (true, Some(low)),
                Form::BothHigh => (true, Some(high)),
                Form::BothScript => (true, Some(other)),
                Form::Neither => (false, None),
            };
            if nwu {
                psbt.inputs[k].non_witness_utxo = Some(prevs[k].0.clone());
            }
            psbt.inputs[k].witness_utxo = wu.clone();
            if kinds[k].1 == 1 {
                let pk = refw.wallet_key(&path_of(&[kinds[k].2]));
                psbt.inputs[k].redeem_script = Some(refw.script_of(&pk, 0));
            }
            claimed.push(wu);
            *forms.entry(format!("{:?}", in_forms[k])).or_insert(0) += 1;
        }
        for (j, o) in houts.iter().enumerate() {
            if let Some(key) = o.key {
                psbt.outputs[j].bip32_derivation.insert(key, (bitcoin::bip32::Fingerprint::default(), o.opath.clone()));
            }
        }
        let utxos: Vec<Utxo> = (0..n_in)
            .map(|k| Utxo {
                txid: tx.input[k].previous_output.txid,
                outnum: tx.input[k].previous_output.vout,
                amount: claimed[k].as_ref().map(|c| c.value.to_sat()).unwrap_or(true_vals[k]),
                keyindex: kinds[k].2,
                is_p2sh: kinds[k].1 == 1,
                script: Octets(true_outs[k].script_pubkey.to_bytes()),
                close_info: None,
                is_in_coinbase: false,
            })
            .collect();

        // ---- the channel becomes ready with this transaction's outpoint
        let mut chan_facts: Option<(usize, ChanFacts)> = None;
        if let Some((ctx, funding, holder)) = chan.as_mut() {
            let vout = houts.iter().position(|o| o.is_chan).unwrap();
            ctx.setup.funding_outpoint = OutPoint { txid, vout: vout as u32 };
            let r = catch_unwind(AssertUnwindSafe(|| funding_tx_setup_channel(&node_ctx, ctx, &tx, vout as u32)));
            if matches!(r, Ok(None)) {
                if *holder == 0 {
                    let _ = catch_unwind(AssertUnwindSafe(|| {
                        let mut cctx = channel_initial_holder_commitment(&node_ctx, ctx);
                        let (csig, hsigs) = counterparty_sign_holder_commitment(&node_ctx, ctx, &mut cctx);
                        validate_holder_commitment(&node_ctx, ctx, &cctx, &csig, &hsigs)
                    }));
                    node.with_channel(&ctx.channel_id, |c| {
                        if c.enforcement_state.next_holder_commit_num != 1 {
                            c.enforcement_state.set_next_holder_commit_num_for_testing(1);
                        }
                        Ok(())
                    })
                    .expect("channel");
                } else {
                    let n = *holder - 1;
                    node.with_channel(&ctx.channel_id, |c| {
                        c.enforcement_state.set_next_holder_commit_num_for_testing(n);
                        Ok(())
                    })
                    .expect("channel");
                }
                let next_holder = node.with_channel(&ctx.channel_id, |c| Ok(c.enforcement_state.next_holder_commit_num)).expect("channel");
                chan_facts = Some((
                    vout,
                    ChanFacts { value: ctx.setup.channel_value_sat, script_ok: houts[vout].script == *funding, next_holder, outbound: ctx.setup.is_outbound, push_msat: ctx.setup.push_value_msat },
                ));
            }
        }
        let outs: Vec<OutSpec> = houts
            .iter()
            .enumerate()
            .map(|(j, o)| OutSpec {
                class: o.class,
                value: o.value,
                script: o.script.clone(),
                opath: Some(o.opath.clone()),
                can_spend: refw.can_spend(&o.opath, &o.script),
                allow_path: refw.allow(&o.script, &o.opath),
                allow_script: refw.allow(&o.script, &path_of(&[])) == Some(true),
                chan: chan_facts.as_ref().filter(|(v, _)| *v == j).map(|(_, c)| c.clone()),
            })
            .collect();

        // ---- the request, through the codec like the daemon
        let now = 1000 + rng.below(1_000_000);
        world.clock.set(Duration::from_secs(now));
        let c0 = fee_control(&node);
        let request = msgs::SignWithdrawal { utxos: Array(utxos), psbt: WithSize(StreamedPSBT::new(psbt.clone())) };
        let bytes = request.as_vec();
        let decoded = catch_unwind(AssertUnwindSafe(|| msgs::from_vec(bytes.clone())));
        // reference reading of the decoder: a previous transaction must agree with what the request claims
        let disagrees = (0..n_in).any(|k| matches!(in_forms[k], Form::BothLow | Form::BothHigh | Form::BothScript) && claimed[k].as_ref() != Some(&true_outs[k]));
        // ... and without a previous transaction the claim must be one that a signature commits to: a legacy
        // sighash does not cover the amount, so a bare claim about a legacy output cannot be taken
        let unverifiable = (0..n_in).any(|k| {
            matches!(in_forms[k], Form::ClaimOnly | Form::ClaimLow | Form::ClaimHigh)
                && claimed[k].as_ref().map(|c| !c.script_pubkey.is_witness_program() && !c.script_pubkey.is_p2sh()).unwrap_or(false)
        });
        let inconsistent = disagrees || unverifiable;
        let mut monitor: Vec<String> = vec![];
        let mut c10: Vec<String> = vec![];
        let mut decode_disagrees = false;
        let (code, reply): (u64, Option<Psbt>) = match decoded {
            Err(_) => (5, None),
            Ok(Err(_)) => (4, None),
            Ok(Ok(msg)) => {
                if inconsistent {
                    decode_disagrees = true;
                }
                let before = if pol.rules.is_empty() { Some(snap(&world, &node)) } else { None };
                let handled = catch_unwind(AssertUnwindSafe(|| root.handle(msg)));
                if let (Some(before), Ok(Err(e))) = (&before, &handled) {
                    c10_checked += 1;
                    c10.extend(c10_diff(&world, &node, before, now, &format!("RootHandler::handle(SignWithdrawal) ({})", e)));
                }
                match handled {
                    Err(_) => (3, None),
                    Ok(Err(_)) => (2, None),
                    Ok(Ok(reply)) => {
                        let back = msgs::from_vec(reply.as_vec()).expect("reply decodes");
                        match back {
                            Message::SignWithdrawalReply(r) => (0, Some(r.psbt.0.inner)),
                            _ => (0, None),
                        }
                    }
                }
            }
        };
        if !inconsistent && (code == 4 || code == 5) {
            decode_disagrees = true;
        }
        if decode_disagrees {
            decode_disagreements += 1;
        }
        let poisoned = code == 3;
        let c1 = if poisoned { c0.clone() } else { fee_control(&node) };
        let asked = approver.asked.lock().unwrap().clone();

        // ---- is what came back usable on chain against the TRUE previous outputs?
        let mut usable = false;
        if let Some(p) = &reply {
            let mut ftx = p.unsigned_tx.clone();
            let mut complete = true;
            for k in 0..n_in {
                let wit = p.inputs[k].final_script_witness.clone();
                match wit {
                    None => complete = false,
                    Some(wit) =>
                        if kinds[k].1 == 3 {
                            let items: Vec<Vec<u8>> = wit.iter().map(|x| x.to_vec()).collect();
                            let mut b = bitcoin::script::Builder::new();
                            for it in items {
                                b = b.push_slice(PushBytesBuf::try_from(it).expect("push"));
                            }
                            ftx.input[k].script_sig = b.into_script();
                        } else {
                            ftx.input[k].witness = wit;
                            if let Some(ss) = &p.inputs[k].final_script_sig {
                                ftx.input[k].script_sig = ss.clone();
                            }
                        },
                }
            }
            let spent = |op: &OutPoint| (0..n_in).find(|k| tx.input[*k].previous_output == *op).map(|k| true_outs[k].clone());
            usable = complete && ftx.verify(spent).is_ok();
            // the consensus library at hand does not evaluate taproot spends; a taproot signature commits to the
            // value and script of every previous output, so it is good only if the handler worked with the true ones
            if kinds.iter().any(|k| k.1 == 2) {
                let worked_with_true = (0..n_in).all(|k| match in_forms[k] {
                    Form::Both | Form::PrevOnly => true,
                    _ => claimed[k].as_ref() == Some(&true_outs[k]),
                });
                usable = usable && worked_with_true;
            }
            if usable {
                signed_usable += 1;
                for k in 0..n_in {
                    *kinds_signed.entry(kinds[k].0.to_string()).or_insert(0) += 1;
                }
            } else {
                signed_unusable += 1;
            }
        }

        // ---- the property on the final verdict, with the true input values
        let flags_true: Vec<bool> = true_outs.iter().map(|t| t.script_pubkey.is_witness_program()).collect();
        let unknown_ref: Vec<u64> = outs.iter().enumerate().filter(|(_, o)| is_unknown(o)).map(|(i, _)| i as u64).collect();
        if usable {
            let by_approval = !asked.is_empty();
            for m in reference_violations(&pol, &outs, &true_vals, &flags_true, n_in, w, true, tx.base_size() as u128, None, by_approval) {
                monitor.push(format!("SignWithdrawal returned signatures that are valid for the true previous outputs although {}", m));
            }
            if by_approval {
                let ix: Vec<u64> = asked[0].iter().map(|i| *i as u64).collect();
                if ix != unknown_ref || !answer {
                    monitor.push(format!("signed after asking about {:?} (answer {}), the unclassified outputs are {:?}", ix, answer, unknown_ref));
                }
            } else {
                let sc: u128 = outs.iter().map(counted).sum();
                let sin: u128 = true_vals.iter().map(|v| *v as u128).sum();
                if !unknown_ref.is_empty() {
                    monitor.push(format!("signed without asking although outputs {:?} are unclassified", unknown_ref));
                }
                if sc <= sin && !ref_warned(&pol.rules, TAGS[9]) {
                    let msat = ((sin - sc) * 1000).min(U64MAX as u128);
                    let booked = c1.buckets.first().map(|x| *x as u128).unwrap_or(0);
                    if msat > 0 && booked < msat {
                        monitor.push(format!("signed away {} msat (true inputs - beneficial outputs) but the fee velocity control booked {}", msat, booked));
                    }
                }
            }
            if disagrees {
                monitor.push("signed although a witness_utxo disagrees with the previous transaction of the request".into());
            }
            if unverifiable {
                monitor.push("signed a legacy input on the strength of a bare witness_utxo (no previous transaction in the request)".into());
            }
        }
        if !monitor.is_empty() {
            monitor_failures += 1;
        }
        if sign_refusal {
            sign_refusal_cases += 1;
            // refused, and not by the check: the approver was not asked and the fee was counted
            if code == 2 && asked.is_empty() && !same_control(&c0, &c1) {
                sign_refusal_hit += 1;
            }
        }
        *codes.entry(code.to_string()).or_insert(0) += 1;

        // ---- the view the handler derives, for the model
        let mut coq: Vec<String> = vec![];
        let modelled = !inconsistent && !in_forms.contains(&Form::Neither) && code != 4 && code != 5;
        if modelled {
            let eff: Vec<(u64, bool)> = (0..n_in)
                .map(|k| {
                    let has_prev = matches!(in_forms[k], Form::Both | Form::PrevOnly);
                    let v = if has_prev { true_vals[k] } else { claimed[k].as_ref().unwrap().value.to_sat() };
                    (v, has_prev && flags_true[k])
                })
                .collect();
            let prevs_coq: Vec<String> = eff.iter().map(|(v, _)| format!("mkIn {} true", v)).collect();
            let nc = format!(
                "(mkNode true {} {} {} {} {} {} {})",
                tx.base_size(),
                tx.weight().to_wu(),
                n_in,
                coq_flags(&eff.iter().map(|(_, f)| *f).collect::<Vec<_>>()),
                coq_list(&prevs_coq),
                coq_list(&vec!["None"; n_in]),
                coq_list(&outs.iter().map(coq_out).collect::<Vec<_>>())
            );
            let asked_coq = match asked.first() {
                Some(ix) => format!("(Some {})", coq_nlist(&ix.iter().map(|i| *i as u64).collect::<Vec<_>>())),
                None => "None".to_string(),
            };
            let ocode = match code {
                0 => 0,
                3 => 3,
                _ => 2,
            };
            coq.push(format!(
                "(({}, {}), ({}, {}, {}, {}, {}), ({}, {}, {}))",
                coq_rules(&pol.rules),
                coq_pol(&pol),
                vc_obs(&c0),
                now,
                nc,
                coq_bool(answer),
                coq_bool(sign_refusal),
                ocode,
                asked_coq,
                vc_obs(&c1)
            ));
        }
        emit(
            "CASE",
            json!({"id": case, "kind": "handler", "policy": pol_json(&pol),
                   "inputs": (0..n_in).map(|k| json!({"script_class": kinds[k].0, "wallet_key_index": kinds[k].2, "request_form": format!("{:?}", in_forms[k]),
                        "true_value_sat": true_vals[k], "claimed_witness_utxo_value_sat": claimed[k].as_ref().map(|c| c.value.to_sat()),
                        "previous_tx_in_request": psbt.inputs[k].non_witness_utxo.is_some(), "previous_output_index": prevs[k].1})).collect::<Vec<_>>(),
                   "outputs": outs.iter().map(out_json).collect::<Vec<_>>(),
                   "allowlist_operations_before_the_request": allow_events,
                   "now": now, "approver_answers": answer, "request_bytes": bytes.len(),
                   "observed": {"code(0 reply,2 error,3 panic,4 refused at decode,5 decode panic)": code, "asked_about": asked,
                                "reply_valid_for_true_prevouts": usable, "fee_control_before": vc_json(&c0), "fee_control_after": vc_json(&c1)},
                   "reference": {"weight_lower_bound": w.to_string(), "true_sum_inputs": true_vals.iter().map(|v| *v as u128).sum::<u128>().to_string(),
                                 "sum_beneficial": outs.iter().map(counted).sum::<u128>().to_string(), "unclassified_outputs": unknown_ref,
                                 "request_disagrees_with_previous_tx": disagrees, "legacy_claim_without_previous_tx": unverifiable},
                   "signing_time_refusal_case": sign_refusal,
                   "code": code, "decode_disagreement": decode_disagrees, "monitor_violation": monitor,
                   "c10_violations": c10.iter().filter(|m| m.starts_with("C10:")).cloned().collect::<Vec<_>>(),
                   "c10_observations": c10.iter().filter(|m| m.starts_with("C10-note:")).cloned().collect::<Vec<_>>(), "coq": coq}),
        );
    }
    emit(
        "STATS",
        json!({"kind": "handler", "profile": profile_name(), "codes(0 reply,2 error,3 panic,4 refused at decode,5 decode panic)": codes,
               "request_forms": forms, "replies_valid_on_chain": signed_usable, "replies_not_valid_on_chain": signed_unusable,
               "inputs_signed_by_script_class": kinds_signed, "decode_disagreements": decode_disagreements, "monitor_failures": monitor_failures,
               "c10_refused_requests_checked": c10_checked, "signing_time_refusal_cases": sign_refusal_cases,
               "signing_time_refusals_after_an_accepted_check": sign_refusal_hit}),
    );
}

// ------------------------------------------------------------------ memo domain

/// The repository's own approvers under RootHandler: explicit approvals of whole transactions
/// (MemoApprover::approve), then SignWithdrawal requests for the approved transaction, for it again, and for
/// look-alikes (same outputs with other / larger inputs, another locktime or sequence, one output value
/// changed).  Every transaction has an output to nowhere, so the approval is all that stands between the
/// request and a signature.
fn memo_domain(args: &Args) {
    use bitcoin::psbt::Psbt;
    let mut rng = Rng::new(mix_seed(args.seed ^ 0xc08c));
    let secp = Secp256k1::new();
    let mut stats: std::collections::BTreeMap<String, u64> = Default::default();
    let mut monitor_failures = 0u64;
    for case in 0..args.n {
        let pol = Pol { max_feerate: 333_333, disable_beneficial: false, rules: vec![], vel_kind: 1, vel_limit: 1_000_000_000 };
        let mut seed = [0u8; 32];
        seed[0] = (case % 251) as u8;
        seed[1] = 0xca;
        let world = World::new(real_policy(&pol), seed, KeyDerivationStyle::Native);
        let node = world.new_node();
        let refw = RefWallet { secp: secp.clone(), account: node.get_account_extended_key().clone(), allow_scripts: vec![], xpubs: vec![] };
        // the approver under test
        let kind = *rng.pick(&[0u64, 0, 0, 0, 1, 1, 2, 3, 4]);
        let memo_neg = Arc::new(MemoApprover::new(NegativeApprover()));
        let vc = VelocityControl::new(VelocityControlSpec { limit_msat: 1_000_000, interval_type: VelocityControlIntervalType::Hourly });
        let memo_vel = Arc::new(MemoApprover::new(VelocityApprover::new(world.clock.clone(), vc, NegativeApprover())));
        let (name, delegate_yes, approver): (&str, bool, Arc<dyn Approve>) = match kind {
            0 => ("MemoApprover<NegativeApprover>", false, memo_neg.clone()),
            1 => ("MemoApprover<VelocityApprover<NegativeApprover>>", false, memo_vel.clone()),
            2 => ("NegativeApprover", false, Arc::new(NegativeApprover())),
            3 => ("MemoApprover<PositiveApprover>", true, Arc::new(MemoApprover::new(PositiveApprover()))),
            _ => ("WarningPositiveApprover", true, Arc::new(WarningPositiveApprover())),
        };
        let root = make_root(&node, approver);

        // ---- transaction A and its look-alikes
        struct Coin {
            prev: Transaction,
            vout: u32,
            key: u32,
        }
        let mut mk_coin = |rng: &mut Rng, value: u64| -> Coin {
            let key = rng.below(40) as u32;
            let script = refw.script_of(&refw.wallet_key(&path_of(&[key])), 0);
            let mut h = rng.bytes32();
            h[0] = 0xaa;
            let prev = Transaction {
                version: Version::TWO,
                lock_time: LockTime::ZERO,
                input: vec![TxIn { previous_output: OutPoint { txid: Txid::from_slice(&h).unwrap(), vout: 0 }, script_sig: ScriptBuf::new(), sequence: Sequence::MAX, witness: Witness::default() }],
                output: vec![TxOut { value: Amount::from_sat(value), script_pubkey: script }],
            };
            Coin { prev, vout: 0, key }
        };
        let unknown_script = refw.script_of(&refw.wallet_key(&path_of(&[10_000 + rng.below(50) as u32])), 0);
        let change_key = rng.below(40) as u32;
        let change_pk = refw.wallet_key(&path_of(&[change_key]));
        let pay = 10_000 + rng.below(5_000_000);
        let change = 10_000 + rng.below(5_000_000);
        let fee = 200 + rng.below(400);
        let with_change = rng.chance(2, 3);
        let mut outputs = vec![TxOut { value: Amount::from_sat(pay), script_pubkey: unknown_script.clone() }];
        if with_change {
            outputs.push(TxOut { value: Amount::from_sat(change), script_pubkey: refw.script_of(&change_pk, 0) });
        }
        let total_out: u64 = outputs.iter().map(|o| o.value.to_sat()).sum();
        let coin_a = mk_coin(&mut rng, total_out + fee);
        let extra = *rng.pick(&[1u64, 100_000, 100_000_000, 2_000_000_000]);
        let coin_big = mk_coin(&mut rng, total_out + fee + extra);
        let coin_same = mk_coin(&mut rng, total_out + fee);
        let mk_tx = |coins: &[&Coin], outputs: &[TxOut], lock: u32, seq: Sequence| Transaction {
            version: Version::TWO,
            lock_time: LockTime::from_consensus(lock),
            input: coins
                .iter()
                .map(|c| TxIn { previous_output: OutPoint { txid: c.prev.compute_txid(), vout: c.vout }, script_sig: ScriptBuf::new(), sequence: seq, witness: Witness::default() })
                .collect(),
            output: outputs.to_vec(),
        };
        let mut out_changed = outputs.clone();
        let j = rng.below(out_changed.len() as u64) as usize;
        out_changed[j].value = Amount::from_sat(out_changed[j].value.to_sat() - 1 - rng.below(100));
        // (label, transaction, coins)
        let txs: Vec<(&'static str, Transaction, Vec<&Coin>)> = vec![
            ("A", mk_tx(&[&coin_a], &outputs, 0, Sequence::ZERO), vec![&coin_a]),
            ("A's outputs, a larger input", mk_tx(&[&coin_big], &outputs, 0, Sequence::ZERO), vec![&coin_big]),
            ("A's outputs, another input of the same value", mk_tx(&[&coin_same], &outputs, 0, Sequence::ZERO), vec![&coin_same]),
            ("A's outputs, A's input and a second one", mk_tx(&[&coin_a, &coin_big], &outputs, 0, Sequence::ZERO), vec![&coin_a, &coin_big]),
            ("A with another locktime", mk_tx(&[&coin_a], &outputs, 500_000 + rng.below(1000) as u32, Sequence::ZERO), vec![&coin_a]),
            ("A with another sequence", mk_tx(&[&coin_a], &outputs, 0, Sequence::ENABLE_RBF_NO_LOCKTIME), vec![&coin_a]),
            ("A with one output value lowered", mk_tx(&[&coin_a], &out_changed, 0, Sequence::ZERO), vec![&coin_a]),
        ];

        // ---- operations: the canonical sequence, then random ones
        #[derive(Clone)]
        enum Op {
            Set(Vec<usize>),
            Ask(usize),
        }
        let mut ops: Vec<Op> = vec![Op::Set(vec![0]), Op::Ask(0), Op::Ask(0)];
        for v in 1..txs.len() {
            if rng.chance(1, 2) {
                ops.push(Op::Set(vec![0]));
            }
            ops.push(Op::Ask(v));
        }
        for _ in 0..rng.below(6) {
            match rng.below(5) {
                0 => ops.push(Op::Set(vec![])),
                1 => ops.push(Op::Set(vec![rng.below(txs.len() as u64) as usize, 0])),
                2 => ops.push(Op::Set(vec![rng.below(txs.len() as u64) as usize])),
                _ => ops.push(Op::Ask(rng.below(txs.len() as u64) as usize)),
            }
        }
        if rng.chance(1, 3) {
            // not the canonical prefix every time
            ops.drain(0..rng.below(3) as usize);
        }

        // ---- run
        let mut pending: Vec<usize> = vec![]; // reference: what an approval still covers
        let mut answers: Vec<bool> = vec![];
        let mut monitor: Vec<String> = vec![];
        let mut jops: Vec<Value> = vec![];
        let mut now = 1000 + rng.below(100_000);
        for op in &ops {
            match op {
                Op::Set(ids) => {
                    let approvals = || ids.iter().map(|i| Approval::Onchain(txs[*i].1.clone())).collect::<Vec<_>>();
                    match kind {
                        0 => memo_neg.approve(approvals()),
                        1 => memo_vel.approve(approvals()),
                        _ => {}
                    }
                    if kind <= 1 {
                        pending = ids.clone();
                    }
                    jops.push(json!({"approve": ids.iter().map(|i| txs[*i].0).collect::<Vec<_>>()}));
                }
                Op::Ask(v) => {
                    let (label, tx, coins) = &txs[*v];
                    now += rng.below(50);
                    world.clock.set(Duration::from_secs(now));
                    let mut psbt = Psbt::from_unsigned_tx(tx.clone()).expect("psbt");
                    for (k, c) in coins.iter().enumerate() {
                        psbt.inputs[k].non_witness_utxo = Some(c.prev.clone());
                        psbt.inputs[k].witness_utxo = Some(c.prev.output[c.vout as usize].clone());
                    }
                    if with_change {
                        psbt.outputs[1].bip32_derivation.insert(change_pk.0, (bitcoin::bip32::Fingerprint::default(), path_of(&[change_key])));
                    }
                    let utxos: Vec<Utxo> = coins
                        .iter()
                        .map(|c| Utxo {
                            txid: c.prev.compute_txid(),
                            outnum: c.vout,
                            amount: c.prev.output[c.vout as usize].value.to_sat(),
                            keyindex: c.key,
                            is_p2sh: false,
                            script: Octets(c.prev.output[c.vout as usize].script_pubkey.to_bytes()),
                            close_info: None,
                            is_in_coinbase: false,
                        })
                        .collect();
                    let request = msgs::SignWithdrawal { utxos: Array(utxos), psbt: WithSize(StreamedPSBT::new(psbt)) };
                    let bytes = request.as_vec();
                    let r = catch_unwind(AssertUnwindSafe(|| msgs::from_vec(bytes).map(|m| root.handle(m))));
                    let mut signed = false;
                    if let Ok(Ok(Ok(reply))) = r {
                        if let Ok(Message::SignWithdrawalReply(rep)) = msgs::from_vec(reply.as_vec()) {
                            let p = rep.psbt.0.inner;
                            let mut ftx = p.unsigned_tx.clone();
                            let mut complete = true;
                            for k in 0..coins.len() {
                                match p.inputs[k].final_script_witness.clone() {
                                    Some(w) => ftx.input[k].witness = w,
                                    None => complete = false,
                                }
                            }
                            let spent = |op: &OutPoint| coins.iter().find(|c| c.prev.compute_txid() == op.txid).map(|c| c.prev.output[op.vout as usize].clone());
                            signed = complete && ftx.verify(spent).is_ok();
                        }
                    }
                    // reference: an approval names the whole transaction and is spent by any request
                    let covered = pending.contains(v);
                    pending.clear();
                    let expected = covered || delegate_yes;
                    if signed && !expected {
                        let sin: u64 = coins.iter().map(|c| c.prev.output[c.vout as usize].value.to_sat()).sum();
                        let sout: u64 = tx.output.iter().map(|o| o.value.to_sat()).sum();
                        monitor.push(format!(
                            "signed `{}` ({} sat to an unknown destination, {} sat fee, unchecked) although exactly this transaction holds no unused approval",
                            label,
                            tx.output[0].value.to_sat(),
                            sin - sout
                        ));
                    }
                    answers.push(signed);
                    *stats.entry(format!("{}: {}", label, if signed { "signed" } else { "declined" })).or_insert(0) += 1;
                    jops.push(json!({"request": label, "now": now, "signed": signed, "reference_expects": expected}));
                }
            }
        }
        if !monitor.is_empty() {
            monitor_failures += 1;
        }
        let coq_ops: Vec<String> = ops
            .iter()
            .map(|o| match o {
                // approvals given to an approver that does not memorize are no operation of the model
                Op::Set(ids) => format!("MSet {}", if kind <= 1 { coq_nlist(&ids.iter().map(|i| *i as u64).collect::<Vec<_>>()) } else { "[]".to_string() }),
                Op::Ask(v) => format!("MAsk {}", v),
            })
            .collect();
        let coq = format!("({}, {}, {})", coq_bool(delegate_yes), coq_list(&coq_ops), coq_flags(&answers));
        emit(
            "CASE",
            json!({"id": case, "kind": "memo", "approver": name,
                   "transactions": txs.iter().map(|(l, t, c)| json!({"label": l, "txid": t.compute_txid().to_string(), "lock_time": t.lock_time.to_consensus_u32(),
                        "inputs": c.iter().map(|c| json!({"outpoint": format!("{}:{}", c.prev.compute_txid(), c.vout), "value_sat": c.prev.output[0].value.to_sat()})).collect::<Vec<_>>(),
                        "outputs": t.output.iter().enumerate().map(|(i, o)| json!({"value_sat": o.value.to_sat(), "to": if i == 0 { "unknown destination" } else { "wallet change" }})).collect::<Vec<_>>()})).collect::<Vec<_>>(),
                   "operations": jops, "monitor_violation": monitor, "coq": coq}),
        );
    }
    emit("STATS", json!({"kind": "memo", "profile": profile_name(), "requests": stats, "monitor_failures": monitor_failures}));
}

// ------------------------------------------------------------------ fee runs

/// Sequences of plain spends (a wallet input, change, now and then an allowlisted output) on one node with a small,
/// non-default fee velocity limit, under the simple or the on-chain validator factory: check_onchain_tx, and
/// unchecked_sign_onchain_tx iff it passed.  The fees are cut so that their sum reaches the limit exactly, then
/// passes it; restarts and pauses of a bucket / a window in between.  The model runs the same history from the
/// CONFIGURED spec (nothing is read from the node), and the window monitor uses the harness's own record.
fn feerun_domain(args: &Args) {
    let mut rng = Rng::new(mix_seed(args.seed ^ 0xc08d));
    let secp = Secp256k1::new();
    let (mut accepted, mut refused, mut restarts, mut monitor_failures, mut at_limit, mut onchain_cases) = (0u64, 0u64, 0u64, 0u64, 0u64, 0u64);
    for case in 0..args.n {
        let (vel_kind, vel_limit, it_name) = *rng.pick(&[
            (0u8, 1_000_000u64, "Hourly"),
            (0, 10_000_000, "Hourly"),
            (0, 77_000_000, "Hourly"),
            (1, 5_000_000, "Daily"),
            (1, 50_000_000, "Daily"),
            (1, 123_456_000, "Daily"),
            (1, 1_000_000_000, "Daily"),
            (0, 1_000_000_000, "Hourly"),
            (2, 0, "Unlimited"),
        ]);
        let pol = Pol { max_feerate: *rng.pick(&[4_000_000_000u32, 4_000_000_000, 333_333]), disable_beneficial: false, rules: vec![], vel_kind, vel_limit };
        let mut seed = [0u8; 32];
        seed[0] = (case % 251) as u8;
        seed[1] = 0xcb;
        let mut world = World::new(real_policy(&pol), seed, KeyDerivationStyle::Native);
        world.onchain = rng.chance(2, 3);
        onchain_cases += world.onchain as u64;
        let mut node = world.new_node();
        let mut refw = RefWallet { secp: secp.clone(), account: node.get_account_extended_key().clone(), allow_scripts: vec![], xpubs: vec![] };
        let allow = refw.script_of(&refw.wallet_key(&path_of(&[10_500])), 0);
        refw.allow_scripts.push(allow.clone());
        node.add_allowlist(&[allow_entry_script(&allow)]).expect("add_allowlist");
        let (ivl, nb) = vel_shape(&pol);
        let lim_sat = if vel_kind == 2 { 50_000 } else { vel_limit / 1000 };
        // the fees of the run: pieces of the limit, so that the running sum lands on it, then one more
        let pattern = rng.below(5);
        let mut fees: Vec<u64> = match pattern {
            0 => vec![lim_sat / 4, lim_sat / 4, lim_sat / 4, lim_sat - 3 * (lim_sat / 4), 1, 1],
            1 => vec![lim_sat / 2 + 1, lim_sat / 2 + 1, lim_sat / 2 - 1, 1],
            2 => vec![lim_sat, 1, lim_sat],
            3 => vec![lim_sat + 1, lim_sat - 1, 1, 1],
            _ => (0..3 + rng.below(5)).map(|_| 1 + rng.below(lim_sat / 2 + 1)).collect(),
        };
        if rng.chance(1, 3) {
            fees.push(1 + rng.below(lim_sat));
        }
        let mut now = 1000 + rng.below(1_000_000);
        let mut ops: Vec<String> = vec![];
        let mut obs: Vec<String> = vec![];
        let mut jops: Vec<Value> = vec![];
        let mut log: Vec<(u64, u128)> = vec![];
        let mut monitor: Vec<String> = vec![];
        let mut dead = false;
        for (k, fee) in fees.iter().enumerate() {
            if dead {
                break;
            }
            if k > 0 {
                now += match rng.below(10) {
                    0..=4 => rng.below(ivl / 4 + 1),
                    5 => ivl - 1,
                    6 => ivl,
                    7 => ivl * (nb - 1) - 1,
                    8 => ivl * (nb - 1),
                    _ => ivl * nb + 1,
                };
                if rng.chance(1, 5) {
                    node = world.restart(&node.get_id());
                    restarts += 1;
                    ops.push("ORestart".into());
                    obs.push(format!("(0, {})", vc_obs(&fee_control(&node))));
                    jops.push(json!("restart from the store"));
                }
            }
            world.clock.set(Duration::from_secs(now));
            let key = rng.below(40) as u32;
            let in_script = refw.script_of(&refw.wallet_key(&path_of(&[key])), 0);
            let ckey = rng.below(40) as u32;
            let change = 10_000 + rng.below(5_000_000);
            let mut outputs = vec![TxOut { value: Amount::from_sat(change), script_pubkey: refw.script_of(&refw.wallet_key(&path_of(&[ckey])), 0) }];
            let mut opaths = vec![path_of(&[ckey])];
            let mut outs_coq = vec![format!("mkOut {} WalletPath (Some true) (Some false) false None", change)];
            let mut pay = 0u64;
            if rng.chance(1, 3) {
                pay = 1000 + rng.below(1_000_000);
                outputs.push(TxOut { value: Amount::from_sat(pay), script_pubkey: allow.clone() });
                opaths.push(path_of(&[]));
                outs_coq.push(format!("mkOut {} EmptyPath (Some false) (Some true) true None", pay));
            }
            let mut h = rng.bytes32();
            h[0] = k as u8;
            let tx = Transaction {
                version: Version::TWO,
                lock_time: LockTime::ZERO,
                input: vec![TxIn { previous_output: OutPoint { txid: Txid::from_slice(&h).unwrap(), vout: 0 }, script_sig: ScriptBuf::new(), sequence: Sequence::ZERO, witness: Witness::default() }],
                output: outputs,
            };
            let value = change + pay + fee;
            let prev_outs = vec![TxOut { value: Amount::from_sat(value), script_pubkey: in_script }];
            let ucks: Vec<Uck> = vec![None];
            let r = catch_unwind(AssertUnwindSafe(|| node.check_onchain_tx(&tx, &[true], &prev_outs, &ucks, &opaths)));
            let code = match &r {
                Err(_) => 1u64,
                Ok(Ok(())) => 0,
                Ok(Err(ve)) => err_obs(ve).0,
            };
            if code == 1 {
                dead = true;
            }
            let mut signed = false;
            if code == 0 {
                let sr = catch_unwind(AssertUnwindSafe(|| node.unchecked_sign_onchain_tx(&tx, &[path_of(&[key])], &prev_outs, ucks.clone())));
                signed = matches!(sr, Ok(Ok(_)));
                if !signed {
                    monitor.push("unchecked_sign_onchain_tx refused a plain wallet spend that passed the check".into());
                    dead = true;
                }
            }
            if signed {
                accepted += 1;
                log.push((now, *fee as u128 * 1000));
                let total: u128 = log.iter().map(|(_, a)| *a).sum();
                if vel_kind != 2 && total == vel_limit as u128 {
                    at_limit += 1;
                }
            } else {
                refused += 1;
            }
            let after = if dead { None } else { Some(fee_control(&node)) };
            // the control must be the configured one (the harness's record of the configuration)
            if let Some(a) = &after {
                let configured = if vel_kind == 2 { U64MAX } else { vel_limit };
                if a.limit != configured || a.bucket_interval as u64 != ivl || a.buckets.len() as u64 != nb {
                    monitor.push(format!(
                        "after request {} the fee velocity control runs with limit {} / {} buckets of {} s, configured is limit {} / {} buckets of {} s",
                        k, a.limit, a.buckets.len(), a.bucket_interval, configured, nb, ivl
                    ));
                }
            }
            ops.push(format!(
                "OTx {} (mkNode true {} {} 1 [true] [mkIn {} true] [None] {})",
                now,
                tx.base_size(),
                tx.weight().to_wu(),
                value,
                coq_list(&outs_coq)
            ));
            obs.push(format!("({}, {})", code, after.as_ref().map(vc_obs).unwrap_or_else(|| "(0, 0, [], 0)".into())));
            jops.push(json!({"request": k, "now": now, "fee_sat": fee, "input_value_sat": value, "change_sat": change, "to_allowlisted_sat": pay,
                             "check_code": code, "signed": signed, "fee_control_after": after.as_ref().map(vc_json)}));
        }
        if vel_kind != 2 {
            if let Some((t0, len, sum)) = window_violation(&log, vel_limit, ivl, nb) {
                monitor.push(format!(
                    "the fees of the spends signed in the window [{}, {}+{}) sum to {} msat, above the configured fee velocity limit {}",
                    t0, t0, len, sum, vel_limit
                ));
            }
        }
        if !monitor.is_empty() {
            monitor_failures += 1;
        }
        let coq = format!("(([], {}, {}, {}), {}, {})", coq_pol(&pol), it_name, vel_limit, coq_list(&ops), coq_list(&obs));
        emit(
            "CASE",
            json!({"id": case, "kind": "feerun", "validator_factory": if world.onchain { "OnchainValidatorFactory over SimpleValidatorFactory" } else { "SimpleValidatorFactory" },
                   "policy": pol_json(&pol), "operations": jops, "signed_fees(time,msat)": log.iter().map(|(t, a)| json!([t, a.to_string()])).collect::<Vec<_>>(),
                   "monitor_violation": monitor, "coq": if dead { Value::Null } else { json!(coq) }}),
        );
    }
    emit("STATS", json!({"kind": "feerun", "profile": profile_name(), "signed": accepted, "refused": refused, "restarts": restarts,
        "cases_under_the_onchain_validator_factory": onchain_cases, "runs_whose_signed_fees_sum_to_the_limit_exactly": at_limit, "monitor_failures": monitor_failures}));
}

fn main() {
    // expected panics of the code under test are caught; keep them to one line on stderr
    std::panic::set_hook(Box::new(|info| {
        if let Some(l) = info.location() {
            eprintln!("panic at {}:{}", l.file(), l.line());
        }
    }));
    let argv: Vec<String> = std::env::args().collect();
    let args = parse_args(&argv[2..]);
    match argv[1].as_str() {
        "node" => node_domain(&args),
        "val" => val_domain(&args),
        "witness" => witness_domain(&args),
        "handler" => handler_domain(&args),
        "memo" => memo_domain(&args),
        "feerun" => feerun_domain(&args),
        other => {
            eprintln!("unknown sub-domain {}", other);
            std::process::exit(2);
        }
    }
}
