//! Domain `pay` (C06): one real Node with 2-3 real channels; commitment updates with HTLCs for a
//! small universe of payment hashes, keysend approvals, restarts.  Each history is emitted as a
//! `pay_case` of Model/PaymentsCheck.v with the observed ledger after every request, and the
//! property itself is checked on the implementation's answers from the harness's own record of
//! the accepted commitment contents.
use std::collections::BTreeMap;
use std::panic::{catch_unwind, AssertUnwindSafe};
use std::sync::Arc;

use lightning_signer::bitcoin::bip32::DerivationPath;
use lightning_signer::bitcoin::secp256k1::{PublicKey, Secp256k1, SecretKey};
use lightning_signer::channel::{ChannelId, ChannelSlot};
use lightning_signer::lightning::ln::chan_utils::build_commitment_secret;
use lightning_signer::lightning::types::payment::PaymentHash;
use lightning_signer::node::Node;
use lightning_signer::policy::validator::EnforcementState;
use lightning_signer::signer::derive::KeyDerivationStyle;
use lightning_signer::tx::tx::HTLCInfo2;
use lightning_signer::util::test_utils::{
    channel_commitment, counterparty_sign_holder_commitment, make_test_channel_setup,
    make_test_counterparty_keys, TestChannelContext, TestNodeContext,
};
use serde_json::json;
use vharness::*;

const INITIAL: u64 = (1 << 48) - 1;
const VALUE: u64 = 3_000_000;
const CP_SEED: [u8; 32] = [3u8; 32];
const HASHES: [u64; 3] = [1, 2, 3];
const IN_CLTV: u32 = 2000;
const OUT_CLTV: u32 = 1000;

/// hash -> list of HTLC parts (sat), for the outgoing and the incoming direction
#[derive(Clone, Default, Debug, PartialEq)]
struct Content {
    out: BTreeMap<u64, Vec<u64>>,
    inn: BTreeMap<u64, Vec<u64>>,
}
impl Content {
    fn sum(m: &BTreeMap<u64, Vec<u64>>, h: u64) -> u64 {
        m.get(&h).map(|v| v.iter().sum()).unwrap_or(0)
    }
    fn htlcs(m: &BTreeMap<u64, Vec<u64>>, cltv: u32) -> Vec<HTLCInfo2> {
        let mut v = vec![];
        for (h, parts) in m {
            for p in parts {
                v.push(HTLCInfo2 { value_sat: *p, payment_hash: ph(*h), cltv_expiry: cltv });
            }
        }
        v
    }
    fn total(m: &BTreeMap<u64, Vec<u64>>) -> u64 {
        m.values().map(|v| v.iter().sum::<u64>()).sum()
    }
    fn balances(&self) -> (u64, u64) {
        (1_500_000 - Self::total(&self.out), VALUE - 20_000 - 1_500_000 - Self::total(&self.inn))
    }
    fn coq_map(m: &BTreeMap<u64, Vec<u64>>) -> String {
        let items: Vec<String> = m
            .iter()
            .filter(|(_, v)| !v.is_empty())
            .map(|(h, v)| format!("({}, {})", h, v.iter().sum::<u64>()))
            .collect();
        coq_list(&items)
    }
    fn coq(&self) -> String {
        format!("(mkCt {} {})", Self::coq_map(&self.out), Self::coq_map(&self.inn))
    }
    fn clean(&mut self) {
        self.out.retain(|_, v| !v.is_empty());
        self.inn.retain(|_, v| !v.is_empty());
    }
    /// the identity of the commitment content as the enforcement state sees it: every HTLC
    /// (the payments model only sees the sums per hash)
    fn key(&self) -> String {
        let norm = |m: &BTreeMap<u64, Vec<u64>>| -> Vec<(u64, Vec<u64>)> {
            m.iter()
                .filter(|(_, v)| !v.is_empty())
                .map(|(h, v)| {
                    let mut v = v.clone();
                    v.sort();
                    (*h, v)
                })
                .collect()
        };
        format!("{:?}|{:?}", norm(&self.out), norm(&self.inn))
    }
    /// what a stored commitment holds, from the node's point of view
    fn of_info(info: &lightning_signer::tx::tx::CommitmentInfo2, holder: bool) -> Content {
        let mut c = Content::default();
        let hid = |p: &PaymentHash| HASHES.iter().copied().find(|h| ph(*h) == *p).unwrap_or(99);
        let (ours, theirs) = if holder { (&info.offered_htlcs, &info.received_htlcs) } else { (&info.received_htlcs, &info.offered_htlcs) };
        for h in ours {
            c.out.entry(hid(&h.payment_hash)).or_default().push(h.value_sat);
        }
        for h in theirs {
            c.inn.entry(hid(&h.payment_hash)).or_default().push(h.value_sat);
        }
        c
    }
}

/// content identities for the enforcement model: 0 is the commitment without HTLCs
#[derive(Default)]
struct Cids(BTreeMap<String, u64>);
impl Cids {
    fn of(&mut self, c: &Content) -> u64 {
        let n = self.0.len() as u64;
        *self.0.entry(c.key()).or_insert(n)
    }
}

fn preimage(h: u64) -> [u8; 32] {
    let mut b = [0x5au8; 32];
    b[0] = h as u8;
    b
}
/// hash id h stands for sha256(preimage(h)), so that the preimage can be handed to the signer
fn ph(h: u64) -> PaymentHash {
    use lightning_signer::bitcoin::hashes::{sha256::Hash as Sha256Hash, Hash};
    PaymentHash(Sha256Hash::hash(&preimage(h)).to_byte_array())
}

struct Chan {
    id: ChannelId,
    ctx: TestChannelContext,
    // the harness's own record of what was accepted
    hcur: Content,
    ccur: Content,
    hnxt: Option<Content>,
    /// the number of a revocation that was refused: the node retries with the same number
    /// (a refused request changes nothing, so this is the signer's next number anyway)
    pending_revoke: Option<u64>,
    /// holder commitment numbers whose secret a revocation reply handed out
    disclosed: Vec<u64>,
    /// the last revocation reply: (number of the point, number of the secret)
    last_revoke_reply: (Option<u64>, Option<u64>),
}

struct Sys {
    world: World,
    node: Arc<Node>,
    node_id: PublicKey,
    chans: Vec<Chan>,
    secp: Secp256k1<lightning_signer::bitcoin::secp256k1::All>,
}

fn cp_secret(n: u64) -> [u8; 32] {
    build_commitment_secret(&CP_SEED, INITIAL - n)
}

impl Sys {
    fn nctx(&self) -> TestNodeContext {
        TestNodeContext { node: self.node.clone(), secp_ctx: Secp256k1::signing_only() }
    }
    fn estate(&self, i: usize) -> EnforcementState {
        let slot = self.node.get_channel(&self.chans[i].id).expect("slot");
        let g = slot.lock().unwrap();
        match &*g {
            ChannelSlot::Ready(c) => c.enforcement_state.clone(),
            _ => panic!("stub"),
        }
    }

    fn new(case: usize, nch: usize) -> Sys {
        let mut policy = World::default_policy();
        // one case in three under a filter whose strict rule shadows the permissive one: nothing is downgraded
        if case % 3 == 2 {
            policy.filter = shadowed_permissive_filter();
        }
        // every second case under a finite node-wide velocity limit, far above what the histories approve
        // (so every ordinary approval passes) and below the amount of Op::RefusedApproval
        if case % 2 == 1 {
            policy.global_velocity_control = lightning_signer::util::velocity::VelocityControlSpec {
                limit_msat: VELOCITY_LIMIT_MSAT,
                interval_type: lightning_signer::util::velocity::VelocityControlIntervalType::Daily,
            };
        }
        let mut seed = [0u8; 32];
        seed[0] = (case % 251) as u8;
        seed[1] = 0xa7;
        let world = World::new(policy, seed, KeyDerivationStyle::Native);
        let node = world.new_node();
        let node_id = node.get_id();
        let secp = Secp256k1::new();
        let peer = PublicKey::from_secret_key(&secp, &SecretKey::from_slice(&[9u8; 32]).unwrap()).serialize();
        let mut sys = Sys { world, node, node_id, chans: vec![], secp };
        for i in 0..nch {
            let (id, _) = sys.node.new_channel(i as u64 + 1, &peer, &sys.node).expect("new_channel");
            let mut setup = make_test_channel_setup();
            setup.channel_value_sat = VALUE;
            // distinct funding outpoints per channel
            setup.funding_outpoint.vout = i as u32;
            sys.node.setup_channel(id.clone(), None, setup.clone(), &DerivationPath::master()).expect("setup");
            let keys = make_test_counterparty_keys(&sys.nctx(), &id, VALUE);
            let ctx = TestChannelContext { channel_id: id.clone(), setup, counterparty_keys: keys };
            sys.chans.push(Chan { id, ctx, hcur: Content::default(), ccur: Content::default(), hnxt: None, pending_revoke: None, disclosed: vec![], last_revoke_reply: (None, None) });
            // initial commitments on both sides, without HTLCs
            let nctx = sys.nctx();
            let mut c0 = channel_commitment(&nctx, &sys.chans[i].ctx, 0, 1100, VALUE - 1000, 0, vec![], vec![]);
            let (sig, hs) = counterparty_sign_holder_commitment(&nctx, &sys.chans[i].ctx, &mut c0);
            sys.node
                .with_channel(&sys.chans[i].id, |c| {
                    c.validate_holder_commitment_tx_phase2(0, 1100, VALUE - 1000, 0, vec![], vec![], &sig, &hs)?;
                    c.activate_initial_commitment()?;
                    let pt = PublicKey::from_secret_key(&Secp256k1::new(), &SecretKey::from_slice(&cp_secret(0)).unwrap());
                    c.sign_counterparty_commitment_tx_phase2(&pt, 0, 1100, VALUE - 1000, 0, vec![], vec![])?;
                    Ok(())
                })
                .expect("initial commitments");
        }
        sys
    }

    fn restart(&mut self) {
        self.node = self.world.restart(&self.node_id);
    }

    /// keep the counterparty window open: revoke their oldest unrevoked commitment if needed
    /// (returns the revoked number)
    fn make_room_for_cp(&self, i: usize) -> Option<u64> {
        let e = self.estate(i);
        if e.next_counterparty_commit_num > e.next_counterparty_revoke_num + 1 {
            let r = e.next_counterparty_revoke_num;
            let sk = SecretKey::from_slice(&cp_secret(r)).unwrap();
            self.node
                .with_channel(&self.chans[i].id, |c| c.validate_counterparty_revocation(r, &sk))
                .expect("counterparty revocation");
            return Some(r);
        }
        None
    }

    fn disk_estate(&self, i: usize) -> Option<EnforcementState> {
        use lightning_signer::persist::Persist;
        let chans = self.world.persister.get_node_channels(&self.node_id).expect("channels");
        chans.into_iter().find(|(id, _)| *id == self.chans[i].id).map(|(_, e)| e.enforcement_state)
    }

    /// which holder commitment number a point / a secret of channel i belongs to (small range)
    fn point_number(&self, i: usize, p: &PublicKey) -> Option<u64> {
        use lightning_signer::lightning::sign::ChannelSigner;
        let slot = self.node.get_channel(&self.chans[i].id).expect("slot");
        let g = slot.lock().unwrap();
        let keys = match &*g {
            ChannelSlot::Ready(c) => c.keys.clone(),
            ChannelSlot::Stub(s) => s.keys.clone(),
        };
        (0..64u64).find(|k| keys.get_per_commitment_point(INITIAL - k, &self.secp).ok() == Some(*p))
    }
    fn secret_number(&self, i: usize, s: &[u8]) -> Option<u64> {
        use lightning_signer::lightning::sign::ChannelSigner;
        let slot = self.node.get_channel(&self.chans[i].id).expect("slot");
        let g = slot.lock().unwrap();
        let keys = match &*g {
            ChannelSlot::Ready(c) => c.keys.clone(),
            ChannelSlot::Stub(s) => s.keys.clone(),
        };
        (0..64u64).find(|k| keys.release_commitment_secret(INITIAL - k).ok().map(|x| x.to_vec()) == Some(s.to_vec()))
    }

    /// identity of a counterparty point: n for the point of cp_secret(n)
    fn cp_point_id(&self, p: &Option<PublicKey>) -> String {
        match p {
            None => "None".into(),
            Some(p) => match (0..64u64).find(|n| PublicKey::from_secret_key(&self.secp, &SecretKey::from_slice(&cp_secret(*n)).unwrap()) == *p) {
                Some(n) => format!("Some {}", n),
                None => "Some 9999".into(),
            },
        }
    }

    /// Model/EnforcementCheck.v eobs of one stored enforcement state
    fn estate_coq(&self, e: &EnforcementState, cids: &mut Cids) -> String {
        let mut id = |o: &Option<lightning_signer::tx::tx::CommitmentInfo2>, holder: bool| -> String {
            o.as_ref().map(|i| format!("Some {}", cids.of(&Content::of_info(i, holder)))).unwrap_or("None".into())
        };
        let cur_h = id(&e.current_holder_commit_info, true);
        let nxt_h = id(&e.next_holder_commit_info.as_ref().map(|(i, _)| i.clone()), true);
        let cur_c = id(&e.current_counterparty_commit_info, false);
        let prev_c = id(&e.previous_counterparty_commit_info, false);
        let min_seen = e.counterparty_secrets.as_ref().map(|s| s.get_min_seen_secret()).unwrap_or(1 << 48);
        format!(
            "(({}, {}, {}, {}), ({}, {}, {}, {}, {}, {}), {})",
            e.next_holder_commit_num, cur_h, nxt_h, coq_bool(e.channel_closed),
            e.next_counterparty_commit_num, e.next_counterparty_revoke_num,
            self.cp_point_id(&e.current_counterparty_point), self.cp_point_id(&e.previous_counterparty_point),
            cur_c, prev_c, min_seen
        )
    }
    /// memory and persisted image of every channel
    fn chans_coq(&self, cids: &mut Cids) -> String {
        let rows: Vec<String> = (0..self.chans.len())
            .map(|i| {
                let m = self.estate(i);
                let d = self.disk_estate(i).unwrap_or(m.clone());
                format!("Some ({}, {})", self.estate_coq(&m, cids), self.estate_coq(&d, cids))
            })
            .collect();
        coq_list(&rows)
    }

    /// `off`: 0 = the next number; -1 = a retry of the current one; -2 = a stale number
    /// (a replayed request); +1 = a number from the future
    fn sign_cp(&mut self, i: usize, c: &Content, off: i64) -> bool {
        let n = (self.estate(i).next_counterparty_commit_num as i64 + off).max(0) as u64;
        let pt = PublicKey::from_secret_key(&self.secp, &SecretKey::from_slice(&cp_secret(n)).unwrap());
        let (to_h, to_c) = c.balances();
        // their commitment: they offer what comes in to us, they receive what we send
        let offered = Content::htlcs(&c.inn, IN_CLTV);
        let received = Content::htlcs(&c.out, OUT_CLTV);
        let r = self.node.with_channel(&self.chans[i].id, |ch| {
            ch.sign_counterparty_commitment_tx_phase2(&pt, n, 1100, to_h, to_c, offered.clone(), received.clone())
        });
        if r.is_ok() && off == 0 {
            self.chans[i].ccur = c.clone();
        }
        r.is_ok()
    }

    fn validate_holder(&mut self, i: usize, c: &Content, off: i64) -> bool {
        let n = (self.estate(i).next_holder_commit_num as i64 + off).max(0) as u64;
        let (to_h, to_c) = c.balances();
        let offered = Content::htlcs(&c.out, OUT_CLTV);
        let received = Content::htlcs(&c.inn, IN_CLTV);
        let nctx = self.nctx();
        let mut ctx = channel_commitment(&nctx, &self.chans[i].ctx, n, 1100, to_h, to_c, offered.clone(), received.clone());
        let (sig, hs) = counterparty_sign_holder_commitment(&nctx, &self.chans[i].ctx, &mut ctx);
        let r = self.node.with_channel(&self.chans[i].id, |ch| {
            ch.validate_holder_commitment_tx_phase2(n, 1100, to_h, to_c, offered.clone(), received.clone(), &sig, &hs)
        });
        if r.is_ok() && off == 0 {
            self.chans[i].hnxt = Some(c.clone());
        }
        r.is_ok()
    }

    fn revoke(&mut self, i: usize) -> bool {
        let n = self.chans[i].pending_revoke.unwrap_or(self.estate(i).next_holder_commit_num);
        let r = self.node.with_channel(&self.chans[i].id, |ch| ch.revoke_previous_holder_commitment(n));
        self.chans[i].last_revoke_reply = match &r {
            Ok((p, s)) => (self.point_number(i, p), s.as_ref().and_then(|s| self.secret_number(i, &s[..]))),
            Err(_) => (None, None),
        };
        match &r {
            Ok((_, secret)) => {
                self.chans[i].pending_revoke = None;
                if secret.is_some() && n >= 1 {
                    self.chans[i].disclosed.push(n - 1);
                }
                if let Some(c) = self.chans[i].hnxt.take() {
                    self.chans[i].hcur = c;
                }
            }
            Err(_) => self.chans[i].pending_revoke = Some(n),
        }
        r.is_ok()
    }

    /// C02 after a disclosure: a signer restored from a copy of the store is asked to sign, for
    /// broadcast, every holder commitment whose secret a revocation reply of channel `i` handed out
    fn c02_probe(&self, i: usize) -> Vec<String> {
        let mut v = vec![];
        if let Some(shadow) = self.world.restore_on_copy(&self.node_id) {
            for n in self.chans[i].disclosed.iter().rev().take(2) {
                let r = catch_unwind(AssertUnwindSafe(|| shadow.with_channel(&self.chans[i].id, |ch| ch.sign_holder_commitment_tx_phase2(*n)).is_ok()));
                if matches!(r, Ok(true)) {
                    v.push(format!(
                        "C02: a signer restarted right after the revocation reply that handed out the secret of holder commitment {} of channel {} signs that commitment for broadcast",
                        n, i
                    ));
                }
            }
        }
        v
    }

    /// C02 at the end of a history: the signer is restarted from its store and asked for its
    /// signature on the current holder commitment of every channel (a force close), and on the
    /// next number; none of the numbers it signs may be one whose secret a revocation reply
    /// handed out.  Also returns these requests as joint-model steps (op, observation).
    fn force_close_all(&mut self, cids: &mut Cids) -> (Vec<String>, Vec<(String, String)>) {
        let mut v = vec![];
        let mut steps = vec![];
        let (world, id) = (&self.world, self.node_id);
        match catch_unwind(AssertUnwindSafe(|| world.restart(&id))) {
            Ok(n) => self.node = n,
            Err(_) => return (v, steps),
        }
        steps.push(("JRestart".to_string(), format!("(mkO Ok None None None None, {}, {})", self.observe(), self.chans_coq(cids))));
        for i in 0..self.chans.len() {
            let node = self.node.clone();
            let cid = self.chans[i].id.clone();
            let next = self.estate(i).next_holder_commit_num;
            for n in [next.saturating_sub(1), next] {
                let cur = self.estate(i).current_holder_commit_info.as_ref().map(|x| Content::of_info(x, true));
                let r = catch_unwind(AssertUnwindSafe(|| node.with_channel(&cid, |ch| ch.sign_holder_commitment_tx_phase2(n)).is_ok()));
                let okk = matches!(r, Ok(true));
                if r.is_err() {
                    return (v, steps);
                }
                if okk && self.chans[i].disclosed.contains(&n) {
                    v.push(format!(
                        "C02: after a restart channel {} signs holder commitment {} for broadcast although a revocation reply handed out the secret of {} (disclosed: {:?})",
                        i, n, n, self.chans[i].disclosed
                    ));
                }
                let outp = if okk {
                    format!("mkO Ok None None (Some ({}, {})) None", n, cur.map(|c| cids.of(&c)).unwrap_or(9999))
                } else {
                    "mkO Refused None None None None".to_string()
                };
                steps.push((format!("JSignHolder {} {}", i, n), format!("({}, {}, {})", outp, self.observe(), self.chans_coq(cids))));
            }
        }
        (v, steps)
    }

    fn observe(&self) -> String {
        let st = self.node.get_state();
        let mut rows = vec![];
        for h in HASHES {
            let inv = st.invoices.get(&ph(h)).map(|p| format!("Some {}", p.amount_msat)).unwrap_or("None".into());
            let (known, cells) = match st.payments.get(&ph(h)) {
                Some(p) => (
                    format!("({}, {})", coq_bool(true), coq_bool(p.preimage.is_some())),
                    self.chans
                        .iter()
                        .map(|c| {
                            format!(
                                "({}, {})",
                                p.incoming.get(&c.id).copied().unwrap_or(0),
                                p.outgoing.get(&c.id).copied().unwrap_or(0)
                            )
                        })
                        .collect::<Vec<_>>(),
                ),
                None => ("(false, false)".to_string(), self.chans.iter().map(|_| "(0, 0)".to_string()).collect()),
            };
            rows.push(format!("({}, {}, {})", inv, known, coq_list(&cells)));
        }
        coq_list(&rows)
    }

    /// in-flight value per hash from the harness's own record: (incoming, outgoing) in sat
    fn flight(&self, h: u64) -> (u64, u64) {
        let mut i_t = 0;
        let mut o_t = 0;
        for c in &self.chans {
            o_t += Content::sum(&c.hcur.out, h).max(Content::sum(&c.ccur.out, h));
            let (a, b) = (Content::sum(&c.hcur.inn, h), Content::sum(&c.ccur.inn, h));
            i_t += a.min(b);
        }
        (i_t, o_t)
    }
}

fn mutate(rng: &mut Rng, base: &Content, invoice_msat: &BTreeMap<u64, u64>, fee_sat: u64) -> Content {
    let mut c = base.clone();
    let h = *rng.pick(&HASHES);
    let a_sat = invoice_msat.get(&h).map(|a| a / 1000).unwrap_or(100_000);
    let amt = match rng.below(8) {
        0 => a_sat,
        1 => a_sat / 2,
        2 => a_sat + fee_sat,
        3 => a_sat + fee_sat + 1,
        4 => a_sat - a_sat / 2,
        5 => 10_000,
        6 => a_sat + a_sat / 10 + fee_sat,
        _ => 10_000 + rng.below(a_sat.max(1)),
    };
    // an approval of 0 backs nothing: ordinary amounts go to its hash (and no dust-sized HTLCs,
    // which the transaction builder of the test utilities cannot place)
    let amt = if a_sat == 0 { *rng.pick(&[10_000u64, 50_000, 100_223]) } else { amt };
    match rng.below(8) {
        0 | 1 | 2 => c.out.entry(h).or_default().push(amt),
        3 => {
            c.out.remove(&h);
        }
        4 | 5 => c.inn.entry(h).or_default().push(amt),
        6 => {
            c.inn.remove(&h);
        }
        _ => {
            if let Some(v) = c.out.get_mut(&h) {
                v.pop();
            }
        }
    }
    c.clean();
    // keep the commitment balanced and small
    if Content::total(&c.out) > 1_200_000 || Content::total(&c.inn) > 1_200_000 || c.out.values().chain(c.inn.values()).map(|v| v.len()).sum::<usize>() > 6 {
        return base.clone();
    }
    c
}

#[derive(Clone)]
enum Op {
    Invoice(u64, u64),
    SignCp(usize, Content),
    Validate(usize, Content),
    Revoke(usize),
    /// a request whose number is not the next one and whose content differs from what the
    /// channel holds for that number: refused by the commitment-number rules, whatever the
    /// payments look like
    SignCpOff(usize, Content, i64),
    ValidateOff(usize, Content, i64),
    /// the node hands over the preimage of hash h on channel i (Channel::htlcs_fulfilled)
    Fulfil(usize, u64),
    /// Node::get_heartbeat (prunes payment records that carry nothing)
    Heartbeat,
    Restart,
    /// the node force-closes channel i: the signer signs the current holder commitment; the HTLCs
    /// of that commitment stay in flight (they are resolved on-chain later)
    ForceClose(usize),
    /// a keysend for hash h that the node-wide velocity limit refuses (amount above the whole limit): not a
    /// request of the models (they have no velocity control); it must change nothing (C10), and the hash stays
    /// without approval and without payment record for what follows (C06)
    RefusedApproval(u64),
}

const VELOCITY_LIMIT_MSAT: u64 = 1_000_000_000_000_000;

fn run_case(case: usize, nch: usize, script: Option<Vec<Op>>, rng: &mut Rng, len: usize) -> serde_json::Value {
    let mut sys = Sys::new(case, nch);
    let fee_msat = sys.world.policy.max_routing_fee_msat;
    let pct = sys.world.policy.max_feerate_percentage as u64;
    let payee = PublicKey::from_secret_key(&sys.secp, &SecretKey::from_slice(&[3u8; 32]).unwrap());
    let mut ops = vec![];
    let mut obs = vec![];
    let mut jops = vec![];
    let mut invoices: BTreeMap<u64, u64> = BTreeMap::new();
    let mut late_invoice: Vec<u64> = vec![];
    let mut seen: Vec<u64> = vec![]; // hashes for which the signer has seen an HTLC or an invoice
    let mut violations: Vec<String> = vec![];
    let mut approval_kind: BTreeMap<u64, u8> = BTreeMap::new();
    let mut bolt11: BTreeMap<u64, lightning_signer::invoice::Invoice> = BTreeMap::new();
    let mut aborted = false;
    let n_steps = script.as_ref().map(|s| s.len()).unwrap_or(len);
    let mut retry_revoke: Option<usize> = None;
    let mut closed: Option<usize> = None;
    // the same history as a case of Model/JointCheck.v: explicit numbers, points and content
    // identities, the counterparty revocations the harness slips in, the reply and after every
    // request the ledger and the enforcement state (memory and store) of every channel
    let mut cids = Cids::default();
    cids.of(&Content::default());
    let mut jt_ops: Vec<String> = vec![];
    let mut jt_obs: Vec<String> = vec![];
    for step in 0..n_steps {
        let op = match &script {
            Some(s) => s[step].clone(),
            // a node whose revocation was refused although a validated successor is waiting asks again
            None if retry_revoke.is_some() && rng.chance(2, 3) => Op::Revoke(retry_revoke.take().unwrap()),
            None => {
                retry_revoke = None;
                let i = rng.below(nch as u64) as usize;
                match rng.below(20) {
                    0 | 1 | 2 => {
                        let h = *rng.pick(&HASHES);
                        // also approvals that name no amount (an amountless BOLT11 invoice, a keysend of 0): they back nothing
                        let a = *rng.pick(&[100_000_000u64, 50_000_000, 200_000_000, 100_000_000, 0]);
                        Op::Invoice(h, a)
                    }
                    3..=8 => Op::SignCp(i, mutate(rng, &sys.chans[i].ccur.clone(), &invoices, fee_msat / 1000)),
                    9..=13 => {
                        let base = sys.chans[i].hnxt.clone().unwrap_or(sys.chans[i].hcur.clone());
                        Op::Validate(i, mutate(rng, &base, &invoices, fee_msat / 1000))
                    }
                    14..=15 => Op::Revoke(i),
                    16 => match rng.below(3) {
                        0 => Op::Fulfil(i, *rng.pick(&HASHES)),
                        1 => Op::Heartbeat,
                        _ => Op::Revoke(i),
                    },
                    17 => {
                        // replayed / early requests with other HTLC sets (they must change nothing)
                        let off = *rng.pick(&[-2i64, -2, -3, 2]);
                        if rng.chance(1, 2) {
                            let e = sys.estate(i);
                            let base = if rng.chance(1, 2) { sys.chans[i].hcur.clone() } else { sys.chans[i].ccur.clone() };
                            let c = mutate(rng, &base, &invoices, fee_msat / 1000);
                            if (e.next_counterparty_commit_num as i64) + off >= 0 && c.coq() != sys.chans[i].ccur.coq() {
                                Op::SignCpOff(i, c, off)
                            } else {
                                Op::Revoke(i)
                            }
                        } else {
                            let e = sys.estate(i);
                            let off = -off.abs();
                            let c = mutate(rng, &sys.chans[i].hcur.clone(), &invoices, fee_msat / 1000);
                            if (e.next_holder_commit_num as i64) + off >= 0 && c.coq() != sys.chans[i].hcur.coq() {
                                Op::ValidateOff(i, c, off)
                            } else {
                                Op::Revoke(i)
                            }
                        }
                    }
                    18 => {
                        // mirror: bring the other side of the channel to the same content
                        if rng.chance(1, 2) {
                            Op::SignCp(i, sys.chans[i].hnxt.clone().unwrap_or(sys.chans[i].hcur.clone()))
                        } else {
                            Op::Validate(i, sys.chans[i].ccur.clone())
                        }
                    }
                    19 if nch >= 2 && closed.is_none() && rng.chance(1, 3) => Op::ForceClose(i),
                    19 | 16 if case % 2 == 1 && rng.chance(1, 2) && HASHES.iter().any(|h| !invoices.contains_key(h)) => {
                        let free: Vec<u64> = HASHES.iter().cloned().filter(|h| !invoices.contains_key(h)).collect();
                        Op::RefusedApproval(*rng.pick(&free))
                    }
                    _ => Op::Restart,
                }
            }
        };
        // a closed channel takes no further holder-side updates: those requests go to a neighbour
        let op = match (&op, closed) {
            (Op::Validate(i, c), Some(x)) if *i == x => Op::Validate((x + 1) % nch, c.clone()),
            (Op::ValidateOff(i, _, _), Some(x)) if *i == x => Op::Revoke((x + 1) % nch),
            (Op::Revoke(i), Some(x)) if *i == x => Op::Revoke((x + 1) % nch),
            _ => op,
        };
        if let Op::SignCp(i, _) = &op {
            // not part of the request under observation: let the counterparty revoke first
            if let Some(r) = sys.make_room_for_cp(*i) {
                jt_ops.push(format!("JCpRevoke {} {} {} {} true", i, r, r, r));
                jt_obs.push(format!("(mkO Ok None None None None, {}, {})", sys.observe(), sys.chans_coq(&mut cids)));
            }
        }
        // what the request is for the joint model (numbers as the node would send them)
        let jpre: (String, u8, u64, u64) = match &op {
            Op::SignCp(i, c) | Op::SignCpOff(i, c, _) => {
                let off = if let Op::SignCpOff(_, _, off) = &op { *off } else { 0 };
                let n = (sys.estate(*i).next_counterparty_commit_num as i64 + off).max(0) as u64;
                let cid = cids.of(c);
                (format!("JSignCp {} {} {} {} {} true", i, n, n, cid, c.coq()), 1, n, cid)
            }
            Op::Validate(i, c) | Op::ValidateOff(i, c, _) => {
                let off = if let Op::ValidateOff(_, _, off) = &op { *off } else { 0 };
                let n = (sys.estate(*i).next_holder_commit_num as i64 + off).max(0) as u64;
                let cid = cids.of(c);
                (format!("JValidateHolder {} {} {} {} SGood true", i, n, cid, c.coq()), 0, n, cid)
            }
            Op::Revoke(i) => {
                let n = sys.chans[*i].pending_revoke.unwrap_or(sys.estate(*i).next_holder_commit_num);
                (format!("JRevoke {} {}", i, n), 2, *i as u64, 0)
            }
            Op::Fulfil(_, h) => (format!("JFulfil {}", h), 0, 0, 0),
            Op::Heartbeat => ("JHeartbeat".to_string(), 0, 0, 0),
            Op::Restart => ("JRestart".to_string(), 0, 0, 0),
            Op::Invoice(_, _) => (String::new(), 3, 0, 0),
            Op::RefusedApproval(_) => (String::new(), 9, 0, 0),
            Op::ForceClose(i) => {
                let e = sys.estate(*i);
                let n = e.next_holder_commit_num.saturating_sub(1);
                let cid = e.current_holder_commit_info.as_ref().map(|x| cids.of(&Content::of_info(x, true))).unwrap_or(9999);
                (format!("JSignHolder {} {}", i, n), 4, n, cid)
            }
        };
        let before: Vec<(u64, u64)> = HASHES.iter().map(|h| sys.flight(*h)).collect();
        let before_fp = fingerprint_full(&sys.node);
        let before_store = store_dump(&sys.world.persister);
        let (coq, j, ok, is_update) = {
            let r = catch_unwind(AssertUnwindSafe(|| match &op {
                Op::Invoice(h, a) => {
                    let (_, o) = sys.flight(*h);
                    // four routes to an approval: keysend / BOLT11 invoice, each through the Node
                    // call or as the protocol message (PreapproveKeysend / PreapproveInvoice) to a
                    // RootHandler with an approving approver.  A hash keeps the kind it got first
                    // (another kind for a known hash is "a different invoice": refused).
                    use vls_protocol::msgs::{self, Message, SerBolt};
                    use vls_protocol_signer::handler::Handler;
                    let via_msg = rng.chance(1, 2);
                    let kind = *approval_kind.entry(*h).or_insert_with(|| if rng.chance(1, 2) { 1u8 } else { 0u8 });
                    let now_secs = { use lightning_signer::util::clock::Clock; sys.world.clock.now().as_secs() };
                    let r = if kind == 1 {
                        let inv = bolt11.entry(*h).or_insert_with(|| make_bolt11(ph(*h).0, *a, now_secs)).clone();
                        if via_msg {
                            let root = make_root_handler(&sys.node, 6);
                            let s = match &inv {
                                lightning_signer::invoice::Invoice::Bolt11(b) => b.to_string(),
                                _ => unreachable!(),
                            };
                            let m = msgs::PreapproveInvoice { invstring: vls_protocol::serde_bolt::WireString(s.into_bytes()) };
                            let msg = msgs::from_vec(m.as_vec()).expect("request survives the wire");
                            match root.handle(msg).map(|rep| msgs::from_vec(rep.as_vec())) {
                                Ok(Ok(Message::PreapproveInvoiceReply(rep))) => rep.result,
                                _ => false,
                            }
                        } else {
                            sys.node.add_invoice(inv).unwrap_or(false)
                        }
                    } else if via_msg {
                        let root = make_root_handler(&sys.node, 6);
                        let m = msgs::PreapproveKeysend {
                            destination: vls_protocol::model::PubKey(payee.serialize()),
                            payment_hash: vls_protocol::model::Sha256(ph(*h).0),
                            amount_msat: *a,
                        };
                        let msg = msgs::from_vec(m.as_vec()).expect("request survives the wire");
                        match root.handle(msg).map(|rep| msgs::from_vec(rep.as_vec())) {
                            Ok(Ok(Message::PreapproveKeysendReply(rep))) => rep.result,
                            _ => false,
                        }
                    } else {
                        sys.node.add_keysend(payee, ph(*h), *a).map(|b| b).unwrap_or(false)
                    };
                    // the amount of a BOLT11 invoice is the one it was created with
                    let a = &match (kind, bolt11.get(h)) {
                        (1, Some(lightning_signer::invoice::Invoice::Bolt11(b))) => b.amount_milli_satoshis().unwrap_or(*a),
                        _ => *a,
                    };
                    if r && !invoices.contains_key(h) {
                        invoices.insert(*h, *a);
                        // (the theorem's hypothesis: nothing OUTGOING in flight for the hash when its approval arrives;
                        // value that is only incoming does not make the approval late)
                        if o > 0 {
                            late_invoice.push(*h);
                        }
                        seen.push(*h);
                    }
                    (format!("PAddInvoice {} {}", h, a), json!(["add_invoice", h, a]), r, false)
                }
                Op::RefusedApproval(h) => {
                    let r = sys.node.add_keysend(payee, ph(*h), 2 * VELOCITY_LIMIT_MSAT).unwrap_or(false);
                    if r {
                        invoices.insert(*h, 2 * VELOCITY_LIMIT_MSAT); // (an approval after all: the models are told)
                    }
                    (format!("PAddInvoice {} {}", h, 2 * VELOCITY_LIMIT_MSAT), json!(["keysend_above_the_velocity_limit", h]), r, false)
                }
                Op::SignCpOff(i, c, off) => {
                    let r = sys.sign_cp(*i, c, *off);
                    (format!("PSignCp {} {} false", i, c.coq()), json!(["sign_cp_off", i, c.coq(), off]), r, false)
                }
                Op::ValidateOff(i, c, off) => {
                    let r = sys.validate_holder(*i, c, *off);
                    (format!("PValidateHolder {} {} false", i, c.coq()), json!(["validate_holder_off", i, c.coq(), off]), r, false)
                }
                Op::SignCp(i, c) => {
                    let r = sys.sign_cp(*i, c, 0);
                    (format!("PSignCp {} {} true", i, c.coq()), json!(["sign_cp", i, c.coq()]), r, true)
                }
                Op::Validate(i, c) => {
                    let r = sys.validate_holder(*i, c, 0);
                    (format!("PValidateHolder {} {} true", i, c.coq()), json!(["validate_holder", i, c.coq()]), r, false)
                }
                Op::Revoke(i) => {
                    let r = sys.revoke(*i);
                    (format!("PRevoke {}", i), json!(["revoke", i]), r, true)
                }
                Op::Fulfil(i, h) => {
                    let id = sys.chans[*i].id.clone();
                    let pre = lightning_signer::lightning::types::payment::PaymentPreimage(preimage(*h));
                    let r = sys.node.with_channel(&id, |ch| {
                        ch.htlcs_fulfilled(vec![pre]);
                        Ok(())
                    });
                    (format!("PFulfil {}", h), json!(["fulfil", i, h]), r.is_ok(), false)
                }
                Op::Heartbeat => {
                    sys.node.get_heartbeat();
                    ("PHeartbeat".to_string(), json!("heartbeat"), true, false)
                }
                Op::Restart => {
                    sys.restart();
                    ("PRestart".to_string(), json!("restart"), true, false)
                }
                Op::ForceClose(i) => {
                    let n = sys.estate(*i).next_holder_commit_num.saturating_sub(1);
                    let id = sys.chans[*i].id.clone();
                    let r = sys.node.with_channel(&id, |ch| ch.sign_holder_commitment_tx_phase2(n)).is_ok();
                    // nothing the payments model tracks moves: not a step of the pay_case
                    (String::new(), json!(["force_close", i, n]), r, false)
                }
            }));
            match r {
                Ok(x) => x,
                Err(_) => {
                    aborted = true;
                    ("PRestart".to_string(), json!("panic"), false, false)
                }
            }
        };
        if aborted {
            violations.push("C06: the signer panicked while handling a commitment update".into());
            break;
        }
        // C10 / C11 monitors around every request
        if !ok && !matches!(op, Op::Restart) {
            let mut d = fingerprint_diff(&before_fp, &fingerprint_full(&sys.node));
            d.extend(store_diff(&before_store, &store_dump(&sys.world.persister)));
            if !d.is_empty() {
                violations.push(format!("C10: refused {} changed: {}", j, d.join("; ")));
            }
        }
        if !matches!(op, Op::Restart) {
            let d = restart_gap(&sys.world, &sys.node);
            if !d.is_empty() && !violations.iter().any(|v| v.starts_with("C11")) {
                violations.push(format!("C11: after {} ({}) a restart would differ: {}", j, if ok { "Ok" } else { "Err" }, d.join("; ")));
            }
        }
        // C02: whatever a revocation reply handed out must not be signable after a restart
        if let Op::Revoke(i) = &op {
            if !ok && sys.chans[*i].hnxt.is_some() {
                retry_revoke = Some(*i);
            }
            if ok {
                for x in sys.c02_probe(*i) {
                    if !violations.contains(&x) {
                        violations.push(x);
                    }
                }
            }
        }
        // the property itself, from the harness's own record of accepted contents
        if ok && is_update {
            for (k, h) in HASHES.iter().enumerate() {
                let (fi, fo) = sys.flight(*h);
                if let Some(a) = invoices.get(h) {
                    if !late_invoice.contains(h) && (fo as u128) * 1000 > (fi as u128) * 1000 + *a as u128 + fee_msat as u128 {
                        violations.push(format!(
                            "C06: hash {} has {} sat in flight outgoing, {} sat incoming, approved {} msat (+{} msat fee allowance)",
                            h, fo, fi, a, fee_msat
                        ));
                    }
                } else if !seen.contains(h) && fo > before[k].1 && fo > fi {
                    violations.push(format!(
                        "C06: outgoing HTLC for hash {} accepted without invoice, unseen before, not covered by incoming ({} > {})",
                        h, fo, fi
                    ));
                }
            }
        }
        if ok && is_update {
            // every hash that occurs in a commitment the signer applied has been "seen"
            for h in HASHES {
                let occurs = sys.chans.iter().any(|c| {
                    c.hcur.out.contains_key(&h) || c.hcur.inn.contains_key(&h)
                        || c.ccur.out.contains_key(&h) || c.ccur.inn.contains_key(&h)
                });
                if occurs && !seen.contains(&h) {
                    seen.push(h);
                }
            }
        }
        let outside_models = matches!(op, Op::RefusedApproval(_)) && !ok;
        if !outside_models {
            let (jop, kind, a, b) = jpre;
            let kind = if kind == 9 { 3 } else { kind };
            // an approval: the amount is the one the signer was given (that of the BOLT11 invoice)
            let jop = if kind == 3 { coq.replacen("PAddInvoice", "JAddInvoice", 1) } else { jop };
            let outp = if !ok {
                "mkO Refused None None None None".to_string()
            } else {
                match kind {
                    1 => format!("mkO Ok None None None (Some ({}, {}, {}))", a, a, b),
                    4 => format!("mkO Ok None None (Some ({}, {})) None", a, b),
                    2 => {
                        let o = |x: Option<u64>| x.map(|v| format!("(Some {})", v)).unwrap_or("None".into());
                        let (p, sct) = sys.chans[a as usize].last_revoke_reply;
                        format!("mkO Ok {} {} None None", o(p), o(sct))
                    }
                    _ => "mkO Ok None None None None".to_string(),
                }
            };
            jt_ops.push(jop);
            jt_obs.push(format!("({}, {}, {})", outp, sys.observe(), sys.chans_coq(&mut cids)));
        }
        if let Op::ForceClose(i) = &op {
            if ok {
                closed = Some(*i);
            }
        } else if !outside_models {
            ops.push(coq);
            obs.push(format!("({}, {})", coq_bool(ok), sys.observe()));
        }
        jops.push(json!({"op": j, "ok": ok}));
    }
    if !aborted {
        // the force close at the end is part of the joint history: a restart, then for every
        // channel the signature on the current holder commitment and on the next number
        let (viol, steps) = sys.force_close_all(&mut cids);
        violations.extend(viol);
        for (o, ob) in steps {
            jt_ops.push(o);
            jt_obs.push(ob);
        }
    }
    let hashes: Vec<String> = HASHES.iter().map(|h| h.to_string()).collect();
    let coq = format!(
        "(({}%nat, {}, {}, {}), {}, {})",
        nch,
        fee_msat,
        pct,
        coq_list(&hashes),
        coq_list(&ops),
        coq_list(&obs)
    );
    let profile = if cfg!(debug_assertions) { "Debug" } else { "Release" };
    let coq_joint = format!(
        "(({}, {}%nat, {}, {}, {}), {}, {})",
        profile, nch, fee_msat, pct, coq_list(&hashes), coq_list(&jt_ops), coq_list(&jt_obs)
    );
    json!({"id": case, "nch": nch, "ops": jops, "monitor_violations": violations, "aborted": aborted,
           "late_invoices": late_invoice, "coq": coq, "coq_joint": if aborted { serde_json::Value::Null } else { json!(coq_joint) },
           "joint_ops": jt_ops.len()})
}

fn one(h: u64, amt: u64, out: bool) -> Content {
    let mut c = Content::default();
    if out {
        c.out.insert(h, vec![amt]);
    } else {
        c.inn.insert(h, vec![amt]);
    }
    c
}

fn run(args: &Args) {
    if std::env::var("VERIF_SHOW_PANICS").is_err() {
        std::panic::set_hook(Box::new(|_| {}));
    }
    let mut rng = Rng::new(args.seed ^ 0x9a7);
    let mut n_viol = 0u64;
    let mut counts: BTreeMap<String, (u64, u64)> = BTreeMap::new();
    // corpus first: histories that once disagreed or violated the property
    let corpus: Vec<(usize, Vec<Op>)> = vec![
        // holder commitment on A validated, counterparty commitment on B signed, revoke on A
        (2, vec![Op::Invoice(1, 100_000_000), Op::Validate(0, one(1, 100_000, true)),
                 Op::SignCp(1, one(1, 100_000, true)), Op::Revoke(0)]),
        // split over two channels, exactly the approved amount plus the allowance
        (2, vec![Op::Invoice(2, 100_000_000), Op::SignCp(0, one(2, 50_000, true)), Op::SignCp(1, one(2, 50_222, true)),
                 Op::SignCp(1, one(2, 50_223, true)), Op::Restart, Op::SignCp(1, one(2, 50_223, true))]),
        // unbacked outgoing, then backed by incoming on the other channel
        (2, vec![Op::SignCp(0, one(3, 60_000, true)), Op::SignCp(1, one(3, 60_000, false)),
                 Op::Validate(1, one(3, 60_000, false)), Op::Revoke(1), Op::SignCp(0, one(3, 60_000, true))]),
        // the same payment goes out on B between the validation and the revocation on A: the
        // revocation is refused at its payment re-check, asked again, and again after a restart
        (2, vec![Op::Invoice(1, 100_000_000), Op::Validate(0, one(1, 100_000, true)),
                 Op::SignCp(1, one(1, 100_000, true)), Op::Revoke(0), Op::Revoke(0), Op::Restart, Op::Revoke(0)]),
        // a part in flight on a channel that is then force-closed, a restart, further parts on another channel
        (2, vec![Op::Invoice(1, 100_000_000), Op::SignCp(0, one(1, 60_000, true)), Op::ForceClose(0), Op::Restart,
                 Op::SignCp(1, one(1, 100_000, true)), Op::SignCp(1, one(1, 40_000, true)), Op::Restart,
                 Op::SignCp(1, one(1, 40_223, true))]),
        // a hash that is approved AND incoming (a looped route): A holds the incoming HTLC in both commitments,
        // validates a commitment that drops it, B pays out against the still-recorded incoming value, A revokes:
        // the re-check at the revocation must refuse although A's own commitment carries nothing outgoing
        (2, vec![Op::Validate(0, one(1, 200_000, false)), Op::Revoke(0), Op::SignCp(0, one(1, 200_000, false)),
                 Op::Invoice(1, 100_000_000), Op::Validate(0, Content::default()),
                 Op::SignCp(1, one(1, 300_000, true)), Op::Revoke(0), Op::Revoke(0), Op::Restart, Op::Revoke(0)]),
        (3, vec![Op::Invoice(2, 50_000_000), Op::Validate(2, one(2, 50_000, true)),
                 Op::SignCp(0, one(2, 50_000, true)), Op::Revoke(2), Op::Revoke(2), Op::Validate(2, Content::default()),
                 Op::Revoke(2)]),
    ];
    let mut case = 0usize;
    let mut emit_case = |v: serde_json::Value, n_viol: &mut u64, counts: &mut BTreeMap<String, (u64, u64)>| {
        *n_viol += v["monitor_violations"].as_array().map(|a| a.len() as u64).unwrap_or(0);
        for o in v["ops"].as_array().unwrap() {
            let k = match &o["op"] {
                serde_json::Value::String(s) => s.clone(),
                a => a[0].as_str().unwrap_or("?").to_string(),
            };
            let e = counts.entry(k).or_insert((0, 0));
            if o["ok"].as_bool() == Some(true) {
                e.0 += 1
            } else {
                e.1 += 1
            }
        }
        emit("CASE", v);
    };
    for (nch, script) in corpus {
        let v = run_case(case, nch, Some(script), &mut rng, 0);
        emit_case(v, &mut n_viol, &mut counts);
        case += 1;
    }
    let max_len = if args.tier == "thorough" { 40 } else { 24 };
    while case < args.n {
        let nch = 2 + rng.below(2) as usize;
        let len = 6 + rng.below(max_len) as usize;
        let v = run_case(case, nch, None, &mut rng, len);
        emit_case(v, &mut n_viol, &mut counts);
        case += 1;
    }
    let cj: serde_json::Map<String, serde_json::Value> =
        counts.into_iter().map(|(k, (a, b))| (k, json!({"accepted": a, "refused": b}))).collect();
    emit("STATS", json!({"kind": "pay", "ops": cj, "monitor_violations": n_viol}));
}

fn main() {
    let argv: Vec<String> = std::env::args().collect();
    let args = parse_args(&argv[2..]);
    match argv[1].as_str() {
        "run" => run(&args),
        other => panic!("unknown sub-domain {}", other),
    }
}
