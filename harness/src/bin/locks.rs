//! Domain `locks` (C20): the lock programs of the signer's request kinds, recorded from the
//! real code through the instrumented `Mutex` (`lightning_signer::verif_sync`, compiled in by
//! `--cfg vls_verif`), and controlled two/three-thread schedules for lock-order cycles.
//!
//!   locks record                   every request kind, single-threaded, each on a fresh copy of
//!                                  the standard node (stub channel, two ready channels): prints
//!                                  `@@PROG` = the acquire / release / access program
//!   locks sweep [--n N] [from=K]  implementation-side monitor: every request P paused after each of
//!                                  its acquisitions x every request Q on a second thread; all must
//!                                  complete (stops at the first schedule that does not and says
//!                                  where to continue)
//!                                  order: life-cycle family pairs, then pairs sharing a channel slot, then
//!                                  seeded random; shard=i/n runs every n-th schedule, focus=a,b adds requests
//!                                  to the family, `plan` prints the sizes; r:k pauses after, r@k before the
//!                                  k-th acquisition
//!   locks stress --n R             R rounds of 8 threads released together, each asking for a generated
//!                                  channel id (or entropy): lock-free counters, no schedule control
//!   locks race  r1:k1 r2:k2 .. rn  thread i runs request r_i and parks right after its k_i-th
//!                                  acquisition; the last thread runs freely; then the parked ones
//!                                  are resumed last-to-first.  Prints `@@RACE` with the observed
//!                                  schedule and either `completed` or the wait-for cycle seen in
//!                                  the instrumented mutexes (`deadlock`).
//!
//! Requests are the public entry points the protocol handler calls (one `Node::with_channel`
//! closure per channel message, `Node::forget_channel`, `get_heartbeat`, ...); the tracker
//! requests repeat the three lines of the handler (`get_tracker`, `add_block`, persist).
use std::collections::{BTreeMap, HashMap};
use std::panic::{catch_unwind, AssertUnwindSafe};
use std::sync::{Arc, Condvar, Mutex as StdMutex};
use std::thread::ThreadId;
use std::time::{Duration, Instant};

use lightning_signer::bitcoin::absolute::LockTime;
use lightning_signer::bitcoin::bip32::DerivationPath;
use lightning_signer::bitcoin::consensus::serialize;
use lightning_signer::bitcoin::hashes::Hash;
use lightning_signer::bitcoin::secp256k1::{PublicKey, Secp256k1, SecretKey};
use lightning_signer::bitcoin::transaction::Version;
use lightning_signer::bitcoin::{Amount, OutPoint, ScriptBuf, Sequence, Transaction, TxIn, TxOut, Witness};
use lightning_signer::chain::tracker::Headers;
use lightning_signer::channel::{ChannelBase, ChannelId, ChannelSetup, ChannelSlot, CommitmentType};
use lightning_signer::lightning::ln::chan_utils::build_commitment_secret;
use lightning_signer::lightning::types::payment::{PaymentHash, PaymentPreimage};
use lightning_signer::node::{Node, NodeMonitor, SpendType, ToStringForNetwork};
use lightning_signer::signer::derive::KeyDerivationStyle;
use lightning_signer::tx::tx::HTLCInfo2;
use lightning_signer::txoo::proof::{ProofType, TxoProof};
use lightning_signer::util::test_utils::key::{make_test_counterparty_points, make_test_pubkey};
use lightning_signer::util::test_utils::*;
use lightning_signer::verif_sync::{set_lock_hook, LockEvent, LockEventKind};
use serde_json::{json, Value};
use vharness::*;
use vls_persist::kvv::KVVStore;
use vls_protocol::model::{self, BitcoinSignature, PubKey};
use vls_protocol::msgs::{self, Message, SerBolt};
use vls_protocol::serde_bolt::Array;
use vls_protocol_signer::handler::{ChannelHandler, Handler};

// ------------------------------------------------------------------ lock classes

/// (code, short name) of a lock class, from the type name of the protected value
fn class_of(type_name: &str, extra: &mut Vec<String>) -> (u64, String) {
    let known: [(&str, u64, &str); 9] = [
        ("lightning_signer::node::NodeState", 1, "S"),
        ("alloc::collections::btree::map::BTreeMap<lightning_signer::channel::ChannelId,", 2, "M"),
        ("lightning_signer::channel::ChannelSlot", 3, "C"),
        ("lightning_signer::chain::tracker::ChainTracker<", 4, "T"),
        ("alloc::sync::Arc<dyn lightning_signer::policy::validator::ValidatorFactory>", 5, "V"),
        ("lightning_signer::monitor::State", 6, "Mon"),
        ("core::option::Option<lightning_signer::monitor::BlockDecodeState>", 7, "D"),
        ("alloc::collections::btree::map::BTreeMap<alloc::string::String, (u64, alloc::vec::Vec<u8>)>", 8, "P"),
        ("core::time::Duration", 9, "K"),
    ];
    for (prefix, code, name) in known.iter() {
        if type_name.starts_with(prefix) {
            return (*code, name.to_string());
        }
    }
    let pos = match extra.iter().position(|x| x == type_name) {
        Some(p) => p,
        None => {
            extra.push(type_name.to_string());
            extra.len() - 1
        }
    };
    (100 + pos as u64, format!("X{}", pos))
}

// ------------------------------------------------------------------ recorder / scheduler

#[derive(Clone, Debug, PartialEq)]
struct Ev {
    kind: char, // A acquire, R release, T access, Y try-acquired, N try-failed, W attempt (schedule log only)
    class: u64,
    inst: u64,
}

#[derive(Default)]
struct Role {
    held: Vec<(u64, u64)>,
    waiting: Option<(u64, u64)>,
    acquired: usize,
    park_at: Option<usize>,
    /// pause right before the k-th acquisition (nothing new is held yet)
    park_before: Option<usize>,
    parked: bool,
    released: bool,
    finished: bool,
    result: Option<bool>,
    reply: Option<String>,
    events: Vec<Ev>,
}

#[derive(Default)]
struct State {
    extra_classes: Vec<String>,
    class_names: BTreeMap<u64, (String, String)>,
    inst: HashMap<(u64, u64), u64>, // (class, raw id) -> instance number within the scenario
    next_inst: HashMap<u64, u64>,
    roles: HashMap<ThreadId, usize>,
    role: Vec<Role>,
    owner: HashMap<(u64, u64), usize>,
    log: Vec<(usize, Ev)>,
    recording: Vec<bool>,
    /// what is being prepared / run (for messages)
    current: String,
}

struct Rec {
    st: StdMutex<State>,
    cv: Condvar,
}

impl Rec {
    fn new() -> Arc<Rec> {
        Arc::new(Rec { st: StdMutex::new(State::default()), cv: Condvar::new() })
    }

    fn install(self: &Arc<Rec>) {
        let me = self.clone();
        set_lock_hook(Some(Arc::new(move |e: &LockEvent| me.on_event(e))));
    }

    fn lock_of(st: &mut State, e: &LockEvent) -> (u64, u64) {
        let (code, name) = class_of(e.class, &mut st.extra_classes);
        st.class_names.entry(code).or_insert((name, e.class.to_string()));
        let next = st.next_inst.entry(code).or_insert(0);
        let inst = *st.inst.entry((code, e.id)).or_insert_with(|| {
            let v = *next;
            *next += 1;
            v
        });
        (code, inst)
    }

    fn on_event(&self, e: &LockEvent) {
        let tid = std::thread::current().id();
        let mut st = self.st.lock().unwrap_or_else(|p| p.into_inner());
        // instance numbers are handed out in order of first use, whoever uses the lock
        let l = Rec::lock_of(&mut st, e);
        let r = match st.roles.get(&tid) {
            Some(r) => *r,
            None => return,
        };
        let on = st.recording[r];
        match e.kind {
            LockEventKind::Attempt => {
                if st.role[r].held.contains(&l) {
                    // A second acquisition by the same thread would block for ever.  Unwinding out
                    // of here is not an option (the code under test may panic again in a
                    // destructor), so say what happened and stop.
                    let name = lock_name(&st, l);
                    let holds: Vec<String> = st.role[r].held.iter().map(|x| lock_name(&st, *x)).collect();
                    emit(
                        "SELFDEADLOCK",
                        json!({"request": st.current, "phase": if on { "request" } else { "preparation" }, "lock": name, "holds": holds,
                               "what": "the thread takes a lock it already holds (std::sync::Mutex is not reentrant: it blocks for ever)"}),
                    );
                    use std::io::Write;
                    std::io::stdout().flush().unwrap();
                    std::process::exit(0);
                }
                if on && !st.role[r].released && st.role[r].park_before == Some(st.role[r].acquired + 1) {
                    st.role[r].parked = true;
                    self.cv.notify_all();
                    while !st.role[r].released {
                        st = self.cv.wait(st).unwrap_or_else(|p| p.into_inner());
                    }
                    st.role[r].parked = false;
                }
                st.role[r].waiting = Some(l);
                st.log.push((r, Ev { kind: 'W', class: l.0, inst: l.1 }));
                self.cv.notify_all();
            }
            LockEventKind::Acquired | LockEventKind::TryAcquired => {
                st.role[r].waiting = None;
                st.role[r].held.push(l);
                st.owner.insert(l, r);
                let k = if e.kind == LockEventKind::Acquired { 'A' } else { 'Y' };
                if on {
                    st.role[r].events.push(Ev { kind: k, class: l.0, inst: l.1 });
                    st.role[r].acquired += 1;
                }
                st.log.push((r, Ev { kind: k, class: l.0, inst: l.1 }));
                if on && st.role[r].park_at == Some(st.role[r].acquired) {
                    st.role[r].parked = true;
                    self.cv.notify_all();
                    while !st.role[r].released {
                        st = self.cv.wait(st).unwrap_or_else(|p| p.into_inner());
                    }
                    st.role[r].parked = false;
                }
                self.cv.notify_all();
            }
            LockEventKind::TryFailed => {
                if on {
                    st.role[r].events.push(Ev { kind: 'N', class: l.0, inst: l.1 });
                }
            }
            LockEventKind::Released => {
                if let Some(p) = st.role[r].held.iter().rposition(|x| *x == l) {
                    st.role[r].held.remove(p);
                }
                st.owner.remove(&l);
                if on {
                    st.role[r].events.push(Ev { kind: 'R', class: l.0, inst: l.1 });
                }
                st.log.push((r, Ev { kind: 'R', class: l.0, inst: l.1 }));
                self.cv.notify_all();
            }
            LockEventKind::Read | LockEventKind::Write => {
                if on {
                    let ev = Ev { kind: 'T', class: l.0, inst: l.1 };
                    if st.role[r].events.last() != Some(&ev) {
                        st.role[r].events.push(ev);
                    }
                }
            }
        }
    }

    /// forget the instance numbering and all roles (a new scenario starts)
    fn reset(&self) {
        let mut st = self.st.lock().unwrap();
        st.inst.clear();
        st.next_inst.clear();
        st.roles.clear();
        st.role.clear();
        st.owner.clear();
        st.log.clear();
        st.recording.clear();
    }

    fn add_role(&self, park_at: Option<usize>) -> usize {
        self.add_role2(park_at, None)
    }

    fn add_role2(&self, park_at: Option<usize>, park_before: Option<usize>) -> usize {
        let mut st = self.st.lock().unwrap();
        st.role.push(Role { park_at, park_before, ..Role::default() });
        st.recording.push(false);
        st.role.len() - 1
    }

    fn bind(&self, r: usize, on: bool) {
        let mut st = self.st.lock().unwrap();
        st.roles.insert(std::thread::current().id(), r);
        st.recording[r] = on;
    }

    fn unbind(&self, r: usize, result: Option<bool>) {
        let reply = take_reply();
        let mut st = self.st.lock().unwrap_or_else(|p| p.into_inner());
        st.role[r].reply = reply;
        st.recording[r] = false;
        st.role[r].finished = true;
        st.role[r].result = result;
        st.roles.remove(&std::thread::current().id());
        self.cv.notify_all();
    }
}

fn ev_json(e: &Ev) -> Value {
    json!([e.kind.to_string(), e.class, e.inst])
}

// ------------------------------------------------------------------ the standard node

const VALUE: u64 = 3_000_000;
const CP_SEED: [u8; 32] = [3u8; 32];
const INITIAL: u64 = (1 << 48) - 1;

struct Chan {
    ctx: TestChannelContext,
    funding: Transaction,
    fctx: TestFundingTxContext,
    dbid: u64,
}

struct Sys {
    world: World,
    node: Arc<Node>,
    nctx: TestNodeContext,
    peer: [u8; 33],
    stub: ChannelId,
    stub_dbid: u64,
    a: Chan,
    b: Chan,
    /// blocks connected so far (newest last), with the headers they were built on
    stack: Vec<(lightning_signer::bitcoin::Block, Headers)>,
}

fn peer_id() -> [u8; 33] {
    let secp = Secp256k1::new();
    PublicKey::from_secret_key(&secp, &SecretKey::from_slice(&[9u8; 32]).unwrap()).serialize()
}

fn chan_setup() -> ChannelSetup {
    ChannelSetup {
        is_outbound: true,
        channel_value_sat: VALUE,
        push_value_msat: 0,
        funding_outpoint: OutPoint { txid: lightning_signer::bitcoin::Txid::from_slice(&[2u8; 32]).unwrap(), vout: 0 },
        holder_selected_contest_delay: 6,
        holder_shutdown_script: None,
        counterparty_points: make_test_counterparty_points(),
        counterparty_selected_contest_delay: 7,
        counterparty_shutdown_script: None,
        commitment_type: CommitmentType::StaticRemoteKey,
    }
}

fn cp_secret(n: u64) -> [u8; 32] {
    build_commitment_secret(&CP_SEED, INITIAL - n)
}
fn cp_point(n: u64) -> PublicKey {
    let secp = Secp256k1::new();
    PublicKey::from_secret_key(&secp, &SecretKey::from_slice(&cp_secret(n)).unwrap())
}

/// a stub made ready, funded by a wallet transaction (not yet signed), initial holder commitment
/// validated the way the handler does it (one with_channel closure)
fn open_channel(nctx: &TestNodeContext, peer: &[u8; 33], dbid: u64, wallet_ndx: u32) -> Chan {
    let node = &nctx.node;
    let (channel_id, _) = node.new_channel(dbid, peer, node).expect("new_channel");
    let counterparty_keys = make_test_counterparty_keys(nctx, &channel_id, VALUE);
    let mut ctx = TestChannelContext { channel_id, setup: chan_setup(), counterparty_keys };
    let incoming = VALUE + 2_000_000;
    let mut fctx = TestFundingTxContext::new();
    fctx.add_wallet_input(nctx, SpendType::P2wpkh, wallet_ndx, incoming);
    fctx.add_wallet_output(nctx, SpendType::P2wpkh, wallet_ndx, incoming - VALUE - 1000);
    let vout = fctx.add_channel_outpoint(nctx, &ctx, VALUE);
    let tx = fctx.to_tx();
    let st = funding_tx_setup_channel(nctx, &mut ctx, &tx, vout);
    assert!(st.is_none(), "setup_channel: {:?}", st);
    let mut c0 = channel_initial_holder_commitment(nctx, &ctx);
    let (sig, hsigs) = counterparty_sign_holder_commitment(nctx, &ctx, &mut c0);
    node.with_channel(&ctx.channel_id, |chan| {
        chan.validate_holder_commitment_tx_phase2(0, 0, VALUE - 1000, 0, vec![], vec![], &sig, &hsigs)?;
        chan.activate_initial_commitment()
    })
    .expect("initial holder commitment");
    Chan { ctx, funding: tx, fctx, dbid }
}

fn sign_funding(nctx: &TestNodeContext, c: &Chan) {
    let flags: Vec<bool> = c.funding.input.iter().map(|_| true).collect();
    nctx.node
        .check_onchain_tx(&c.funding, &flags, &c.fctx.prev_outs, &c.fctx.iuckeys, &c.fctx.opaths)
        .expect("check funding");
    nctx.node
        .unchecked_sign_onchain_tx(&c.funding, &c.fctx.ipaths, &c.fctx.prev_outs, c.fctx.iuckeys.clone())
        .expect("sign funding");
}

fn build() -> Sys {
    let mut seed = [0u8; 32];
    seed[0] = 0xc2;
    seed[1] = 0x20;
    let world = World::new(World::default_policy(), seed, KeyDerivationStyle::Native);
    let node = world.new_node();
    let nctx = TestNodeContext { node: node.clone(), secp_ctx: Secp256k1::signing_only() };
    let peer = peer_id();
    let a = open_channel(&nctx, &peer, 2, 1);
    sign_funding(&nctx, &a);
    let b = open_channel(&nctx, &peer, 3, 2);
    sign_funding(&nctx, &b);
    let stub_dbid = 4;
    let (stub, _) = node.new_channel(stub_dbid, &peer, &node).expect("stub");
    Sys { world, node, nctx, peer, stub, stub_dbid, a, b, stack: vec![] }
}

fn coinbase(h: u32) -> Transaction {
    Transaction {
        version: Version::TWO,
        lock_time: LockTime::from_consensus(h),
        input: vec![TxIn {
            previous_output: OutPoint::null(),
            script_sig: ScriptBuf::from_bytes(h.to_le_bytes().to_vec()),
            sequence: Sequence::MAX,
            witness: Witness::default(),
        }],
        output: vec![TxOut { value: Amount::from_sat(50_0000_0000), script_pubkey: ScriptBuf::new() }],
    }
}

/// what the handler does for AddBlock (compact proof) / streamed block: tracker lock, add, persist
fn add_block_request(node: &Arc<Node>, block: &lightning_signer::bitcoin::Block, proof: TxoProof) -> bool {
    let mut tracker = node.get_tracker();
    let ok = tracker.add_block(block.header, proof).is_ok();
    node.get_persister().update_tracker(&node.get_id(), &tracker).expect("persist tracker");
    ok
}

/// what the handler does for BlockChunk (a streamed block is sent before its AddBlock)
fn block_chunk_request(node: &Arc<Node>, block: &lightning_signer::bitcoin::Block) -> bool {
    let bytes = serialize(block);
    let mut tracker = node.get_tracker();
    tracker.block_chunk(block.block_hash(), 0, &bytes).is_ok()
}

fn remove_block_request(node: &Arc<Node>, proof: TxoProof, prev: Headers) -> bool {
    let mut tracker = node.get_tracker();
    let ok = tracker.remove_block(proof, prev).is_ok();
    node.get_persister().update_tracker(&node.get_id(), &tracker).expect("persist tracker");
    ok
}

impl Sys {
    fn next_block(&self, txs: Vec<Transaction>, streamed: bool) -> (lightning_signer::bitcoin::Block, TxoProof, Headers) {
        let tracker = self.node.get_tracker();
        let mut all = vec![coinbase(tracker.height() + 1)];
        all.extend(txs);
        let prev = tracker.tip().clone();
        let block = make_block(prev.0, all);
        let proof = TxoProof::prove_unchecked(&block, &prev.1, tracker.height() + 1);
        let proof = if streamed {
            TxoProof { attestations: proof.attestations, proof: ProofType::ExternalBlock() }
        } else {
            proof
        };
        (block, proof, prev)
    }

    /// connect a block outside of any recorded request
    fn connect(&mut self, txs: Vec<Transaction>) {
        let (block, proof, prev) = self.next_block(txs, false);
        assert!(add_block_request(&self.node, &block, proof));
        self.stack.push((block, prev));
    }

    /// connect n empty blocks, writing the tracker to the store once at the end
    fn connect_empty(&mut self, n: usize) {
        for _ in 0..n {
            let (block, proof, prev) = self.next_block(vec![], false);
            self.node.get_tracker().add_block(block.header, proof).expect("add_block");
            self.stack.push((block, prev));
        }
        let tracker = self.node.get_tracker();
        self.node.get_persister().update_tracker(&self.node.get_id(), &tracker).expect("persist tracker");
    }

    fn holder_commitment_tx(&self, c: &Chan, n: u64, to_h: u64, to_c: u64) -> Transaction {
        let ctx = channel_commitment(&self.nctx, &c.ctx, n, 1100, to_h, to_c, vec![], vec![]);
        ctx.tx.as_ref().unwrap().trust().built_transaction().transaction.clone()
    }
}

/// GetHeartbeat: what the signed heartbeat says about the chain
fn heartbeat_request(node: &Arc<Node>) -> bool {
    let hb = node.get_heartbeat();
    set_reply(format!(
        "tip={} height={} tip_time={}",
        hb.heartbeat.chain_tip, hb.heartbeat.chain_height, hb.heartbeat.chain_timestamp
    ));
    true
}

/// a spend of the funding outpoint that is not a commitment transaction
fn mutual_close_tx(c: &Chan) -> Transaction {
    Transaction {
        version: Version::TWO,
        lock_time: LockTime::ZERO,
        input: vec![TxIn {
            previous_output: c.ctx.setup.funding_outpoint,
            script_sig: ScriptBuf::new(),
            sequence: Sequence::ZERO,
            witness: Witness::default(),
        }],
        output: vec![TxOut { value: Amount::from_sat(VALUE - 2000), script_pubkey: ScriptBuf::new() }],
    }
}

/// order-insensitive canonical form (hash maps are serialized in arbitrary order)
fn canonical(v: &Value) -> Value {
    match v {
        Value::Array(a) => {
            let mut items: Vec<Value> = a.iter().map(canonical).collect();
            items.sort_by_key(|x| x.to_string());
            Value::Array(items)
        }
        Value::Object(m) => Value::Object(m.iter().map(|(k, x)| (k.clone(), canonical(x))).collect()),
        other => other.clone(),
    }
}

/// what the property calls the outcome besides the replies: the stored state (every record of the
/// store, without versions) and the enforcement state of every channel in memory
fn final_state(sys: &Sys) -> Value {
    let mut m = serde_json::Map::new();
    if let Ok(it) = sys.world.persister.0.get_prefix("") {
        for kvv in it {
            let text = String::from_utf8_lossy(&kvv.1 .1).to_string();
            let val = serde_json::from_str::<Value>(&text).map(|v| canonical(&v)).unwrap_or(Value::String(text));
            m.insert(format!("store:{}", kvv.0), val);
        }
    }
    let slots: Vec<(ChannelId, Arc<lightning_signer::prelude::Mutex<ChannelSlot>>)> =
        sys.node.get_channels().iter().map(|(k, v)| (k.clone(), v.clone())).collect();
    for (id, slot) in slots {
        let g = match slot.lock() {
            Ok(g) => g,
            Err(_) => {
                m.insert(format!("mem:{}", hex::encode(id.as_slice())), json!("poisoned"));
                continue;
            }
        };
        let v = match &*g {
            ChannelSlot::Ready(c) => canonical(&serde_json::to_value(&c.enforcement_state).unwrap_or(json!("unserializable"))),
            ChannelSlot::Stub(_) => json!("stub"),
        };
        m.insert(format!("mem:{}", hex::encode(id.as_slice())), v);
    }
    // the node-wide payment ledger in memory: per payment hash what is in flight on which channel
    {
        let state = sys.node.get_state();
        let mut pays: Vec<(String, Value)> = state
            .payments
            .iter()
            .map(|(h, rp)| {
                let side = |m: &std::collections::BTreeMap<ChannelId, u64>| -> Value {
                    Value::Object(m.iter().map(|(c, v)| (hex::encode(c.as_slice()), json!(v))).collect())
                };
                (hex::encode(h.0), json!({"incoming": side(&rp.incoming), "outgoing": side(&rp.outgoing),
                                          "in_out_total": [rp.incoming_outgoing().0, rp.incoming_outgoing().1],
                                          "fulfilled": rp.is_fulfilled()}))
            })
            .collect();
        pays.sort_by(|a, b| a.0.cmp(&b.0));
        m.insert("mem:payments".to_string(), Value::Object(pays.into_iter().collect()));
        m.insert("mem:invoices".to_string(), json!(state.invoices.len()));
        let mut al: Vec<String> = state.allowlist.iter().map(|a| a.to_string(NETWORK)).collect();
        al.sort();
        m.insert("mem:allowlist".to_string(), json!(al));
        m.insert("mem:excess_amount".to_string(), json!(state.excess_amount));
    }
    // what a signer restarted from the store alone would trust (only for the pairs that ask for it)
    if DEEP.load(std::sync::atomic::Ordering::SeqCst) {
        let id = sys.node.get_id();
        let restored = catch_unwind(AssertUnwindSafe(|| {
            let n = sys.world.restart(&id);
            let mut al = n.allowlist().unwrap_or_default();
            al.sort();
            let slots: Vec<(ChannelId, Arc<lightning_signer::prelude::Mutex<ChannelSlot>>)> =
                n.get_channels().iter().map(|(k, v)| (k.clone(), v.clone())).collect();
            let mut chans = serde_json::Map::new();
            for (cid, slot) in slots {
                let g = slot.lock().unwrap();
                let v = match &*g {
                    ChannelSlot::Ready(c) => canonical(&serde_json::to_value(&c.enforcement_state).unwrap_or(json!("unserializable"))),
                    ChannelSlot::Stub(_) => json!("stub"),
                };
                chans.insert(hex::encode(cid.as_slice()), v);
            }
            (al, Value::Object(chans))
        }));
        match restored {
            Ok((al, chans)) => {
                m.insert("restored:allowlist".to_string(), json!(al));
                m.insert("restored:channels".to_string(), chans);
            }
            Err(_) => {
                m.insert("restored:allowlist".to_string(), json!("restart failed"));
            }
        }
    }
    Value::Object(m)
}

/// compare also the state of a node restored from the store (set per pair by the sweep)
static DEEP: std::sync::atomic::AtomicBool = std::sync::atomic::AtomicBool::new(false);

/// the same two requests (prepared in the same order) run one after the other
fn run_sequential(rec: &Arc<Rec>, first: &str, second: &str, swap: bool) -> Option<(Vec<Rep>, Value)> {
    rec.reset();
    let r0 = rec.add_role(None);
    rec.bind(r0, false);
    let out = catch_unwind(AssertUnwindSafe(|| {
        let mut sys = build();
        let p = make_req(&mut sys, first);
        let q = make_req(&mut sys, second);
        let (rp, rq);
        let _ = take_reply();
        if swap {
            let b = catch_unwind(AssertUnwindSafe(q)).ok();
            rq = (b, take_reply());
            let a = catch_unwind(AssertUnwindSafe(p)).ok();
            rp = (a, take_reply());
        } else {
            let a = catch_unwind(AssertUnwindSafe(p)).ok();
            rp = (a, take_reply());
            let b = catch_unwind(AssertUnwindSafe(q)).ok();
            rq = (b, take_reply());
        }
        (vec![rp, rq], final_state(&sys))
    }));
    rec.unbind(r0, None);
    out.ok()
}

fn state_diff(a: &Value, b: &Value) -> Vec<String> {
    let (ma, mb) = (a.as_object().unwrap(), b.as_object().unwrap());
    let mut keys: Vec<&String> = ma.keys().chain(mb.keys()).collect();
    keys.sort();
    keys.dedup();
    keys.into_iter().filter(|k| ma.get(*k) != mb.get(*k)).cloned().collect()
}

type Req = Box<dyn FnOnce() -> bool + Send>;
/// (Ok / refused / panicked, content of the reply)
type Rep = (Option<bool>, Option<String>);

thread_local! {
    /// what the reply of the request running on this thread carries (set by the request)
    static REPLY: std::cell::RefCell<Option<String>> = std::cell::RefCell::new(None);
}
fn set_reply(s: String) {
    REPLY.with(|r| *r.borrow_mut() = Some(s));
}
fn take_reply() -> Option<String> {
    REPLY.with(|r| r.borrow_mut().take())
}
/// Ok/Err of a request, with the content of an Ok reply noted for the comparison of outcomes
fn replied<T, E>(r: Result<T, E>, f: impl FnOnce(&T) -> String) -> bool {
    match &r {
        Ok(v) => {
            set_reply(f(v));
            true
        }
        Err(_) => false,
    }
}

const KINDS: &[&str] = &[
    // node-level requests first: scenario preparations of later kinds use them
    "approve_invoice",
    "approve_keysend",
    "allowlist_add",
    "allowlist_remove",
    "allowlist_set",
    "new_channel",
    "new_channel_with_random_id",
    "new_channel_existing",
    "setup_channel",
    "setup_channel_again",
    "forget_channel_stub",
    "forget_channel_ready",
    "forget_channel_missing",
    "get_point_stub",
    // channel requests on the id that setup_channel is making ready (the id is known before setup returns)
    "sign_counterparty_commitment_on_stub",
    "validate_holder_commitment_on_stub",
    "validate_holder_commitment",
    "validate_holder_commitment_and_revoke",
    "validate_holder_commitment_htlc",
    "validate_holder_commitment_htlc_b",
    "validate_holder_commitment_closed",
    "revoke_holder_commitment",
    "sign_counterparty_commitment",
    "sign_counterparty_commitment_htlc",
    "sign_counterparty_commitment_htlc_b",
    "validate_counterparty_revocation",
    "sign_holder_commitment",
    "sign_mutual_close",
    "htlcs_fulfilled",
    "channel_balance_query",
    "node_balance_query",
    "chaninfo_query",
    "heartbeat",
    "heartbeat_prune_stub",
    "heartbeat_prune_closed",
    "check_onchain_wallet",
    "check_onchain_allowlist",
    "check_onchain_funding",
    "sign_onchain_funding",
    "add_block_empty",
    "add_block_funding",
    "add_block_closing",
    "block_chunk_closing",
    "add_block_closing_streamed",
    "add_block_mutual_close",
    "remove_block_closing",
    "remove_block_empty",
    "persist_all",
    // the same through the protocol handler (ChannelHandler / RootHandler::do_handle), old and new protocol
    "h4_validate_commitment_x",
    "h4_validate_commitment_y",
    "h4_get_point",
    "h4_sign_remote_commitment",
    "h4_revoke_commitment",
    "h4_forget_channel",
    "h6_validate_commitment_x",
    "h6_validate_commitment_y",
    "h6_get_point",
    "h6_sign_remote_commitment",
    "h6_revoke_commitment",
    "h6_forget_channel",
    "h6_new_channel",
    "h6_setup_channel",
];

fn payment(i: u8) -> (PaymentPreimage, PaymentHash) {
    let pre = PaymentPreimage([i; 32]);
    let hash = PaymentHash(lightning_signer::bitcoin::hashes::sha256::Hash::hash(&pre.0).to_byte_array());
    (pre, hash)
}

/// the reply of a handler request: Ok with the encoded reply, or refused
fn handled<H: Handler>(h: &H, m: Message) -> bool {
    match h.handle(m) {
        Ok(reply) => {
            set_reply(hex::encode(reply.as_vec()));
            true
        }
        Err(_) => false,
    }
}

fn validate2_msg(sys: &Sys, n: u64, to_h: u64, to_c: u64) -> Message {
    let mut c = channel_commitment(&sys.nctx, &sys.a.ctx, n, 1100, to_h, to_c, vec![], vec![]);
    let (sig, _hs) = counterparty_sign_holder_commitment(&sys.nctx, &sys.a.ctx, &mut c);
    let m = msgs::ValidateCommitmentTx2 {
        commitment_number: n,
        feerate: 1100,
        to_local_value_sat: to_h,
        to_remote_value_sat: to_c,
        htlcs: Array(vec![]),
        signature: BitcoinSignature { signature: model::Signature(sig.serialize_compact()), sighash: 1 },
        htlc_signatures: Array(vec![]),
    };
    msgs::from_vec(m.as_vec()).expect("request survives the wire")
}

/// a request sent to the protocol handler of channel A (or to the root handler) at protocol 4 or 6
fn make_handler_req(sys: &mut Sys, kind: &str) -> Req {
    let proto: u32 = if kind.starts_with("h4_") { 4 } else { 6 };
    let what = &kind[3..];
    let node = sys.node.clone();
    let peer = sys.peer;
    let root = make_root_handler(&node, proto);
    let chan: ChannelHandler = root.for_new_client(1, PubKey(peer), sys.a.dbid);
    match what {
        "validate_commitment_x" | "validate_commitment_y" => {
            let to_h = if what.ends_with("x") { 1_000_000 } else { 1_010_000 };
            let msg = validate2_msg(sys, 1, to_h, VALUE - 20_000 - to_h);
            Box::new(move || handled(&chan, msg))
        }
        "get_point" => Box::new(move || {
            if proto >= 6 {
                handled(&chan, Message::GetPerCommitmentPoint2(msgs::GetPerCommitmentPoint2 { commitment_number: 1 }))
            } else {
                handled(&chan, Message::GetPerCommitmentPoint(msgs::GetPerCommitmentPoint { commitment_number: 1 }))
            }
        }),
        "sign_remote_commitment" => {
            let m = msgs::SignRemoteCommitmentTx2 {
                remote_per_commitment_point: PubKey(cp_point(0).serialize()),
                commitment_number: 0,
                feerate: 1100,
                to_local_value_sat: VALUE - 1000 - 100,
                to_remote_value_sat: 0,
                htlcs: Array(vec![]),
            };
            let msg = msgs::from_vec(m.as_vec()).expect("request survives the wire");
            Box::new(move || handled(&chan, msg))
        }
        "revoke_commitment" => {
            // commitment 1 validated (not yet revoked where the protocol has a separate revoke)
            let to_h = 1_000_000;
            let (mut c1, a_id) = (
                channel_commitment(&sys.nctx, &sys.a.ctx, 1, 1100, to_h, VALUE - 20_000 - to_h, vec![], vec![]),
                sys.a.ctx.channel_id.clone(),
            );
            let (sig, hs) = counterparty_sign_holder_commitment(&sys.nctx, &sys.a.ctx, &mut c1);
            node.with_channel(&a_id, |c| c.validate_holder_commitment_tx_phase2(1, 1100, to_h, VALUE - 20_000 - to_h, vec![], vec![], &sig, &hs))
                .expect("validate 1");
            Box::new(move || handled(&chan, Message::RevokeCommitmentTx(msgs::RevokeCommitmentTx { commitment_number: 0 })))
        }
        "forget_channel" => {
            let dbid = sys.a.dbid;
            Box::new(move || handled(&root, Message::ForgetChannel(msgs::ForgetChannel { node_id: PubKey(peer), dbid })))
        }
        "new_channel" => Box::new(move || handled(&root, Message::NewChannel(msgs::NewChannel { peer_id: PubKey(peer), dbid: 11 }))),
        "setup_channel" => {
            let stub_chan: ChannelHandler = root.for_new_client(2, PubKey(peer), sys.stub_dbid);
            let mut setup = chan_setup();
            setup.funding_outpoint = OutPoint { txid: lightning_signer::bitcoin::Txid::from_slice(&[7u8; 32]).unwrap(), vout: 1 };
            let m = setup_channel_msg(&setup);
            let msg = msgs::from_vec(m.as_vec()).expect("request survives the wire");
            Box::new(move || handled(&stub_chan, msg))
        }
        other => panic!("unknown handler request {}", other),
    }
}

/// prepare the arguments of a request on this system (not recorded), return the request itself
fn make_req(sys: &mut Sys, kind: &str) -> Req {
    if kind.starts_with("h4_") || kind.starts_with("h6_") {
        return make_handler_req(sys, kind);
    }
    let node = sys.node.clone();
    let peer = sys.peer;
    let a_id = sys.a.ctx.channel_id.clone();
    match kind {
        "new_channel" =>
            Box::new(move || replied(node.new_channel(10, &peer, &node), |(id, _)| hex::encode(id.as_slice()))),
        "new_channel_with_random_id" => Box::new(move || {
            // LDK-style entry point: the id comes from a lock-free counter in the key manager
            replied(node.new_channel_with_random_id(&node), |(id, _)| hex::encode(id.as_slice()))
        }),
        "new_channel_existing" => {
            let dbid = sys.stub_dbid;
            Box::new(move || replied(node.new_channel(dbid, &peer, &node), |(id, slot)| {
                format!("{} {}", hex::encode(id.as_slice()), match slot { Some(ChannelSlot::Ready(_)) => "ready", Some(ChannelSlot::Stub(_)) => "stub", None => "none" })
            }))
        }
        "setup_channel" => {
            let id = sys.stub.clone();
            let mut setup = chan_setup();
            setup.funding_outpoint = OutPoint { txid: lightning_signer::bitcoin::Txid::from_slice(&[7u8; 32]).unwrap(), vout: 1 };
            Box::new(move || node.setup_channel(id, None, setup, &DerivationPath::master()).is_ok())
        }
        "setup_channel_again" => {
            let setup = sys.a.ctx.setup.clone();
            Box::new(move || node.setup_channel(a_id, None, setup, &DerivationPath::master()).is_ok())
        }
        "forget_channel_stub" => {
            let id = sys.stub.clone();
            Box::new(move || node.forget_channel(&id).is_ok())
        }
        "forget_channel_ready" => Box::new(move || node.forget_channel(&a_id).is_ok()),
        "forget_channel_missing" => {
            let id = ChannelId::new_from_peer_id_and_oid(&peer, 77);
            Box::new(move || node.forget_channel(&id).is_ok())
        }
        "sign_counterparty_commitment_on_stub" => {
            // the first counterparty commitment of the channel that `setup_channel` sets up (refused while
            // the slot is still a stub)
            let id = sys.stub.clone();
            let pt = cp_point(0);
            Box::new(move || {
                replied(
                    node.with_channel(&id, |c| c.sign_counterparty_commitment_tx_phase2(&pt, 0, 1100, VALUE - 1000 - 100, 0, vec![], vec![])),
                    |(sig, hs)| format!("counterparty commitment 0 signed {} ({} htlc sigs)", sig, hs.len()),
                )
            })
        }
        "validate_holder_commitment_on_stub" => {
            // the counterparty's signature on holder commitment 0 is computed on an identical twin node on
            // which the channel is already set up (everything is deterministic)
            let id = sys.stub.clone();
            let mut twin = build();
            let setup_req = make_req(&mut twin, "setup_channel");
            assert!(setup_req(), "twin setup_channel");
            let mut setup = chan_setup();
            setup.funding_outpoint = OutPoint { txid: lightning_signer::bitcoin::Txid::from_slice(&[7u8; 32]).unwrap(), vout: 1 };
            let keys = make_test_counterparty_keys(&twin.nctx, &id, VALUE);
            let tctx = TestChannelContext { channel_id: id.clone(), setup, counterparty_keys: keys };
            let mut c0 = channel_initial_holder_commitment(&twin.nctx, &tctx);
            let (sig, hs) = counterparty_sign_holder_commitment(&twin.nctx, &tctx, &mut c0);
            drop(twin);
            Box::new(move || {
                replied(
                    node.with_channel(&id, |c| {
                        c.validate_holder_commitment_tx_phase2(0, 0, VALUE - 1000, 0, vec![], vec![], &sig, &hs)?;
                        c.activate_initial_commitment()
                    }),
                    |p| format!("validated 0, next point {}", p),
                )
            })
        }
        "get_point_stub" => {
            let id = sys.stub.clone();
            Box::new(move || replied(node.with_channel_base(&id, |b| b.get_per_commitment_point(0)), |p| p.to_string()))
        }
        "validate_holder_commitment_closed" => {
            // the holder commitment was signed for broadcast: the channel is closed
            node.with_channel(&a_id, |c| c.sign_holder_commitment_tx_phase2(0)).expect("sign holder 0");
            let (to_h, to_c) = (1_000_000, VALUE - 20_000 - 1_000_000);
            let mut c1 = channel_commitment(&sys.nctx, &sys.a.ctx, 1, 1100, to_h, to_c, vec![], vec![]);
            let (sig, hs) = counterparty_sign_holder_commitment(&sys.nctx, &sys.a.ctx, &mut c1);
            Box::new(move || {
                node.with_channel(&a_id, |c| {
                    c.validate_holder_commitment_tx_phase2(1, 1100, to_h, to_c, vec![], vec![], &sig, &hs)?;
                    c.revoke_previous_holder_commitment(1).map(|(p, sec)| {
                        set_reply(format!("validated 1, revoked 0: next point {} secret {}", p, sec.is_some()));
                    })
                })
                .is_ok()
            })
        }
        "validate_holder_commitment" | "validate_holder_commitment_and_revoke" => {
            let (to_h, to_c) = (1_000_000, VALUE - 20_000 - 1_000_000);
            let mut c1 = channel_commitment(&sys.nctx, &sys.a.ctx, 1, 1100, to_h, to_c, vec![], vec![]);
            let (sig, hs) = counterparty_sign_holder_commitment(&sys.nctx, &sys.a.ctx, &mut c1);
            let revoke = kind.ends_with("revoke");
            Box::new(move || {
                node.with_channel(&a_id, |c| {
                    c.validate_holder_commitment_tx_phase2(1, 1100, to_h, to_c, vec![], vec![], &sig, &hs)?;
                    if revoke {
                        c.revoke_previous_holder_commitment(1).map(|(p, sec)| {
                        set_reply(format!("validated 1, revoked 0: next point {} secret {}", p, sec.is_some()));
                    })
                    } else {
                        c.get_per_commitment_point(2).map(|_| ())
                    }
                })
                .is_ok()
            })
        }
        "validate_holder_commitment_htlc" | "validate_holder_commitment_htlc_b" => {
            // the same approved payment (hash of payment(1), 10 000 sat) on channel A or on channel B
            let (_, hash) = payment(1);
            node.add_keysend(make_test_pubkey(1), hash, 10_000_000).expect("keysend");
            let on_b = kind.ends_with("_b");
            let id = if on_b { sys.b.ctx.channel_id.clone() } else { a_id };
            let cctx = if on_b { &sys.b.ctx } else { &sys.a.ctx };
            let offered = vec![HTLCInfo2 { value_sat: 10_000, payment_hash: hash, cltv_expiry: 50 }];
            let (to_h, to_c) = (VALUE - 1000 - 10_000 - 5000, 0);
            let mut c1 = channel_commitment(&sys.nctx, cctx, 1, 1100, to_h, to_c, offered.clone(), vec![]);
            let (sig, hs) = counterparty_sign_holder_commitment(&sys.nctx, cctx, &mut c1);
            Box::new(move || {
                node.with_channel(&id, |c| {
                    c.validate_holder_commitment_tx_phase2(1, 1100, to_h, to_c, offered.clone(), vec![], &sig, &hs)?;
                    c.revoke_previous_holder_commitment(1).map(|(p, sec)| {
                        set_reply(format!("validated 1, revoked 0: next point {} secret {}", p, sec.is_some()));
                    })
                })
                .is_ok()
            })
        }
        "revoke_holder_commitment" => {
            let (to_h, to_c) = (1_000_000, VALUE - 20_000 - 1_000_000);
            let mut c1 = channel_commitment(&sys.nctx, &sys.a.ctx, 1, 1100, to_h, to_c, vec![], vec![]);
            let (sig, hs) = counterparty_sign_holder_commitment(&sys.nctx, &sys.a.ctx, &mut c1);
            node.with_channel(&a_id, |c| c.validate_holder_commitment_tx_phase2(1, 1100, to_h, to_c, vec![], vec![], &sig, &hs))
                .expect("validate 1");
            Box::new(move || {
                replied(node.with_channel(&a_id, |c| c.revoke_previous_holder_commitment(1)), |(p, sec)| {
                    format!("revoked 0: next point {} secret {}", p, sec.map(|x| x.display_secret().to_string()).unwrap_or("none".into()))
                })
            })
        }
        "sign_counterparty_commitment" => {
            let pt = cp_point(0);
            Box::new(move || {
                replied(
                    node.with_channel(&a_id, |c| c.sign_counterparty_commitment_tx_phase2(&pt, 0, 1100, VALUE - 1000 - 100, 0, vec![], vec![])),
                    |(sig, hs)| format!("counterparty commitment 0 signed {} ({} htlc sigs)", sig, hs.len()),
                )
            })
        }
        "sign_counterparty_commitment_htlc" | "sign_counterparty_commitment_htlc_b" => {
            // the same approved payment on channel A or on channel B, each for the whole amount
            let (_, hash) = payment(1);
            node.add_keysend(make_test_pubkey(1), hash, 10_000_000).expect("keysend");
            let on_b = kind.ends_with("_b");
            let id = if on_b { sys.b.ctx.channel_id.clone() } else { a_id };
            let pt0 = cp_point(0);
            node.with_channel(&id, |c| c.sign_counterparty_commitment_tx_phase2(&pt0, 0, 1100, VALUE - 1000 - 100, 0, vec![], vec![]))
                .expect("cp 0");
            let pt = cp_point(1);
            let received = vec![HTLCInfo2 { value_sat: 10_000, payment_hash: hash, cltv_expiry: 50 }];
            Box::new(move || {
                // our offered HTLC is a received HTLC of their commitment
                replied(
                    node.with_channel(&id, |c| {
                        c.sign_counterparty_commitment_tx_phase2(&pt, 1, 1100, VALUE - 1000 - 10_000 - 5000, 0, vec![], received.clone())
                    }),
                    |(sig, hs)| format!("counterparty commitment 1 signed {} ({} htlc sigs)", sig, hs.len()),
                )
            })
        }
        "validate_counterparty_revocation" => {
            let (pt0, pt1) = (cp_point(0), cp_point(1));
            node.with_channel(&a_id, |c| {
                c.sign_counterparty_commitment_tx_phase2(&pt0, 0, 1100, VALUE - 1000 - 100, 0, vec![], vec![])?;
                c.sign_counterparty_commitment_tx_phase2(&pt1, 1, 1100, 1_000_000, VALUE - 20_000 - 1_000_000, vec![], vec![])
            })
            .expect("cp 0, 1");
            let sk = SecretKey::from_slice(&cp_secret(0)).unwrap();
            Box::new(move || node.with_channel(&a_id, |c| c.validate_counterparty_revocation(0, &sk)).is_ok())
        }
        "sign_holder_commitment" =>
            Box::new(move || {
                replied(node.with_channel(&a_id, |c| c.sign_holder_commitment_tx_phase2(0)), |sig| format!("holder commitment 0 signed {}", sig))
            }),
        "sign_mutual_close" => {
            let pt0 = cp_point(0);
            node.with_channel(&a_id, |c| c.sign_counterparty_commitment_tx_phase2(&pt0, 0, 1100, VALUE - 1000 - 100, 0, vec![], vec![]))
                .expect("cp 0");
            let (script, path) = make_test_wallet_dest(&sys.nctx, 5, SpendType::P2wpkh);
            Box::new(move || {
                replied(
                    node.with_channel(&a_id, |c| c.sign_mutual_close_tx_phase2(VALUE - 2000, 0, &Some(script.clone()), &None, &path)),
                    |sig| format!("mutual close signed {}", sig),
                )
            })
        }
        "htlcs_fulfilled" => {
            let (pre, hash) = payment(3);
            node.add_keysend(make_test_pubkey(1), hash, 10_000_000).expect("keysend");
            Box::new(move || {
                node.with_channel(&a_id, |c| {
                    c.htlcs_fulfilled(vec![pre]);
                    Ok(())
                })
                .is_ok()
            })
        }
        "channel_balance_query" =>
            Box::new(move || replied(node.with_channel(&a_id, |c| Ok(c.balance())), |b| format!("{:?}", b))),
        "node_balance_query" => Box::new(move || {
            set_reply(format!("{:?}", node.channel_balance()));
            true
        }),
        "chaninfo_query" => Box::new(move || {
            set_reply(format!("{:?}", node.chaninfo()));
            true
        }),
        "heartbeat" => Box::new(move || heartbeat_request(&node)),
        "heartbeat_prune_stub" => {
            // a stub older than the prune horizon (regtest: CHANNEL_STUB_PRUNE_BLOCKS + 100)
            sys.connect_empty(108);
            Box::new(move || heartbeat_request(&node))
        }
        "heartbeat_prune_closed" => {
            // mutual close confirmed, channel forgotten by the node, buried: the monitor is done
            sys.connect(vec![sys.a.funding.clone()]);
            let close = mutual_close_tx(&sys.a);
            sys.connect(vec![close]);
            node.forget_channel(&a_id).expect("forget");
            sys.connect_empty(101);
            Box::new(move || heartbeat_request(&node))
        }
        "approve_invoice" => {
            sys.world.clock.set(Duration::from_secs(123456790));
            let inv = make_test_invoice(7, 100_000);
            Box::new(move || node.add_invoice(inv).is_ok())
        }
        "approve_keysend" => {
            let (_, hash) = payment(9);
            Box::new(move || node.add_keysend(make_test_pubkey(1), hash, 50_000).is_ok())
        }
        "allowlist_add" => {
            let addr = make_test_funding_wallet_addr(&node, 20_000, SpendType::P2wpkh).to_string();
            Box::new(move || node.add_allowlist(&[addr]).is_ok())
        }
        "allowlist_remove" => {
            // X was allowed before; the request takes it off the list
            let x = make_test_funding_wallet_addr(&node, 20_001, SpendType::P2wpkh).to_string();
            node.add_allowlist(&[x.clone()]).expect("allow X");
            Box::new(move || node.remove_allowlist(&[x]).is_ok())
        }
        "allowlist_set" => {
            let y = make_test_funding_wallet_addr(&node, 20_002, SpendType::P2wpkh).to_string();
            Box::new(move || node.set_allowlist(&[y]).is_ok())
        }
        "check_onchain_wallet" | "check_onchain_allowlist" => {
            let mut f = TestFundingTxContext::new();
            f.add_wallet_input(&sys.nctx, SpendType::P2wpkh, 30, 1_000_000);
            if kind.ends_with("allowlist") {
                f.add_allowlist_output(&sys.nctx, SpendType::P2wpkh, 31, 999_000);
            } else {
                f.add_wallet_output(&sys.nctx, SpendType::P2wpkh, 31, 999_000);
            }
            let tx = f.to_tx();
            Box::new(move || {
                let flags: Vec<bool> = tx.input.iter().map(|_| true).collect();
                node.check_onchain_tx(&tx, &flags, &f.prev_outs, &f.iuckeys, &f.opaths).is_ok()
            })
        }
        "check_onchain_funding" | "sign_onchain_funding" => {
            // a third channel, ready and with its initial commitment, funding not yet signed
            let sign = kind.starts_with("sign");
            let c = if sign { open_channel(&sys.nctx, &peer, 6, 4) } else { open_channel(&sys.nctx, &peer, 5, 3) };
            if sign {
                let flags: Vec<bool> = c.funding.input.iter().map(|_| true).collect();
                node.check_onchain_tx(&c.funding, &flags, &c.fctx.prev_outs, &c.fctx.iuckeys, &c.fctx.opaths).expect("check");
            }
            Box::new(move || {
                let flags: Vec<bool> = c.funding.input.iter().map(|_| true).collect();
                if sign {
                    node.unchecked_sign_onchain_tx(&c.funding, &c.fctx.ipaths, &c.fctx.prev_outs, c.fctx.iuckeys.clone()).is_ok()
                } else {
                    node.check_onchain_tx(&c.funding, &flags, &c.fctx.prev_outs, &c.fctx.iuckeys, &c.fctx.opaths).is_ok()
                }
            })
        }
        "add_block_empty" | "add_block_funding" | "add_block_closing" | "add_block_closing_streamed"
        | "add_block_mutual_close" | "block_chunk_closing" => {
            let streamed = kind.ends_with("streamed");
            let txs = if kind == "add_block_empty" {
                vec![]
            } else if kind == "add_block_funding" {
                vec![sys.a.funding.clone()]
            } else if kind == "add_block_mutual_close" {
                sys.connect(vec![sys.a.funding.clone()]);
                vec![mutual_close_tx(&sys.a)]
            } else {
                sys.connect(vec![sys.a.funding.clone()]);
                vec![sys.holder_commitment_tx(&sys.a, 0, VALUE - 1000, 0)]
            };
            let chunk_only = kind == "block_chunk_closing";
            let (block, proof, _) = sys.next_block(txs, streamed || chunk_only);
            if chunk_only {
                return Box::new(move || block_chunk_request(&node, &block));
            }
            if streamed {
                // the stream is a request of its own and comes first
                assert!(block_chunk_request(&node, &block));
            }
            Box::new(move || add_block_request(&node, &block, proof))
        }
        "remove_block_closing" | "remove_block_empty" => {
            if kind == "remove_block_closing" {
                sys.connect(vec![sys.a.funding.clone()]);
                let t = sys.holder_commitment_tx(&sys.a, 0, VALUE - 1000, 0);
                sys.connect(vec![t]);
            } else {
                sys.connect(vec![]);
            }
            let (block, prev) = sys.stack.pop().unwrap();
            let h = node.get_tracker().height();
            let proof = TxoProof::prove_unchecked(&block, &prev.1, h);
            Box::new(move || remove_block_request(&node, proof, prev))
        }
        "persist_all" => Box::new(move || {
            node.persist_all();
            true
        }),
        other => panic!("unknown request kind {}", other),
    }
}

// ------------------------------------------------------------------ record

fn record(rec: &Arc<Rec>, only: &[String]) {
    let mut n = 0;
    for kind in KINDS {
        if !only.is_empty() && !only.iter().any(|o| o == kind) {
            continue;
        }
        rec.reset();
        rec.st.lock().unwrap().current = kind.to_string();
        // the preparation runs under a role of its own (not recorded), so that a re-entrant
        // acquisition is noticed instead of blocking the harness for ever
        let r0 = rec.add_role(None);
        rec.bind(r0, false);
        let prepared = catch_unwind(AssertUnwindSafe(|| {
            let mut sys = build();
            let req = make_req(&mut sys, kind);
            (sys, req)
        }));
        rec.unbind(r0, None);
        let (sys, req) = match prepared {
            Ok(x) => x,
            Err(_) => {
                let st = rec.st.lock().unwrap();
                let again = st.role[r0].events.last().filter(|e| e.kind == 'W').map(|e| lock_name(&st, (e.class, e.inst)));
                let msg = match again {
                    Some(l) => format!("self-deadlock while preparing the scenario: {} is taken again by the thread that holds it", l),
                    None => "the scenario of this request could not be prepared".to_string(),
                };
                emit("PROG", json!({"name": kind, "error": msg}));
                continue;
            }
        };
        let r = rec.add_role(None);
        rec.bind(r, true);
        let out = catch_unwind(AssertUnwindSafe(req));
        rec.unbind(r, out.as_ref().ok().cloned());
        let st = rec.st.lock().unwrap();
        let role = &st.role[r];
        let self_deadlock = out.is_err() && role.events.last().map(|e| e.kind == 'W').unwrap_or(false);
        emit(
            "PROG",
            json!({
                "name": kind,
                "outcome": match &out { Ok(true) => "ok", Ok(false) => "refused", Err(_) => if self_deadlock { "self-deadlock" } else { "panic" } },
                "events": role.events.iter().map(ev_json).collect::<Vec<_>>(),
                "still_held": role.held.iter().map(|l| json!([l.0, l.1])).collect::<Vec<_>>(),
            }),
        );
        drop(st);
        drop(sys);
        n += 1;
    }
    let st = rec.st.lock().unwrap();
    emit(
        "CLASSES",
        json!(st.class_names.iter().map(|(c, (n, t))| json!({"code": c, "name": n, "type": t})).collect::<Vec<_>>()),
    );
    emit("STATS", json!({"domain": "locks-record", "programs": n, "kinds": KINDS.len()}));
}

// ------------------------------------------------------------------ race

fn lock_name(st: &State, l: (u64, u64)) -> String {
    format!("{}#{}", st.class_names.get(&l.0).map(|x| x.0.clone()).unwrap_or(format!("{}", l.0)), l.1)
}

/// thread r is blocked: it has announced an acquisition of a lock that another role holds
fn blocked_on(st: &State, r: usize) -> Option<usize> {
    let w = st.role[r].waiting?;
    let o = *st.owner.get(&w)?;
    if o != r {
        Some(o)
    } else {
        None
    }
}

fn wait_until<F: Fn(&State) -> bool>(rec: &Arc<Rec>, f: F, timeout: Duration) -> bool {
    let t0 = Instant::now();
    let mut st = rec.st.lock().unwrap();
    loop {
        if f(&st) {
            return true;
        }
        let left = timeout.checked_sub(t0.elapsed());
        match left {
            None => return false,
            Some(d) => {
                let (g, _) = rec.cv.wait_timeout(st, d.min(Duration::from_millis(20))).unwrap();
                st = g;
            }
        }
    }
}

/// settled = finished, parked, or blocked (and still blocked after a grace period)
fn settle(rec: &Arc<Rec>, r: usize, timeout: Duration) -> &'static str {
    let t0 = Instant::now();
    loop {
        let ok = wait_until(
            rec,
            |st| st.role[r].finished || st.role[r].parked || blocked_on(st, r).is_some(),
            timeout.saturating_sub(t0.elapsed()),
        );
        if !ok {
            return "timeout";
        }
        {
            let st = rec.st.lock().unwrap();
            if st.role[r].finished {
                return "finished";
            }
            if st.role[r].parked {
                return "parked";
            }
        }
        // blocked: make sure it is not a momentary contention
        std::thread::sleep(Duration::from_millis(35));
        let st = rec.st.lock().unwrap();
        if st.role[r].finished {
            return "finished";
        }
        if st.role[r].parked {
            return "parked";
        }
        if blocked_on(&st, r).is_some() {
            return "blocked";
        }
    }
}

/// one controlled schedule; returns the report and whether some thread is left blocked
fn race_once(rec: &Arc<Rec>, spec: &[String], patience: Duration) -> (Value, bool) {
    rec.reset();
    rec.st.lock().unwrap().current = spec.join(" || ");
    let mut sys = build();
    // name:k = pause right after the k-th acquisition, name@k = right before it
    let mut plan: Vec<(String, Option<usize>)> = vec![];
    let mut before: Vec<Option<usize>> = vec![];
    for s in spec {
        if let Some((name, k)) = s.split_once('@') {
            plan.push((name.to_string(), None));
            before.push(Some(k.parse::<usize>().expect("park index")));
        } else {
            let mut it = s.split(':');
            let name = it.next().unwrap().to_string();
            let park = it.next().map(|k| k.parse::<usize>().expect("park index"));
            plan.push((name, park));
            before.push(None);
        }
    }
    let mut reqs: Vec<Req> = vec![];
    // roles 0..k-1 are the racing threads; the preparations run on the main thread under a role
    // of their own, watched for re-entrant locking like the requests
    for (i, (_, park)) in plan.iter().enumerate() {
        rec.add_role2(*park, before[i]);
    }
    let r_setup = rec.add_role(None);
    rec.bind(r_setup, false);
    for (name, _) in plan.iter() {
        match catch_unwind(AssertUnwindSafe(|| make_req(&mut sys, name))) {
            Ok(r) => reqs.push(r),
            Err(_) => {
                rec.unbind(r_setup, None);
                std::mem::forget(sys);
                return (json!({"spec": spec, "outcome": "unpreparable", "cycle": [], "threads": [], "steps": [],
                               "was_blocked": false, "schedule": []}), false);
            }
        }
    }
    rec.unbind(r_setup, None);
    let k = plan.len();
    let mut handles = vec![];
    let mut started: Vec<String> = vec![];
    for (i, req) in reqs.into_iter().enumerate() {
        let r = i;
        let rc = rec.clone();
        handles.push(std::thread::spawn(move || {
            rc.bind(r, true);
            let out = catch_unwind(AssertUnwindSafe(req));
            rc.unbind(r, out.ok());
        }));
        let s = settle(rec, i, Duration::from_secs(20));
        started.push(format!("thread {} ({}) {}", i, plan[i].0, s));
    }
    // resume the parked threads, last to first; one that reaches its pause point only after
    // others have moved on is resumed as well
    for _ in 0..2 * k + 1 {
        let parked: Vec<usize> = {
            let st = rec.st.lock().unwrap();
            (0..k).rev().filter(|i| st.role[*i].parked && !st.role[*i].released).collect()
        };
        if parked.is_empty() {
            break;
        }
        for i in parked {
            {
                let mut st = rec.st.lock().unwrap();
                st.role[i].released = true;
                rec.cv.notify_all();
            }
            let s = settle_after_resume(rec, i, Duration::from_secs(20));
            started.push(format!("thread {} resumed: {}", i, s));
        }
    }
    // everybody who can finish does so now
    let all_done = wait_until(rec, |st| st.role.iter().all(|r| r.finished), patience);
    let snapshot = |st: &State| -> Vec<Option<usize>> {
        (0..k).map(|r| if st.role[r].finished { None } else { blocked_on(st, r) }).collect()
    };
    let mut cycle: Vec<usize> = vec![];
    if !all_done {
        // the wait-for graph of the instrumented mutexes, twice
        let g1 = snapshot(&rec.st.lock().unwrap());
        std::thread::sleep(Duration::from_millis(400));
        let g2 = snapshot(&rec.st.lock().unwrap());
        if g1 == g2 {
            for start in 0..k {
                let mut seen = vec![start];
                let mut cur = start;
                while let Some(nx) = g2[cur] {
                    if nx == start {
                        cycle = seen.clone();
                        break;
                    }
                    if seen.contains(&nx) {
                        break;
                    }
                    seen.push(nx);
                    cur = nx;
                }
                if !cycle.is_empty() {
                    break;
                }
            }
        }
    }
    let st = rec.st.lock().unwrap();
    let done = st.role.iter().all(|r| r.finished);
    let outcome = if done {
        "completed"
    } else if !cycle.is_empty() {
        "deadlock"
    } else {
        "incomplete-without-cycle"
    };
    let threads: Vec<Value> = (0..k)
        .map(|r| {
            json!({
                "thread": r,
                "request": plan[r].0,
                "park_after_acquisition": plan[r].1,
                "park_before_acquisition": before[r],
                "finished": st.role[r].finished,
                "result": st.role[r].result,
                "reply": st.role[r].reply,
                "holds": st.role[r].held.iter().map(|l| lock_name(&st, *l)).collect::<Vec<_>>(),
                "waits_for": st.role[r].waiting.map(|l| lock_name(&st, l)),
                "held_by_thread": blocked_on(&st, r),
                "acquisitions": st.role[r].events.iter().filter(|e| e.kind == 'A').map(|e| lock_name(&st, (e.class, e.inst))).collect::<Vec<_>>(),
            })
        })
        .collect();
    let schedule: Vec<String> = st
        .log
        .iter()
        .filter(|(_, e)| e.kind != 'T')
        .map(|(r, e)| {
            format!(
                "t{} {} {}",
                r,
                match e.kind {
                    'W' => "wants",
                    'A' => "acquires",
                    'Y' => "try-acquires",
                    'R' => "releases",
                    _ => "?",
                },
                lock_name(&st, (e.class, e.inst))
            )
        })
        .collect();
    let was_blocked = started.iter().any(|s| s.ends_with("blocked"));
    let report = json!({
        "spec": spec,
        "outcome": outcome,
        "cycle": cycle,
        "threads": threads,
        "steps": started,
        "was_blocked": was_blocked,
        // the tail of the schedule that matters (the recorded requests come last)
        "schedule": schedule.iter().rev().take(60).rev().collect::<Vec<_>>(),
    });
    drop(st);
    let mut report = report;
    if done {
        for h in handles {
            let _ = h.join();
        }
        let r0 = rec.add_role(None);
        rec.bind(r0, false);
        report["final"] = catch_unwind(AssertUnwindSafe(|| final_state(&sys))).unwrap_or(json!({"error": "state unreadable"}));
        rec.unbind(r0, None);
        drop(sys);
    } else {
        // blocked threads can never be joined; keep the node alive for them
        std::mem::forget(sys);
    }
    (report, !done)
}

fn settle_after_resume(rec: &Arc<Rec>, r: usize, timeout: Duration) -> &'static str {
    // the thread is inside the hook, about to leave it
    let _ = wait_until(rec, |st| !st.role[r].parked || st.role[r].finished, Duration::from_secs(5));
    settle(rec, r, timeout)
}

fn race(rec: &Arc<Rec>, spec: &[String]) {
    let (report, _) = race_once(rec, spec, Duration::from_millis(1500));
    emit("RACE", report);
    use std::io::Write;
    std::io::stdout().flush().unwrap();
    std::process::exit(0);
}

/// Implementation-side monitor, independent of the model: every request P is paused right after
/// each of its acquisitions while every request Q runs against it on a second thread (all
/// two-thread schedules with one preemption at an acquisition point); both must complete.
fn sweep(rec: &Arc<Rec>, args: &Args) {
    // how many acquisitions does each request make (single-threaded)
    let mut acqs: Vec<(String, usize, Vec<String>)> = vec![];
    let mut progs: Vec<(String, usize, Vec<String>, Vec<u8>)> = vec![];
    let mut s_window: Vec<(Vec<bool>, Vec<bool>)> = vec![];
    let mut windows: Vec<HashMap<String, (Vec<bool>, Vec<bool>)>> = vec![];
    for kind in KINDS {
        rec.reset();
        let r0 = rec.add_role(None);
        rec.bind(r0, false);
        let prepared = catch_unwind(AssertUnwindSafe(|| {
            let mut sys = build();
            let req = make_req(&mut sys, kind);
            (sys, req)
        }));
        rec.unbind(r0, None);
        let (_sys, req) = match prepared {
            Ok(x) => x,
            Err(_) => {
                acqs.push((kind.to_string(), 0, vec![]));
                progs.push((kind.to_string(), 0, vec![], vec![]));
                s_window.push((vec![], vec![]));
                windows.push(HashMap::new());
                continue;
            }
        };
        let r = rec.add_role(None);
        rec.bind(r, true);
        let _ = catch_unwind(AssertUnwindSafe(req));
        rec.unbind(r, None);
        let st = rec.st.lock().unwrap();
        let seq: Vec<String> =
            st.role[r].events.iter().filter(|e| e.kind == 'A').map(|e| lock_name(&st, (e.class, e.inst))).collect();
        // rel_before[k-1]: something was released between acquisition k-1 and acquisition k
        // 1 = some lock, 2 = a structural lock (node state, channel map, slot, tracker)
        let mut rel_before: Vec<u8> = vec![];
        let mut rel = 0u8;
        for e in st.role[r].events.iter() {
            if e.kind == 'R' {
                rel = rel.max(if (1..=4).contains(&e.class) { 2 } else { 1 });
            } else if e.kind == 'A' {
                rel_before.push(rel);
                rel = 0;
            }
        }
        // pause points inside a check-then-act window of a structural lock l (node state, channel map,
        // a channel slot, tracker): one section of l is over, l is not held, another section of l follows
        let mut wins: HashMap<String, (Vec<bool>, Vec<bool>)> = HashMap::new();
        let mut lset: Vec<(u64, u64)> = vec![];
        for e in st.role[r].events.iter() {
            if e.kind == 'A' && (1..=4).contains(&e.class) && !lset.contains(&(e.class, e.inst)) {
                lset.push((e.class, e.inst));
            }
        }
        for l in lset {
            let total = st.role[r].events.iter().filter(|e| e.kind == 'A' && (e.class, e.inst) == l).count();
            if total < 2 {
                continue;
            }
            let (mut done, mut held, mut started) = (0usize, false, 0usize);
            let (mut w_after, mut w_before) = (vec![], vec![]);
            for e in st.role[r].events.iter() {
                let mine = (e.class, e.inst) == l;
                match e.kind {
                    'A' => {
                        w_before.push(done >= 1 && !held && started < total);
                        if mine {
                            held = true;
                            started += 1;
                        }
                        w_after.push(done >= 1 && !held && started < total);
                    }
                    'R' if mine => {
                        held = false;
                        done += 1;
                    }
                    _ => {}
                }
            }
            wins.insert(lock_name(&st, l), (w_after, w_before));
        }
        let (w_after, w_before) = wins.get("S#0").cloned().unwrap_or((vec![false; seq.len()], vec![false; seq.len()]));
        windows.push(wins);
        s_window.push((w_after, w_before));
        progs.push((kind.to_string(), seq.len(), seq.clone(), rel_before));
        acqs.push((kind.to_string(), seq.len(), seq));
    }
    // preemption points of a request: ":k" after its k-th acquisition, "@k" before its k-th
    // acquisition when something was released since the previous one (between two critical sections)
    let structural = |l: &str| l.starts_with("S#") || l.starts_with("M#") || l.starts_with("C#") || l.starts_with("T#");
    let mut points_all: Vec<Vec<String>> = vec![];
    let mut points_main: Vec<Vec<String>> = vec![];
    for (_, n, seq, rel_before) in progs.iter() {
        let (mut all, mut main) = (vec![], vec![]);
        for k in 1..=*n {
            if k >= 2 && rel_before[k - 1] >= 1 {
                all.push(format!("@{}", k));
            }
            if k >= 2 && rel_before[k - 1] >= 2 {
                main.push(format!("@{}", k));
            }
            all.push(format!(":{}", k));
            if structural(&seq[k - 1]) {
                main.push(format!(":{}", k));
            }
        }
        points_all.push(all);
        points_main.push(main);
    }
    let index_of = |name: &str| acqs.iter().position(|a| a.0 == name);
    let is_handler = |n: &str| n.starts_with("h4_") || n.starts_with("h6_");
    // tier 1: the channel life cycle (same channel ids: the stub, channel A) + requests named by the caller
    let mut family: Vec<usize> = ["new_channel", "new_channel_existing", "setup_channel", "setup_channel_again",
        "forget_channel_stub", "forget_channel_ready", "heartbeat_prune_stub", "heartbeat_prune_closed",
        "sign_onchain_funding", "persist_all"].iter().filter_map(|n| index_of(n)).collect();
    for a in args.rest.iter() {
        if let Some(list) = a.strip_prefix("focus=") {
            for n in list.split(',') {
                if let Some(i) = index_of(n) {
                    if !family.contains(&i) {
                        family.push(i);
                    }
                }
            }
        }
    }
    let mut seen: std::collections::HashSet<(usize, String, usize)> = std::collections::HashSet::new();
    let mut triples: Vec<(usize, String, usize)> = vec![];
    for &pi in family.iter() {
        for &qi in family.iter() {
            if pi != qi {
                for pt in points_main[pi].iter() {
                    if seen.insert((pi, pt.clone(), qi)) {
                        triples.push((pi, pt.clone(), qi));
                    }
                }
            }
        }
    }
    // the same approved payment on two channels (and on one): every pause point, both orders
    let same_hash: Vec<usize> = ["sign_counterparty_commitment_htlc", "sign_counterparty_commitment_htlc_b",
        "validate_holder_commitment_htlc", "validate_holder_commitment_htlc_b"].iter().filter_map(|n| index_of(n)).collect();
    for &pi in same_hash.iter() {
        for &qi in same_hash.iter() {
            if pi != qi {
                for pt in points_all[pi].iter() {
                    if seen.insert((pi, pt.clone(), qi)) {
                        triples.push((pi, pt.clone(), qi));
                    }
                }
            }
        }
    }
    // handler messages on one channel, old protocol among themselves and new protocol among themselves
    // (different contents for the same commitment number included): every pause point, both orders
    for proto in ["h4_", "h6_"] {
        let fam: Vec<usize> = (0..acqs.len()).filter(|i| acqs[*i].0.starts_with(proto)).collect();
        for &pi in fam.iter() {
            for &qi in fam.iter() {
                if pi != qi {
                    for pt in points_all[pi].iter() {
                        if seen.insert((pi, pt.clone(), qi)) {
                            triples.push((pi, pt.clone(), qi));
                        }
                    }
                }
            }
        }
    }
    // setup_channel against the channel requests on the very id it is making ready: every pause point
    // (the store accesses included), both orders; compared down to a node restored from the store
    {
        let setups: Vec<usize> = (0..acqs.len()).filter(|i| acqs[*i].0 == "setup_channel" || acqs[*i].0 == "h6_setup_channel").collect();
        let on_id: Vec<usize> = (0..acqs.len()).filter(|i| acqs[*i].0.ends_with("_on_stub") || acqs[*i].0 == "get_point_stub").collect();
        for &a in setups.iter() {
            for &b in on_id.iter() {
                for (pi, qi) in [(a, b), (b, a)] {
                    for pt in points_all[pi].iter() {
                        if seen.insert((pi, pt.clone(), qi)) {
                            triples.push((pi, pt.clone(), qi));
                        }
                    }
                }
            }
        }
    }
    // allowlist edits on one node: every pause point (a point between the in-memory update and the store
    // write included, if there is one), both orders; compared down to a node restored from the store
    {
        let fam: Vec<usize> = (0..acqs.len()).filter(|i| acqs[*i].0.starts_with("allowlist_")).collect();
        for &pi in fam.iter() {
            for &qi in fam.iter() {
                if pi != qi {
                    for pt in points_all[pi].iter() {
                        if seen.insert((pi, pt.clone(), qi)) {
                            triples.push((pi, pt.clone(), qi));
                        }
                    }
                }
            }
        }
    }
    // requests with a check-then-act window on the node state (named by the caller): paused inside the
    // window, against every other request that takes the node state
    let mut focus_s: Vec<usize> = vec![];
    for a in args.rest.iter() {
        if let Some(list) = a.strip_prefix("focus_s=") {
            focus_s.extend(list.split(',').filter_map(|n| index_of(n)));
        }
    }
    for &pi in focus_s.iter() {
        let mut pts: Vec<String> = vec![];
        for k in 1..=acqs[pi].1 {
            if s_window[pi].1[k - 1] && points_all[pi].contains(&format!("@{}", k)) {
                pts.push(format!("@{}", k));
            }
            if s_window[pi].0[k - 1] {
                pts.push(format!(":{}", k));
            }
        }
        if is_handler(&acqs[pi].0) {
            continue; // the handler messages have their own family above
        }
        for qi in 0..acqs.len() {
            if qi == pi || is_handler(&acqs[qi].0) || !acqs[qi].2.iter().any(|l| l.starts_with("S#")) {
                continue;
            }
            for pt in pts.iter() {
                if seen.insert((pi, pt.clone(), qi)) {
                    triples.push((pi, pt.clone(), qi));
                }
            }
        }
    }
    // requests with a check-then-act window on any structural lock (named by the caller): paused inside
    // the window, against every other request that takes that very lock
    let mut focus_w: Vec<usize> = vec![];
    for a in args.rest.iter() {
        if let Some(list) = a.strip_prefix("focus_w=") {
            focus_w.extend(list.split(',').filter_map(|n| index_of(n)));
        }
    }
    for &pi in focus_w.iter() {
        if is_handler(&acqs[pi].0) {
            continue;
        }
        let mut locks: Vec<&String> = windows[pi].keys().collect();
        locks.sort();
        for l in locks {
            let (wa, wb) = &windows[pi][l];
            let mut pts: Vec<String> = vec![];
            for k in 1..=acqs[pi].1 {
                if wb[k - 1] && points_all[pi].contains(&format!("@{}", k)) {
                    pts.push(format!("@{}", k));
                }
                if wa[k - 1] {
                    pts.push(format!(":{}", k));
                }
            }
            for qi in 0..acqs.len() {
                if qi == pi || is_handler(&acqs[qi].0) || !acqs[qi].2.contains(l) {
                    continue;
                }
                for pt in pts.iter() {
                    if seen.insert((pi, pt.clone(), qi)) {
                        triples.push((pi, pt.clone(), qi));
                    }
                }
            }
        }
    }
    // every pause point inside a heartbeat against every block request (the heartbeat reports tip and height)
    for (pi, a) in acqs.iter().enumerate() {
        if !a.0.starts_with("heartbeat") {
            continue;
        }
        for (qi, b) in acqs.iter().enumerate() {
            if b.0.starts_with("add_block") || b.0.starts_with("remove_block") || b.0.starts_with("block_chunk") {
                for pt in points_all[pi].iter() {
                    if seen.insert((pi, pt.clone(), qi)) {
                        triples.push((pi, pt.clone(), qi));
                    }
                }
            }
        }
    }
    let tier1 = triples.len();
    // tier 2: two requests that lock the same channel slot, one of them a commitment update
    let is_update = |n: &str| ["validate_holder_commitment", "revoke_holder_commitment", "sign_counterparty_commitment",
        "validate_counterparty_revocation", "sign_holder_commitment", "sign_mutual_close", "htlcs_fulfilled",
        "h4_validate", "h6_validate", "h4_revoke", "h6_revoke", "h4_sign_remote", "h6_sign_remote"].iter().any(|p| n.starts_with(p));
    let slots = |i: usize| -> Vec<&String> { acqs[i].2.iter().filter(|l| l.starts_with("C#")).collect() };
    let mut t2: Vec<(usize, String, usize)> = vec![];
    for pi in 0..acqs.len() {
        for qi in 0..acqs.len() {
            if pi == qi || !(is_update(&acqs[pi].0) || is_update(&acqs[qi].0)) {
                continue;
            }
            if !slots(pi).iter().any(|l| slots(qi).contains(l)) {
                continue;
            }
            for pt in points_main[pi].iter() {
                if !seen.contains(&(pi, pt.clone(), qi)) {
                    t2.push((pi, pt.clone(), qi));
                }
            }
        }
    }
    let mut rng = Rng::new(args.seed);
    // a seeded rotation, so that a budget that does not cover the tier covers another part with another seed
    if !t2.is_empty() {
        let rot = rng.below(t2.len() as u64) as usize;
        t2.rotate_left(rot);
    }
    for t in t2.iter() {
        seen.insert(t.clone());
    }
    let tier2 = t2.len();
    triples.extend(t2);
    // tier 3: everything else, in seeded random order
    let mut t3: Vec<(usize, String, usize)> = vec![];
    for pi in 0..acqs.len() {
        for pt in points_all[pi].iter() {
            for qi in 0..acqs.len() {
                if !seen.contains(&(pi, pt.clone(), qi)) {
                    t3.push((pi, pt.clone(), qi));
                }
            }
        }
    }
    for i in 0..t3.len() {
        let j = i + rng.below((t3.len() - i) as u64) as usize;
        t3.swap(i, j);
    }
    let tier3 = t3.len();
    triples.extend(t3);
    let total = triples.len();
    if args.n > 0 && args.n < total {
        triples.truncate(args.n);
    }
    // shard=i/n: this process runs every n-th schedule of the selection
    let (shard, nshards): (usize, usize) = args
        .rest
        .iter()
        .find_map(|a| a.strip_prefix("shard=").map(|v| {
            let (a, b) = v.split_once('/').expect("shard=i/n");
            (a.parse().unwrap(), b.parse().unwrap())
        }))
        .unwrap_or((0, 1));
    let selected = triples.len();
    let triples: Vec<(usize, String, usize)> =
        triples.into_iter().enumerate().filter(|(i, _)| i % nshards == shard).map(|(_, t)| t).collect();
    if args.rest.iter().any(|a| a == "plan") {
        emit("PLAN", json!({"tier1": tier1, "tier2": tier2, "tier3": tier3, "total": total, "selected": selected,
                            "family": family.iter().map(|i| acqs[*i].0.clone()).collect::<Vec<_>>(),
                            "points": acqs.iter().enumerate().map(|(i, a)| json!([a.0, points_main[i].len(), points_all[i].len()])).collect::<Vec<_>>()}));
        return;
    }
    let from: usize = args.rest.iter().find_map(|a| a.strip_prefix("from=").map(|v| v.parse().unwrap())).unwrap_or(0);
    let (mut completed, mut blocked, mut changed, mut panicked, mut skipped) = (0usize, 0usize, 0usize, 0usize, 0usize);
    let mut idx = from;
    let mut sample: Option<Value> = None;
    let mut seq_cache: HashMap<(usize, usize), (Option<(Vec<Rep>, Value)>, Option<(Vec<Rep>, Value)>)> = HashMap::new();
    let (mut serializable, mut not_serializable, mut seq_unavailable) = (0usize, 0usize, 0usize);
    let mut odd: Vec<Value> = vec![];
    while idx < triples.len() {
        let (pi, pt, qi) = triples[idx].clone();
        let spec = vec![format!("{}{}", acqs[pi].0, pt), acqs[qi].0.clone()];
        let deep = |n: &str| n.starts_with("allowlist_") || n.ends_with("_on_stub");
        DEEP.store(deep(&acqs[pi].0) || deep(&acqs[qi].0), std::sync::atomic::Ordering::SeqCst);
        let (report, stuck) = race_once(rec, &spec, Duration::from_millis(3000));
        idx += 1;
        if stuck {
            emit("RACE", report);
            emit(
                "SWEEP",
                json!({"total": total, "selected": selected, "tiers": [tier1, tier2, tier3], "shard": [shard, nshards], "mine": triples.len(), "from": from, "next": idx, "completed": completed,
                       "blocked_then_completed": blocked, "program_changed": changed, "panicked": panicked, "unpreparable": skipped, "serializable": serializable,
                       "not_serializable": not_serializable, "sequential_unavailable": seq_unavailable, "odd": odd,
                       "aborted": true, "sample": sample}),
            );
            use std::io::Write;
            std::io::stdout().flush().unwrap();
            std::process::exit(0);
        }
        if report["outcome"] == "unpreparable" {
            skipped += 1;
            continue;
        }
        completed += 1;
        if report["was_blocked"].as_bool().unwrap_or(false) {
            blocked += 1;
            if sample.is_none() {
                sample = Some(json!({"spec": report["spec"], "steps": report["steps"]}));
            }
        }
        let th = report["threads"].as_array().unwrap();
        if th.iter().any(|t| t["result"].is_null()) {
            panicked += 1;
        }
        // outcome = replies + final state; it must be the outcome of P;Q or of Q;P
        let key = (pi, qi);
        if !seq_cache.contains_key(&key) {
            let pq = run_sequential(rec, &acqs[pi].0, &acqs[qi].0, false);
            let qp = run_sequential(rec, &acqs[pi].0, &acqs[qi].0, true);
            seq_cache.insert(key, (pq, qp));
        }
        let (pq, qp) = seq_cache.get(&key).unwrap();
        let replies: Vec<Rep> =
            th.iter().map(|t| (t["result"].as_bool(), t["reply"].as_str().map(|x| x.to_string()))).collect();
        let fin = &report["final"];
        let matches = |o: &Option<(Vec<Rep>, Value)>| -> bool {
            match o {
                Some((r, st)) => *r == replies && st == fin,
                None => false,
            }
        };
        if pq.is_none() || qp.is_none() {
            seq_unavailable += 1;
        } else if matches(pq) || matches(qp) {
            serializable += 1;
        } else {
            not_serializable += 1;
            if odd.len() < 5 {
                let d = |o: &Option<(Vec<Rep>, Value)>| -> Value {
                    let (r, st) = o.as_ref().unwrap();
                    let keys = state_diff(st, fin);
                    let detail: Vec<Value> = keys.iter().take(3).map(|k| json!({"key": k, "sequential": st.get(k), "concurrent": fin.get(k)})).collect();
                    json!({"replies": r.iter().map(|x| x.0).collect::<Vec<_>>(),
                           "reply_content": r.iter().map(|x| x.1.clone()).collect::<Vec<_>>(),
                           "differing_keys": keys, "detail": detail})
                };
                odd.push(json!({"spec": report["spec"], "steps": report["steps"],
                                "replies": replies.iter().map(|x| x.0).collect::<Vec<_>>(),
                                "reply_content": replies.iter().map(|x| x.1.clone()).collect::<Vec<_>>(),
                                "schedule": report["schedule"], "vs_P_then_Q": d(pq), "vs_Q_then_P": d(qp)}));
            }
        }
        // compare lock classes only: the instance numbers depend on what both preparations created
        let cls = |x: &str| -> String { x.split('#').next().unwrap().to_string() };
        let same = |t: &Value, seq: &Vec<String>| -> bool {
            t["acquisitions"].as_array().unwrap().iter().map(|x| cls(x.as_str().unwrap())).collect::<Vec<_>>()
                == seq.iter().map(|x| cls(x)).collect::<Vec<_>>()
        };
        if !same(&th[0], &acqs[pi].2) || !same(&th[1], &acqs[qi].2) {
            changed += 1;
        }
    }
    emit(
        "SWEEP",
        json!({"total": total, "selected": selected, "tiers": [tier1, tier2, tier3], "shard": [shard, nshards], "mine": triples.len(), "from": from, "next": idx, "completed": completed,
               "blocked_then_completed": blocked, "program_changed": changed, "panicked": panicked, "unpreparable": skipped, "serializable": serializable,
                       "not_serializable": not_serializable, "sequential_unavailable": seq_unavailable, "odd": odd,
               "aborted": false, "sample": sample}),
    );
}

/// STRESS TEST (no schedule control): requests whose shared state is a lock-free counter cannot be
/// steered by the mutex hook.  K threads are released together (spinning on a flag) and each issues
/// one request; the round's outcome is compared with the sequential specification: every reply Ok,
/// K pairwise distinct values, and for channel ids exactly K new stubs.
fn stress(args: &Args) {
    use std::sync::atomic::{AtomicBool, AtomicUsize, Ordering};
    let k = 8usize;
    let rounds = args.n.max(1);
    let mut failures: Vec<Value> = vec![];
    let (mut rounds_ids, mut rounds_rand) = (0usize, 0usize);
    for round in 0..rounds {
        let which = if round % 4 == 3 { "get_secure_random_bytes" } else { "new_channel_with_random_id" };
        let mut seed = [0u8; 32];
        seed[0] = 0xc2;
        seed[1] = (round % 251) as u8;
        let world = World::new(World::default_policy(), seed, KeyDerivationStyle::Native);
        let node = world.new_node();
        let before = node.get_channels().len();
        let go = Arc::new(AtomicBool::new(false));
        let ready = Arc::new(AtomicUsize::new(0));
        let mut hs = vec![];
        for _ in 0..k {
            let (node, go, ready) = (node.clone(), go.clone(), ready.clone());
            let ids = which == "new_channel_with_random_id";
            hs.push(std::thread::spawn(move || {
                ready.fetch_add(1, Ordering::SeqCst);
                while !go.load(Ordering::Acquire) {
                    std::hint::spin_loop();
                }
                if ids {
                    node.new_channel_with_random_id(&node).ok().map(|(id, _)| hex::encode(id.as_slice()))
                } else {
                    Some(hex::encode(node.get_entropy_source().get_secure_random_bytes()))
                }
            }));
        }
        while ready.load(Ordering::SeqCst) < k {
            std::hint::spin_loop();
        }
        go.store(true, Ordering::Release);
        let replies: Vec<Option<String>> = hs.into_iter().map(|h| h.join().ok().flatten()).collect();
        let mut distinct: Vec<&String> = replies.iter().flatten().collect();
        distinct.sort();
        distinct.dedup();
        let created = node.get_channels().len() - before;
        let ok = replies.iter().all(|r| r.is_some())
            && distinct.len() == k
            && (which != "new_channel_with_random_id" || created == k);
        if which == "new_channel_with_random_id" {
            rounds_ids += 1;
        } else {
            rounds_rand += 1;
        }
        if !ok && failures.len() < 3 {
            failures.push(json!({"round": round, "request": which, "threads": k, "replies": replies,
                                 "distinct_values": distinct.len(), "channels_created": created,
                                 "expected": format!("{} Ok replies with {} pairwise distinct values{}", k, k,
                                                     if which == "new_channel_with_random_id" { format!(" and {} new stubs", k) } else { String::new() })}));
        }
        if !ok && failures.len() >= 3 {
            break;
        }
    }
    emit("STRESS", json!({"rounds": rounds, "threads": k, "rounds_new_channel_with_random_id": rounds_ids,
                          "rounds_get_secure_random_bytes": rounds_rand, "failures": failures,
                          "kind": "stress test without schedule control, not an exploration"}));
}

fn main() {
    let argv: Vec<String> = std::env::args().skip(1).collect();
    let sub = argv.get(0).cloned().unwrap_or_default();
    let args = parse_args(&argv[1.min(argv.len())..]);
    // request panics are caught and reported; keep stderr quiet
    if std::env::var("LOCKS_SHOW_PANICS").is_err() {
        std::panic::set_hook(Box::new(|_| {}));
    }
    let rec = Rec::new();
    rec.install();
    match sub.as_str() {
        "record" => record(&rec, &args.rest),
        "race" => race(&rec, &args.rest),
        "sweep" => sweep(&rec, &args),
        "stress" => stress(&args),
        "kinds" => emit("KINDS", json!(KINDS)),
        _ => {
            eprintln!("usage: locks record|race|kinds");
            std::process::exit(2);
        }
    }
}
