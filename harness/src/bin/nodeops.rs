//! Domain `nodeops` (C10, C11): one real Node driven through node-level requests (new / setup /
//! forget channel, heartbeat, allowlist edits, keysend approvals) and a few channel requests,
//! with restarts.  Two monitors run around EVERY request:
//!  * C10: if the request returned an error, the fingerprint of the running signer and the full
//!    store dump are what they were before the request;
//!  * C11: after the request returned (Ok or Err), a second signer restored from the store alone
//!    has the same fingerprint as the running one.
//! The same operations are emitted as a `nodeops_case` of Model/NodeOpsCheck.v.
use std::panic::{catch_unwind, AssertUnwindSafe};
use std::sync::Arc;

use lightning_signer::bitcoin::bip32::DerivationPath;
use lightning_signer::bitcoin::secp256k1::{PublicKey, Secp256k1, SecretKey};
use lightning_signer::channel::{ChannelId, ChannelSlot};
use lightning_signer::lightning::types::payment::PaymentHash;
use lightning_signer::node::Node;
use lightning_signer::persist::Persist;
use lightning_signer::signer::derive::KeyDerivationStyle;
use lightning_signer::util::test_utils::make_test_channel_setup;
use serde_json::json;
use vharness::*;

const ADDRS: [&str; 3] = [
    "bcrt1qw508d6qejxtdg4y5r3zarvary0c5xw7kygt080",
    "bcrt1qrp33g0q5c5txsp9arysrx4k6zdkfs4nce4xj0gdcccefvpysxf3qzf4jry",
    "mkHS9ne12qx9pS9VojpwU5xtRd4T7X7ZUt",
];
const BAD_ADDR: &str = "not-an-address";
const NEVER_ADDED: &str = "bcrt1qcr8te4kr609gcawutmrza0j4xv80jy8zeqchgx";

struct Sys {
    world: World,
    node: Arc<Node>,
    node_id: PublicKey,
    peer: [u8; 33],
    /// one case in five runs on Testnet (compiled-in checkpoints, 6-block stub horizon) and
    /// connects a few blocks; the tracker then sits strictly between genesis and the checkpoint
    testnet: bool,
    blocks: u32,
    /// what is needed to disconnect the connected blocks again, newest last
    /// (proof, previous tip, what the block carried: 0 nothing, 20 + d the funding transaction of
    /// channel d, 10 + d the transaction that spends channel d's funding output)
    undo: Vec<(lightning_signer::txoo::proof::TxoProof, lightning_signer::chain::tracker::Headers, u64)>,
    /// one case in three runs on the transactional store of a daemon that keeps its state in the
    /// cloud: every request (sometimes two or three) inside enter() .. prepare() .. commit()
    in_txn: bool,
    txn_ops: u32,
    txn_all_refused: bool,
    txn_before_local: Vec<(String, (u64, Vec<u8>))>,
    n_txn: u64,
    n_txn_multi: u64,
}

impl Sys {
    fn new(case: usize) -> Sys {
        let testnet = case % 5 == 4;
        let mut seed = [0u8; 32];
        seed[0] = (case % 251) as u8;
        seed[1] = 0x0d;
        let world = if testnet {
            use lightning_signer::bitcoin::Network;
            World::new_on(
                Network::Testnet,
                {
                    let mut p = lightning_signer::policy::simple_validator::make_default_simple_policy(Network::Testnet);
                    p.max_invoices = 4;
                    p
                },
                seed,
                KeyDerivationStyle::Native,
            )
        } else {
            let mut policy = World::default_policy();
            policy.max_invoices = 4; // Model.NodeOps.MAX_INV: the approvals table fills up
            // one case in four under a filter whose strict rule shadows the permissive one: nothing is downgraded
            if case % 4 == 1 {
                policy.filter = shadowed_permissive_filter();
            }
            World::new(policy, seed, KeyDerivationStyle::Native)
        };
        let mut world = world;
        if case % 3 == 2 {
            world.cloud = Some(cloud_from(&[]));
        }
        let node = world.new_node();
        let node_id = node.get_id();
        let secp = Secp256k1::new();
        let peer = PublicKey::from_secret_key(&secp, &SecretKey::from_slice(&[9u8; 32]).unwrap()).serialize();
        let mut sys = Sys {
            world, node, node_id, peer, testnet, blocks: 0, undo: vec![],
            in_txn: false, txn_ops: 0, txn_all_refused: true, txn_before_local: vec![], n_txn: 0, n_txn_multi: 0,
        };
        if testnet {
            // a fresh tracker (height 0) is moved to the checkpoint by a restart, by design: the
            // history starts after the first block
            sys.txn_begin();
            sys.add_block();
            let _ = sys.txn_end("the first block");
        }
        sys
    }
    /// the transaction whose output d funds channel d
    fn funding_tx(d: u64) -> lightning_signer::bitcoin::Transaction {
        use lightning_signer::bitcoin::{absolute::LockTime, hashes::Hash, transaction::Version, Amount, OutPoint, ScriptBuf, Sequence, Transaction, TxIn, TxOut, Txid, Witness};
        Transaction {
            version: Version::TWO,
            lock_time: LockTime::ZERO,
            input: vec![TxIn { previous_output: OutPoint { txid: Txid::all_zeros(), vout: 70 + d as u32 }, script_sig: ScriptBuf::new(), sequence: Sequence::MAX, witness: Witness::default() }],
            output: (0..6).map(|i| TxOut { value: Amount::from_sat(3_000_000), script_pubkey: ScriptBuf::from(vec![0x00, 0x20, i as u8, 7, 7, 7, 7, 7, 7, 7, 7, 7, 7, 7, 7, 7, 7, 7, 7, 7, 7, 7, 7, 7, 7, 7, 7, 7, 7, 7, 7, 7, 7, 7]) }).collect(),
        }
    }
    /// a transaction that spends channel d's funding output and is no commitment transaction
    /// (what the channel monitor takes for a cooperative close)
    fn closing_tx(d: u64) -> lightning_signer::bitcoin::Transaction {
        use lightning_signer::bitcoin::{absolute::LockTime, transaction::Version, Amount, OutPoint, ScriptBuf, Sequence, Transaction, TxIn, TxOut, Witness};
        Transaction {
            version: Version::TWO,
            lock_time: LockTime::ZERO,
            input: vec![TxIn { previous_output: OutPoint { txid: Sys::funding_tx(d).compute_txid(), vout: d as u32 }, script_sig: ScriptBuf::new(), sequence: Sequence::MAX, witness: Witness::default() }],
            output: vec![TxOut { value: Amount::from_sat(2_999_000), script_pubkey: ScriptBuf::from(vec![0x00, 0x14, d as u8, 9, 9, 9, 9, 9, 9, 9, 9, 9, 9, 9, 9, 9, 9, 9, 9, 9, 9, 9]) }],
        }
    }
    /// connect one block the way the AddBlock handler does (tracker, then its store entry).
    /// `what`: 0 nothing of interest, 20 + d the funding transaction of d, 10 + d the close of d
    fn add_block_with(&mut self, what: u64) -> bool {
        use lightning_signer::bitcoin::blockdata::constants::genesis_block;
        use lightning_signer::bitcoin::hashes::Hash;
        use lightning_signer::bitcoin::{absolute::LockTime, merkle_tree, transaction::Version, Block, Network, Transaction, TxMerkleNode};
        use lightning_signer::txoo::proof::TxoProof;
        use lightning_signer::util::test_utils::mine_header_with_bits;
        let mut tracker = self.node.get_tracker();
        let prev = tracker.tip().clone();
        let height = tracker.height();
        let mut txs: Vec<Transaction> = vec![Transaction { version: Version::non_standard(0), lock_time: LockTime::from_consensus(height + 1), input: vec![], output: vec![] }];
        match what {
            0 => {}
            w if w >= 20 => txs.push(Sys::funding_tx(w - 20)),
            w => txs.push(Sys::closing_tx(w - 10)),
        }
        let tx_ids: Vec<_> = txs.iter().map(|tx| tx.compute_txid().to_raw_hash()).collect();
        let merkle_root = TxMerkleNode::from_raw_hash(merkle_tree::calculate_root(tx_ids.into_iter()).unwrap().into());
        let bits = genesis_block(Network::Regtest).header.bits;
        let header = mine_header_with_bits(prev.0.block_hash(), merkle_root, bits);
        let block = Block { header, txdata: txs };
        let proof = TxoProof::prove_unchecked(&block, &prev.1, height + 1);
        let ok = tracker.add_block(header, proof.clone()).is_ok();
        self.world.dyn_persister().update_tracker(&self.node_id, &tracker).expect("update_tracker");
        self.blocks += 1;
        if ok {
            self.undo.push((proof, prev, what));
        }
        ok
    }
    fn in_chain(&self, what: u64) -> bool {
        self.undo.iter().any(|u| u.2 == what)
    }
    fn add_block(&mut self) -> bool {
        self.add_block_with(0)
    }
    /// disconnect the newest connected block the way the RemoveBlock handler does
    fn remove_block(&mut self) -> bool {
        let (proof, prev, _) = match self.undo.pop() {
            Some(x) => x,
            None => return true,
        };
        let mut tracker = self.node.get_tracker();
        let ok = tracker.remove_block(proof, prev).is_ok();
        self.world.dyn_persister().update_tracker(&self.node_id, &tracker).expect("update_tracker");
        ok
    }
    fn txn_begin(&mut self) {
        if let Some(c) = self.world.cloud.clone() {
            if !self.in_txn {
                self.txn_before_local = raw_dump(&c);
                let p: Arc<dyn Persist> = c;
                p.enter().expect("enter");
                self.in_txn = true;
                self.txn_ops = 0;
                self.txn_all_refused = true;
            }
        }
    }

    /// the end of a transaction as the daemon runs it: prepare(), the reported records go to the
    /// cloud, commit().  Returns what C10 / C11 find wrong at the crash points around it.
    fn txn_end(&mut self, what: &str) -> (Vec<String>, Vec<String>) {
        use lightning_signer::persist::Mutations;
        let (mut c10, mut c11) = (vec![], vec![]);
        let c = match self.world.cloud.clone() {
            Some(c) if self.in_txn => c,
            _ => return (c10, c11),
        };
        let p: Arc<dyn Persist> = c.clone();
        let muts = p.prepare();
        self.n_txn += 1;
        if self.txn_ops > 1 {
            self.n_txn_multi += 1;
        }
        if self.txn_all_refused && !muts.is_empty() {
            let keys: Vec<String> = muts.clone().into_iter().map(|(k, _)| k).collect();
            c10.push(format!("the transactional store ends the refused {} with pending mutations: {}", what, keys.join(", ")));
        }
        for b in replica_apply(&mut self.world.replica.lock().unwrap(), &muts) {
            c11.push(format!("after {}: the cloud refuses what prepare() reported: {}", what, b));
        }
        let cloud_all: Vec<(String, (u64, Vec<u8>))> = self.world.replica.lock().unwrap().iter().map(|(k, v)| (k.clone(), v.clone())).collect();
        let running = fingerprint(&self.node);
        let world = &self.world;
        let node_id = self.node_id;
        let from = |local: &[(String, (u64, Vec<u8>))], sync: bool| -> Result<Vec<String>, ()> {
            catch_unwind(AssertUnwindSafe(|| {
                let copy = cloud_from(local);
                if sync {
                    let cp: Arc<dyn Persist> = copy.clone();
                    if cp.put_batch_unlogged(Mutations::from_vec(cloud_all.clone())).is_err() {
                        return vec!["start-up cannot bring the local store up to date from the cloud (put_batch_unlogged refused)".to_string()];
                    }
                }
                let (shadow, _) = world.restore_on_cloud(&copy, &node_id);
                fingerprint_diff(&running, &fingerprint(&shadow))
            }))
            .map_err(|_| ())
        };
        // a crash after the cloud took the records and before commit(): the local store is the
        // old one; start-up brings it up to date from the cloud
        match from(&self.txn_before_local, true) {
            Ok(d) if d.is_empty() => {}
            Ok(d) => c11.push(format!("after {}: a signer restarted between prepare and commit (old local store brought up to date from the cloud) would differ: {}", what, d.join("; "))),
            Err(()) => c11.push(format!("after {}: a signer crashed between prepare and commit cannot be restored (restore panics)", what)),
        }
        p.commit().expect("commit");
        self.in_txn = false;
        let local = raw_dump(&c);
        if local != cloud_all {
            let lm: Replica = local.iter().cloned().collect();
            let cm: Replica = cloud_all.iter().cloned().collect();
            let mut keys: Vec<&String> = lm.keys().chain(cm.keys()).collect();
            keys.sort();
            keys.dedup();
            let d: Vec<String> = keys
                .into_iter()
                .filter(|k| lm.get(*k) != cm.get(*k))
                .map(|k| format!("{} (local version {:?}, cloud version {:?})", k, lm.get(k).map(|x| x.0), cm.get(k).map(|x| x.0)))
                .collect();
            c11.push(format!("after {}: the committed local store differs from what was reported to the cloud: {}", what, d.join(", ")));
        }
        match from(&local, false) {
            Ok(d) if d.is_empty() => {}
            Ok(d) => c11.push(format!("after {}: a restart from the local store would differ: {}", what, d.join("; "))),
            Err(()) => c11.push(format!("after {}: the signer cannot be restored from its local store (restore panics)", what)),
        }
        // another host, recovering from the cloud copy alone
        match from(&[], true) {
            Ok(d) if d.is_empty() => {}
            Ok(d) => c11.push(format!("after {}: a signer recovered from the cloud copy alone would differ: {}", what, d.join("; "))),
            Err(()) => c11.push(format!("after {}: the signer cannot be recovered from the cloud copy (restore panics)", what)),
        }
        (c10, c11)
    }

    /// a restart of the daemon on the transactional store: same disk, brought up to date from
    /// the cloud, then restored inside the start-up transaction
    fn cloud_restart(&mut self) -> Arc<Node> {
        use lightning_signer::persist::Mutations;
        let c = self.world.cloud.clone().expect("cloud");
        let copy = cloud_from(&raw_dump(&c));
        let cloud_all: Vec<(String, (u64, Vec<u8>))> = self.world.replica.lock().unwrap().iter().map(|(k, v)| (k.clone(), v.clone())).collect();
        let cp: Arc<dyn Persist> = copy.clone();
        cp.put_batch_unlogged(Mutations::from_vec(cloud_all)).expect("put_batch_unlogged");
        let (node, muts) = self.world.restore_on_cloud(&copy, &self.node_id);
        replica_apply(&mut self.world.replica.lock().unwrap(), &muts);
        self.world.cloud = Some(copy);
        node
    }

    fn cid(&self, dbid: u64) -> ChannelId {
        ChannelId::new_from_peer_id_and_oid(&self.peer, dbid)
    }
    fn slot_kind(&self, dbid: u64) -> &'static str {
        match self.node.get_channel(&self.cid(dbid)) {
            Err(_) => "None",
            Ok(slot) => match &*slot.lock().unwrap() {
                ChannelSlot::Stub(_) => "SStub",
                ChannelSlot::Ready(c) => {
                    if c.monitor.forget_seen() {
                        "SForgot"
                    } else {
                        "SReady"
                    }
                }
            },
        }
    }
}

fn observe(sys: &Sys) -> String {
    let kinds: Vec<String> = (1..=4u64).map(|d| sys.slot_kind(d).to_string()).collect();
    let st = sys.node.get_state();
    let hwm = st.dbid_high_water_mark;
    let ninv = st.invoices.len();
    drop(st);
    let al = sys.node.allowlist().unwrap_or_default();
    let albits: Vec<String> = ADDRS.iter().map(|a| coq_bool(al.iter().any(|x| x.contains(a))).to_string()).collect();
    let st = sys.node.get_state();
    let iss: Vec<String> = (1..=5u64)
        .map(|h| st.issued_invoices.get(&PaymentHash(issued_hash(h))).map(|p| format!("Some {}", p.amount_msat)).unwrap_or("No".to_string()))
        .collect();
    format!("({}, {}, {}, {}, {})", coq_list(&kinds), hwm, coq_list(&albits), ninv, coq_list(&iss))
}

/// the payment hashes of the invoices this domain has the node issue (apart from the keysend hashes)
fn issued_hash(h: u64) -> [u8; 32] {
    let mut x = [0xEEu8; 32];
    x[0] = h as u8;
    x
}

fn run(args: &Args) {
    if std::env::var("VERIF_SHOW_PANICS").is_err() {
        std::panic::set_hook(Box::new(|_| {}));
    }
    let mut rng = Rng::new(args.seed ^ 0x0de0);
    let mut n_c10 = 0u64;
    let mut n_c11 = 0u64;
    let (mut n_cloud, mut n_txn, mut n_txn_multi) = (0u64, 0u64, 0u64);
    let mut kinds: std::collections::BTreeMap<String, (u64, u64)> = Default::default();
    let max_len = if args.tier == "thorough" { 40 } else { 24 };
    for case in 0..args.n {
        let mut sys = Sys::new(case);
        let len = 6 + rng.below(max_len) as usize;
        let mut ops = vec![];
        let mut obs = vec![];
        let mut jops = vec![];
        let mut c10: Vec<String> = vec![];
        let mut c11: Vec<String> = vec![];
        let mut hash_ctr = 0u8;
        let mut last_issued: Option<u64> = None;
        for _ in 0..len {
            let dbid = 1 + rng.below(4);
            let before_fp = fingerprint_full(&sys.node);
            // on the transactional store: a transaction left open by the previous request goes on
            let joined = sys.in_txn;
            sys.txn_begin();
            let before_store = sys.world.dump();
            let node = sys.node.clone();
            let cid = sys.cid(dbid);
            let peer = sys.peer;
            // (no restart in the middle of a transaction)
            let mut choice = rng.below(if joined { 18 } else { 20 });
            if sys.testnet && (11..=14).contains(&choice) {
                // regtest addresses do not parse on Testnet: these draws connect a block instead
                // (at most three: stubs are pruned six blocks after their creation)
                // (the first block stays: a tracker at height 0 is moved to the checkpoint by a restart)
                choice = if sys.undo.len() >= 2 && rng.chance(1, 3) { 101 } else if sys.blocks < 3 { 100 } else { 10 };
            } else if !sys.testnet && (choice == 10 || choice == 17) && rng.chance(1, 2) {
                // Regtest: blocks come and go too
                choice = if !sys.undo.is_empty() && rng.chance(1, 2) { 101 } else { 100 };
            }
            // a set-up channel whose funding (or the spend of it) is not in the chain yet draws blocks
            let pending_chain = (1..=4u64).any(|d| {
                let k = sys.slot_kind(d);
                (k == "SReady" || k == "SForgot") && (!sys.in_chain(20 + d) || !sys.in_chain(10 + d))
            });
            if pending_chain && (!sys.testnet || sys.blocks < 3) && rng.chance(1, 4) {
                choice = 100;
            }
            let mut restarted = false;
            let (coq, j, res): (String, serde_json::Value, Result<bool, ()>) = match choice {
                0..=3 if rng.chance(1, 2) => {
                    // as the protocol message to the node-level handler
                    use vls_protocol::msgs::{self, SerBolt};
                    use vls_protocol_signer::handler::Handler;
                    let r = catch_unwind(AssertUnwindSafe(|| {
                        let root = make_root_handler(&node, 6);
                        let m = msgs::NewChannel { peer_id: vls_protocol::model::PubKey(peer), dbid };
                        root.handle(msgs::from_vec(m.as_vec()).expect("request survives the wire")).is_ok()
                    }));
                    (format!("NewChannel {}", dbid), json!(["new_channel_msg", dbid]), r.map_err(|_| ()))
                }
                0..=3 => {
                    let r = catch_unwind(AssertUnwindSafe(|| node.new_channel(dbid, &peer, &node).is_ok()));
                    (format!("NewChannel {}", dbid), json!(["new_channel", dbid]), r.map_err(|_| ()))
                }
                4..=6 if rng.chance(1, 4) => {
                    // a setup that policy refuses (contest delay below the minimum), whatever the slot is:
                    // for the model just a refused request
                    let mut setup = make_test_channel_setup();
                    setup.funding_outpoint = lightning_signer::bitcoin::OutPoint { txid: Sys::funding_tx(dbid).compute_txid(), vout: dbid as u32 };
                    if rng.chance(1, 2) {
                        setup.holder_selected_contest_delay = 2;
                    } else {
                        setup.counterparty_selected_contest_delay = 3000;
                    }
                    // half of them as the SetupChannel message to the channel handler of (peer, dbid),
                    // whether or not the node has such a slot
                    let wire = rng.chance(1, 2);
                    let r = catch_unwind(AssertUnwindSafe(|| {
                        if wire {
                            setup_channel_via_handler(&node, 6, peer, dbid, &setup)
                        } else {
                            node.setup_channel(cid.clone(), None, setup, &DerivationPath::master()).is_ok()
                        }
                    }));
                    (format!("ChannelRequest {}", dbid), json!([if wire { "setup_channel_msg_refused_by_policy" } else { "setup_channel_refused_by_policy" }, dbid]), r.map_err(|_| ()))
                }
                4..=6 => {
                    let mut setup = make_test_channel_setup();
                    setup.funding_outpoint = lightning_signer::bitcoin::OutPoint { txid: Sys::funding_tx(dbid).compute_txid(), vout: dbid as u32 };
                    // a third of the channels get a permanent id that differs from the temporary one
                    let perm = if dbid % 3 == 0 || rng.chance(1, 4) {
                        let mut b = vec![0xaau8; 32];
                        b[0] = dbid as u8;
                        Some(ChannelId::new(&b))
                    } else {
                        None
                    };
                    // a message cannot carry a permanent id: those set-ups go to the node directly
                    let wire = perm.is_none() && rng.chance(1, 2);
                    let r = catch_unwind(AssertUnwindSafe(|| {
                        if wire {
                            setup_channel_via_handler(&node, 6, peer, dbid, &setup)
                        } else {
                            node.setup_channel(cid.clone(), perm, setup, &DerivationPath::master()).is_ok()
                        }
                    }));
                    (format!("SetupChannel {}", dbid), json!([if wire { "setup_channel_msg" } else { "setup_channel" }, dbid]), r.map_err(|_| ()))
                }
                7..=9 if rng.chance(1, 2) => {
                    use vls_protocol::msgs::{self, SerBolt};
                    use vls_protocol_signer::handler::Handler;
                    let r = catch_unwind(AssertUnwindSafe(|| {
                        let root = make_root_handler(&node, 6);
                        let m = msgs::ForgetChannel { node_id: vls_protocol::model::PubKey(peer), dbid };
                        root.handle(msgs::from_vec(m.as_vec()).expect("request survives the wire")).is_ok()
                    }));
                    (format!("ForgetChannel {}", dbid), json!(["forget_channel_msg", dbid]), r.map_err(|_| ()))
                }
                7..=9 => {
                    let r = catch_unwind(AssertUnwindSafe(|| node.forget_channel(&cid).is_ok()));
                    (format!("ForgetChannel {}", dbid), json!(["forget_channel", dbid]), r.map_err(|_| ()))
                }
                100 => {
                    // a connected block changes nothing the node model tracks; what the monitors and
                    // the tracker's watch sets make of it is compared across a restart: some blocks
                    // carry the funding transaction of the channels, later ones the spend of a
                    // channel's funding output
                    // (a funding transaction confirms only after the signer was told about the channel)
                    let ready: Vec<u64> = (1..=4u64).filter(|d| sys.slot_kind(*d) == "SReady" || sys.slot_kind(*d) == "SForgot").collect();
                    let unfunded: Vec<u64> = ready.iter().copied().filter(|d| !sys.in_chain(20 + d)).collect();
                    let open: Vec<u64> = ready.iter().copied().filter(|d| sys.in_chain(20 + d) && !sys.in_chain(10 + d)).collect();
                    let what = if !unfunded.is_empty() && rng.chance(3, 4) {
                        20 + *rng.pick(&unfunded)
                    } else if !open.is_empty() && rng.chance(3, 4) {
                        10 + *rng.pick(&open)
                    } else {
                        0
                    };
                    let r = catch_unwind(AssertUnwindSafe(|| sys.add_block_with(what)));
                    ("Heartbeat".to_string(), json!(["add_block", sys.blocks, what]), r.map_err(|_| ()))
                }
                101 => {
                    let r = catch_unwind(AssertUnwindSafe(|| sys.remove_block()));
                    ("Heartbeat".to_string(), json!(["remove_block", sys.undo.len()]), r.map_err(|_| ()))
                }
                10 if rng.chance(1, 2) => {
                    use vls_protocol::msgs::{self, SerBolt};
                    use vls_protocol_signer::handler::Handler;
                    let r = catch_unwind(AssertUnwindSafe(|| {
                        let root = make_root_handler(&node, 6);
                        let m = msgs::GetHeartbeat {};
                        root.handle(msgs::from_vec(m.as_vec()).expect("request survives the wire")).is_ok()
                    }));
                    ("Heartbeat".to_string(), json!("heartbeat_msg"), r.map_err(|_| ()))
                }
                10 => {
                    let r = catch_unwind(AssertUnwindSafe(|| {
                        node.get_heartbeat();
                        true
                    }));
                    ("Heartbeat".to_string(), json!("heartbeat"), r.map_err(|_| ()))
                }
                11 | 12 => {
                    let k = rng.below(3) as usize;
                    let with_bad = rng.chance(1, 3);
                    let list: Vec<String> = if with_bad {
                        if rng.chance(1, 2) { vec![ADDRS[k].to_string(), BAD_ADDR.to_string()] } else { vec![BAD_ADDR.to_string(), ADDRS[k].to_string()] }
                    } else {
                        vec![ADDRS[k].to_string()]
                    };
                    let r = catch_unwind(AssertUnwindSafe(|| node.add_allowlist(&list).is_ok()));
                    (format!("AddAllow {} {}", k, coq_bool(!with_bad)), json!(["add_allowlist", list]), r.map_err(|_| ()))
                }
                13 => {
                    let k = rng.below(3) as usize;
                    let with_bad = rng.chance(1, 3);
                    // a valid address that is never added: removing it is a no-op, wherever it
                    // stands in the request
                    let list: Vec<String> = if with_bad {
                        vec![ADDRS[k].to_string(), BAD_ADDR.to_string()]
                    } else {
                        match rng.below(3) {
                            0 => vec![ADDRS[k].to_string(), NEVER_ADDED.to_string()],
                            1 => vec![NEVER_ADDED.to_string(), ADDRS[k].to_string()],
                            _ => vec![ADDRS[k].to_string()],
                        }
                    };
                    let r = catch_unwind(AssertUnwindSafe(|| node.remove_allowlist(&list).is_ok()));
                    (format!("RemoveAllow {} {}", k, coq_bool(!with_bad)), json!(["remove_allowlist", list]), r.map_err(|_| ()))
                }
                14 => {
                    // k = 3: the replacement list is empty (the operator clears the allowlist)
                    let k = rng.below(4) as usize;
                    let with_bad = rng.chance(1, 3);
                    let mut list: Vec<String> = if k < 3 { vec![ADDRS[k].to_string()] } else { vec![] };
                    if with_bad {
                        list.push(BAD_ADDR.to_string());
                    }
                    let r = catch_unwind(AssertUnwindSafe(|| node.set_allowlist(&list).is_ok()));
                    (format!("SetAllow {} {}", k, coq_bool(!with_bad)), json!(["set_allowlist", list]), r.map_err(|_| ()))
                }
                16 | 17 if choice == 16 || rng.chance(1, 2) => {
                    // the node issues an invoice (SignInvoice): hash 1..5, a few amounts, everything else
                    // fixed, so that the same (hash, amount) is the same invoice
                    // mostly a hash that already has an issued invoice (the same invoice again, or another one)
                    let h = match last_issued {
                        Some(h0) if rng.chance(2, 3) => h0,
                        _ => 1 + rng.below(5),
                    };
                    last_issued = Some(h);
                    let a = *rng.pick(&[0u64, 1_000, 1_000, 100_000]);
                    let raw = make_raw_bolt11(issued_hash(h), a, 1_000);
                    let r = catch_unwind(AssertUnwindSafe(|| node.sign_bolt11_invoice(raw).is_ok()));
                    (format!("IssueInvoice {} {}", h, a), json!(["sign_invoice", h, a]), r.map_err(|_| ()))
                }
                15 => {
                    hash_ctr += 1;
                    let mut h = [0u8; 32];
                    h[0] = hash_ctr;
                    let payee = PublicKey::from_slice(&peer).unwrap();
                    let r = catch_unwind(AssertUnwindSafe(|| node.add_keysend(payee, PaymentHash(h), 1000).unwrap_or(false)));
                    ("AddInvoice".to_string(), json!(["add_keysend", hash_ctr]), r.map_err(|_| ()))
                }
                17 => {
                    // a channel request on whatever the slot is
                    let r = catch_unwind(AssertUnwindSafe(|| {
                        node.with_channel(&cid, |c| c.revoke_previous_holder_commitment(1)).is_ok()
                    }));
                    (format!("ChannelRequest {}", dbid), json!(["channel_request", dbid]), r.map_err(|_| ()))
                }
                _ => {
                    if sys.world.cloud.is_some() {
                        // the restart request itself is outside any transaction
                        let p = sys.world.dyn_persister();
                        let _ = p.prepare();
                        p.commit().expect("commit");
                        sys.in_txn = false;
                    }
                    let cloud = sys.world.cloud.is_some();
                    // half of the restarts the way the daemon starts: HandlerBuilder::build with its
                    // configured initial allowlist ("only used if node is new")
                    let via_builder = !cloud && rng.chance(1, 2);
                    match catch_unwind(AssertUnwindSafe(|| {
                        if cloud {
                            sys.cloud_restart()
                        } else if via_builder {
                            use vls_protocol_signer::handler::HandlerBuilder;
                            let b = HandlerBuilder::new(sys.world.config.network, 0, sys.world.services(), sys.world.seed)
                                .allowlist(vec![ADDRS[0].to_string(), ADDRS[2].to_string()]);
                            b.build().expect("HandlerBuilder::build").node().clone()
                        } else {
                            sys.world.restart(&sys.node_id)
                        }
                    })) {
                        Ok(n) => {
                            sys.node = n;
                            // what the restored tracker holds decides which blocks can still be disconnected
                            let h = sys.node.get_tracker().height() as usize;
                            let base = if sys.testnet { 0 } else { 0 };
                            let _ = base;
                            if sys.undo.len() > h {
                                sys.undo.truncate(h);
                            }
                            restarted = true;
                            ("NRestart".to_string(), json!("restart"), Ok(true))
                        }
                        Err(_) => {
                            c11.push("the signer cannot be restored from its store (restore panics)".to_string());
                            ("NRestart".to_string(), json!("restart"), Err(()))
                        }
                    }
                }
            };
            let kind = coq.split(' ').next().unwrap().to_string();
            let e = kinds.entry(kind).or_insert((0, 0));
            let ok = match res {
                Ok(b) => b,
                Err(()) => {
                    c10.push(format!("request {} panicked", coq));
                    ops.push(coq);
                    obs.push("(false, ([], 0, [], 0, []))".to_string());
                    jops.push(json!({"op": j, "st": "Abort"}));
                    break;
                }
            };
            if ok { e.0 += 1 } else { e.1 += 1 }
            // ---- C10
            if !ok && !restarted {
                let mut d = fingerprint_diff(&before_fp, &fingerprint_full(&sys.node));
                d.extend(store_diff(&before_store, &sys.world.dump()));
                if !d.is_empty() {
                    c10.push(format!("refused {} changed: {}", coq, d.join("; ")));
                }
            }
            // ---- the transactional store: end of the transaction, with the crash points around it
            if sys.in_txn {
                sys.txn_ops += 1;
                sys.txn_all_refused &= !ok;
                if !(sys.txn_ops < 3 && rng.chance(1, 4)) {
                    let what = if sys.txn_ops == 1 { format!("{} ({})", coq, if ok { "Ok" } else { "Err" }) } else { format!("a transaction of {} requests ending with {}", sys.txn_ops, coq) };
                    let (a, b) = sys.txn_end(&what);
                    c10.extend(a);
                    c11.extend(b);
                }
            }
            // ---- C11
            if sys.world.cloud.is_none() {
                let node_now = sys.node.clone();
                match catch_unwind(AssertUnwindSafe(|| {
                    let shadow = sys.world.restart(&sys.node_id);
                    fingerprint_diff(&fingerprint(&node_now), &fingerprint(&shadow))
                })) {
                    Ok(d) => {
                        if !d.is_empty() {
                            c11.push(format!("after {} ({}) a restart would differ: {}", coq, if ok { "Ok" } else { "Err" }, d.join("; ")));
                        }
                    }
                    Err(_) => c11.push(format!("after {} ({}) the signer cannot be restored from its store (restore panics)", coq, if ok { "Ok" } else { "Err" })),
                }
            }
            ops.push(coq);
            obs.push(format!("({}, {})", coq_bool(ok), observe(&sys)));
            jops.push(json!({"op": j, "st": if ok { "Ok" } else { "Refused" }}));
        }
        if sys.in_txn && !c10.iter().any(|v| v.ends_with("panicked")) {
            let (a, b) = sys.txn_end("the last transaction of the history");
            c10.extend(a);
            c11.extend(b);
        }
        if sys.world.cloud.is_some() {
            n_cloud += 1;
            n_txn += sys.n_txn;
            n_txn_multi += sys.n_txn_multi;
        }
        n_c10 += c10.len() as u64;
        n_c11 += c11.len() as u64;
        let coq = format!("({}, {})", coq_list(&ops), coq_list(&obs));
        emit("CASE", json!({"id": case, "ops": jops, "c10_violations": c10, "c11_violations": c11, "coq": coq}));
    }
    let kj: serde_json::Map<String, serde_json::Value> =
        kinds.into_iter().map(|(k, (a, b))| (k, json!({"ok": a, "refused": b}))).collect();
    emit("STATS", json!({"kind": "nodeops", "ops": kj, "c10_violations": n_c10, "c11_violations": n_c11,
        "cases_on_transactional_store": n_cloud, "transactions": n_txn, "transactions_of_several_requests": n_txn_multi}));
}

fn main() {
    let argv: Vec<String> = std::env::args().collect();
    let args = parse_args(&argv[2..]);
    match argv[1].as_str() {
        "run" => run(&args),
        other => panic!("unknown sub-domain {}", other),
    }
}
