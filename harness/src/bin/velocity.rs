//! Domain `velocity` (C12): the bare VelocityControl against the Gallina model, and the
//! node-level approve / restart histories with a sliding-window monitor.
use vharness::*;
use lightning_signer::bitcoin::secp256k1::{PublicKey, Secp256k1, SecretKey};
use lightning_signer::lightning::types::payment::PaymentHash;
use lightning_signer::persist::Persist;
use lightning_signer::signer::derive::KeyDerivationStyle;
use lightning_signer::util::velocity::{
    VelocityControl, VelocityControlIntervalType, VelocityControlSpec,
};
use serde_json::json;
use std::time::Duration;

const U64MAX: u64 = u64::MAX;

fn gen_amount(rng: &mut Rng, limit: u64) -> u64 {
    match rng.below(10) {
        0 => 0,
        1 => limit,
        2 => limit.saturating_add(1),
        3 => limit / 2,
        4 => limit / 2 + 1,
        5 => U64MAX,
        6 => U64MAX - 1,
        7 => 1,
        _ => {
            let m = (limit / 3).max(2);
            rng.below(m) + 1
        }
    }
}

/// bare struct: traces of (ok, start, buckets)
pub fn bare(args: &Args) {
    let mut rng = Rng::new(args.seed);
    let mut n_ok = 0u64;
    let mut n_ref = 0u64;
    let mut n_sat = 0u64;
    for case in 0..args.n {
        let nb = *rng.pick(&[1usize, 2, 3, 4, 12, 24]);
        let interval = *rng.pick(&[1u32, 2, 3, 10, 300, 3600]);
        let limit = *rng.pick(&[0u64, 1, 5, 100, 1_000_000, 1u64 << 40, U64MAX - 1, U64MAX]);
        let mut c = if limit == U64MAX {
            VelocityControl::new_unlimited(interval, nb)
        } else {
            VelocityControl::new_with_intervals(limit, interval, nb)
        };
        let len = 1 + rng.below(14) as usize;
        let mut now = if rng.chance(1, 4) { rng.below(1 << 40) } else { rng.below(100) };
        let mut ops = vec![];
        let mut obs = vec![];
        let mut jops = vec![];
        for _ in 0..len {
            let gap = match rng.below(8) {
                0 | 1 => 0,
                2 => interval as u64 - 1,
                3 => interval as u64,
                4 => interval as u64 * (nb as u64 - 1),
                5 => interval as u64 * nb as u64,
                6 => interval as u64 * nb as u64 + 1,
                _ => rng.below(interval as u64 * 2 + 1),
            };
            now = now.saturating_add(gap);
            let amt = gen_amount(&mut rng, limit);
            let ok = c.insert(now, amt);
            if ok {
                n_ok += 1
            } else {
                n_ref += 1
            }
            if c.buckets.iter().any(|b| *b == U64MAX) {
                n_sat += 1
            }
            ops.push(format!("({}, {})", now, amt));
            obs.push(format!("({}, {}, {})", coq_bool(ok), c.start_sec, coq_nlist(&c.buckets)));
            jops.push(json!([now, amt, ok]));
        }
        let coq = format!(
            "(({}%nat, {}, {}), {}, {})",
            nb,
            interval,
            limit,
            coq_list(&ops),
            coq_list(&obs)
        );
        emit("CASE", json!({"id": case, "kind": "bare", "nb": nb, "interval": interval, "limit": limit.to_string(), "ops": jops, "coq": coq}));
    }
    emit("STATS", json!({"kind": "bare", "approved": n_ok, "refused": n_ref, "steps_with_saturated_bucket": n_sat}));
}

fn payee() -> PublicKey {
    let secp = Secp256k1::new();
    PublicKey::from_secret_key(&secp, &SecretKey::from_slice(&[3u8; 32]).unwrap())
}

fn vc_obs(c: &VelocityControl) -> String {
    format!("({}, {}, {}, {})", c.start_sec, c.bucket_interval, coq_nlist(&c.buckets), c.limit)
}

/// sliding-window monitor: the property itself, checked on the implementation's answers
fn window_violation(log: &[(u64, u64)], limit: u64, interval: u64, nb: u64) -> Option<(u64, u64, u128)> {
    let len = interval * (nb - 1);
    if len == 0 {
        return None;
    }
    // it suffices to start windows at approval times
    for (i, (t0, _)) in log.iter().enumerate() {
        let mut sum: u128 = 0;
        for (t, a) in &log[i..] {
            if *t >= *t0 && (*t as u128) < *t0 as u128 + len as u128 {
                sum += *a as u128;
            }
        }
        if sum > limit as u128 {
            return Some((*t0, len, sum));
        }
    }
    None
}

/// node-level: add_keysend (payment control) and check_onchain_tx (fee control) approvals with a
/// manual clock, restarts in between.  Each history is projected onto each control: an approval on
/// the other control is a `Persist` of this one (the node entry holds both).
pub fn node(args: &Args) {
    use lightning_signer::bitcoin::absolute::LockTime;
    use lightning_signer::bitcoin::bip32::DerivationPath;
    use lightning_signer::bitcoin::hashes::Hash;
    use lightning_signer::bitcoin::transaction::Version;
    use lightning_signer::bitcoin::{Amount, OutPoint, ScriptBuf, Sequence, Transaction, TxIn, TxOut, Txid, Witness};
    let mut rng = Rng::new(args.seed ^ 0x55aa);
    let mut n_restart = 0u64;
    let (mut n_heartbeat, mut n_heartbeat_pruned) = (0u64, 0u64);
    let mut n_ok = 0u64;
    let mut n_ref = 0u64;
    let mut n_fee_ok = 0u64;
    let mut n_fee_ref = 0u64;
    let mut monitor_failures = 0u64;
    let specs = [
        (VelocityControlIntervalType::Hourly, "Hourly", 300u64, 12u64),
        (VelocityControlIntervalType::Daily, "Daily", 3600u64, 24u64),
    ];
    for case in 0..args.n {
        let (p_it, p_name, p_ivl, p_nb) = specs[rng.below(2) as usize];
        let (f_it, f_name, f_ivl, f_nb) = specs[rng.below(2) as usize];
        // (a limit of 0 refuses every non-zero amount: it is a limit, not "unlimited")
        let p_limit = *rng.pick(&[1_000u64, 1_000_000, 5_000_000_000, 1_000_000, 0]);
        let f_limit = *rng.pick(&[10_000_000u64, 50_000_000, 1_000_000_000, 50_000_000, 0]);
        let mut policy = World::default_policy();
        policy.global_velocity_control = VelocityControlSpec { limit_msat: p_limit, interval_type: p_it };
        policy.fee_velocity_control = VelocityControlSpec { limit_msat: f_limit, interval_type: f_it };
        policy.max_feerate_per_kw = 4_000_000_000;
        // one case in four under a filter whose strict rule shadows the permissive one: nothing is downgraded
        if case % 4 == 3 {
            policy.filter = shadowed_permissive_filter();
        }
        let mut seed = [0u8; 32];
        seed[0] = (case % 251) as u8;
        let mut world = World::new(policy, seed, KeyDerivationStyle::Native);
        // every second case under the on-chain validator (what the daemon runs): it wraps the simple one and must
        // enforce the CONFIGURED limits of both velocity controls
        world.onchain = case % 2 == 1;
        let mut node = world.new_node();
        // one case in three: the operator has allowlisted the payees (the keysend destination and the
        // key the BOLT11 invoices are signed with); the velocity control counts their approvals all the same
        let payees_allowlisted = case % 3 == 1;
        if payees_allowlisted {
            let secp = Secp256k1::new();
            let inv_payee = PublicKey::from_secret_key(&secp, &SecretKey::from_slice(&[42u8; 32]).unwrap());
            node.add_allowlist(&vec![format!("payee:{}", payee()), format!("payee:{}", inv_payee)]).expect("allowlist payees");
        }
        let node_id = node.get_id();
        let len = 2 + rng.below(12) as usize;
        let mut now = rng.below(1_000_000);
        let (mut p_ops, mut p_obs, mut f_ops, mut f_obs) = (vec![], vec![], vec![], vec![]);
        let mut jops = vec![];
        let mut p_log: Vec<(u64, u64)> = vec![];
        let mut f_log: Vec<(u64, u64)> = vec![];
        let mut hash_ctr = 0u8;
        let mut last_refused: Option<(u8, u64)> = None;
        let mut last_route = 0u8;
        let mut last_invoice_time = 0u64;
        let mut last_invoice: Option<lightning_signer::invoice::Invoice> = None;
        let snapshot = |node: &std::sync::Arc<lightning_signer::node::Node>| {
            let st = node.get_state();
            let (pm, fm) = (st.velocity_control.clone(), st.fee_velocity_control.clone());
            drop(st);
            let nodes = world.persister.get_nodes().expect("get_nodes");
            let e = nodes.into_iter().find(|(id, _)| *id == node_id).unwrap().1;
            (pm, fm, e.state.velocity_control, e.state.fee_velocity_control)
        };
        // "burst" histories: an approval that uses most of the limit, a bucket boundary, a run of
        // refused requests at one instant, then a request that fits only if the refusals aged
        // the record
        let mut plan: std::collections::VecDeque<(bool, u64, u64)> = Default::default();
        if rng.chance(1, 4) {
            let fee = rng.chance(1, 3);
            let (ivl, nb, limit) = if fee { (f_ivl, f_nb, f_limit) } else { (p_ivl, p_nb, p_limit) };
            let unit = if fee { 1000 } else { 1 };
            let big = (limit - limit / 10) / unit * unit;
            plan.push_back((fee, 0, big.max(unit)));
            let first_gap = *rng.pick(&[ivl, ivl + 1, 2 * ivl, ivl - now % ivl]);
            let k = 1 + rng.below(nb + 2);
            for j in 0..k {
                plan.push_back((fee, if j == 0 { first_gap } else { 0 }, (limit / 5 / unit * unit).max(unit)));
            }
            plan.push_back((fee, 0, (limit / 5 / unit * unit).max(unit)));
            plan.push_back((fee, *rng.pick(&[0, 1, ivl]), (limit / 2 / unit * unit).max(unit)));
        }
        let len = len.max(plan.len());
        for _ in 0..len {
            let forced = plan.pop_front();
            let choice = match forced {
                Some((true, _, _)) => 6,
                Some((false, _, _)) => 2,
                None => rng.below(10),
            };
            if choice == 9 {
                // a heartbeat (it prunes approvals that have run out: a keysend a minute after it was approved,
                // an invoice a day after its expiry), sometimes after a pause that lets some run out; what
                // was counted stays counted.  The node entry is written iff something was pruned.
                let gap = *rng.pick(&[0u64, 61, 61, 3_700, 90_000]);
                now += gap;
                world.clock.set(Duration::from_secs(now));
                let before = store_dump(&world.persister);
                let _ = node.get_heartbeat();
                let wrote = before != store_dump(&world.persister);
                n_heartbeat += 1;
                jops.push(json!(["heartbeat", now, wrote]));
                if wrote {
                    // right after approvals were pruned: requests that fit only if the pruning gave budget back
                    if plan.is_empty() && p_limit >= 4 {
                        plan.push_back((false, 0, p_limit / 2 + 1));
                        plan.push_back((false, 1, p_limit / 2 + 1));
                    }
                    n_heartbeat_pruned += 1;
                    let (pm, fm, pd, fd) = snapshot(&node);
                    p_ops.push("Persist".to_string());
                    p_obs.push(format!("(false, {}, {})", vc_obs(&pm), vc_obs(&pd)));
                    f_ops.push("Persist".to_string());
                    f_obs.push(format!("(false, {}, {})", vc_obs(&fm), vc_obs(&fd)));
                }
                continue;
            }
            if choice < 2 {
                node = world.restart(&node_id);
                n_restart += 1;
                jops.push(json!("restart"));
                let (pm, fm, pd, fd) = snapshot(&node);
                p_ops.push("Restart".to_string());
                p_obs.push(format!("(false, {}, {})", vc_obs(&pm), vc_obs(&pd)));
                f_ops.push("Restart".to_string());
                f_obs.push(format!("(false, {}, {})", vc_obs(&fm), vc_obs(&fd)));
                continue;
            }
            let fee = choice >= 6;
            let (ivl, nb, limit) = if fee { (f_ivl, f_nb, f_limit) } else { (p_ivl, p_nb, p_limit) };
            let gap = match rng.below(8) {
                0 | 1 | 2 => 0,
                3 => ivl - 1,
                4 => ivl,
                5 => ivl * (nb - 1),
                6 => ivl * nb,
                _ => rng.below(ivl * 2),
            };
            let gap = forced.map(|f| f.1).unwrap_or(gap);
            now += gap;
            world.clock.set(Duration::from_secs(now));
            if fee {
                // one input worth `sat`, no outputs: the whole value is non-beneficial
                let lim_sat = limit / 1000;
                let sat = match rng.below(6) {
                    0 => lim_sat,
                    1 => lim_sat + 1,
                    2 => lim_sat / 2 + 1,
                    3 => 1,
                    _ => rng.below(lim_sat / 2) + 1,
                };
                let sat = forced.map(|f| f.2 / 1000).unwrap_or(sat);
                let tx = Transaction {
                    version: Version::TWO,
                    lock_time: LockTime::ZERO,
                    input: vec![TxIn {
                        previous_output: OutPoint { txid: Txid::all_zeros(), vout: 0 },
                        script_sig: ScriptBuf::new(),
                        sequence: Sequence::ZERO,
                        witness: Witness::default(),
                    }],
                    output: vec![],
                };
                let txo = TxOut { value: Amount::from_sat(sat), script_pubkey: ScriptBuf::new() };
                // an approval = check followed by signing, as in the SignWithdrawal handler
                let r = node
                    .check_onchain_tx(&tx, &vec![], &[txo.clone()], &[None], &[DerivationPath::master()])
                    .map(|()| {
                        node.unchecked_sign_onchain_tx(&tx, &[DerivationPath::master()], &[txo.clone()], vec![None])
                            .expect("unchecked_sign_onchain_tx");
                    });
                let ok = match &r {
                    Ok(()) => true,
                    Err(e) => {
                        let msg = format!("{:?}", e);
                        if !msg.contains("fee velocity would be exceeded") {
                            panic!("unexpected check_onchain_tx error: {}", msg);
                        }
                        false
                    }
                };
                let amt = sat * 1000;
                if ok {
                    n_fee_ok += 1;
                    f_log.push((now, amt));
                } else {
                    n_fee_ref += 1;
                }
                jops.push(json!(["approve_fee", now, amt, ok]));
                let (pm, fm, pd, fd) = snapshot(&node);
                f_ops.push(format!("Approve {} {}", now, amt));
                f_obs.push(format!("({}, {}, {})", coq_bool(ok), vc_obs(&fm), vc_obs(&fd)));
                if ok {
                    p_ops.push("Persist".to_string());
                    p_obs.push(format!("(false, {}, {})", vc_obs(&pm), vc_obs(&pd)));
                }
            } else {
                let amt = match rng.below(6) {
                    0 => limit,
                    1 => limit + 1,
                    2 => limit / 2 + 1,
                    3 => 1,
                    _ => rng.below(limit / 2) + 1,
                };
                let amt = forced.map(|f| f.2).unwrap_or(amt);
                // a refused request is sometimes sent again unchanged (same hash, same amount): it
                // must be judged afresh, an earlier refusal leaves nothing behind
                // (a BOLT11 invoice is only presented again while it is far from expiring)
                let retry = forced.is_none()
                    && last_refused.is_some()
                    && rng.chance(1, 2)
                    && !(last_route >= 2 && now > last_invoice_time + 1800);
                let amt = if retry { last_refused.unwrap().1 } else { amt };
                if !retry {
                    hash_ctr += 1;
                }
                let mut h = [0u8; 32];
                h[0] = if retry { last_refused.unwrap().0 } else { hash_ctr };
                h[1] = (case & 0xff) as u8;
                // the approval arrives as a keysend or as a BOLT11 invoice, through the Node call or
                // as the protocol message to a RootHandler with an approving approver; a retry
                // repeats the very same request
                let route = if retry { last_route } else { rng.below(4) as u8 };
                last_route = route;
                let ok = {
                    use vls_protocol::msgs::{self, Message, SerBolt};
                    use vls_protocol_signer::handler::Handler;
                    match route {
                        0 => node.add_keysend(payee(), PaymentHash(h), amt).expect("add_keysend"),
                        1 => {
                            let root = make_root_handler(&node, 6);
                            let m = msgs::PreapproveKeysend {
                                destination: vls_protocol::model::PubKey(payee().serialize()),
                                payment_hash: vls_protocol::model::Sha256(h),
                                amount_msat: amt,
                            };
                            let msg = msgs::from_vec(m.as_vec()).expect("request survives the wire");
                            match root.handle(msg).map(|rep| msgs::from_vec(rep.as_vec())) {
                                Ok(Ok(Message::PreapproveKeysendReply(rep))) => rep.result,
                                other => panic!("unexpected PreapproveKeysend outcome: {:?}", other.is_ok()),
                            }
                        }
                        _ => {
                            if !retry || last_invoice.is_none() {
                                last_invoice = Some(make_bolt11(h, amt, now));
                                last_invoice_time = now;
                            }
                            let inv = last_invoice.clone().unwrap();
                            if route == 2 {
                                node.add_invoice(inv).expect("add_invoice")
                            } else {
                                let root = make_root_handler(&node, 6);
                                let s = match &inv {
                                    lightning_signer::invoice::Invoice::Bolt11(b) => b.to_string(),
                                    _ => unreachable!(),
                                };
                                let m = msgs::PreapproveInvoice { invstring: vls_protocol::serde_bolt::WireString(s.into_bytes()) };
                                let msg = msgs::from_vec(m.as_vec()).expect("request survives the wire");
                                match root.handle(msg).map(|rep| msgs::from_vec(rep.as_vec())) {
                                    Ok(Ok(Message::PreapproveInvoiceReply(rep))) => rep.result,
                                    Err(e) => panic!("unexpected PreapproveInvoice error: {:?} (amount {} msat at {})", e, amt, now),
                                    _ => panic!("unexpected PreapproveInvoice reply"),
                                }
                            }
                        }
                    }
                };
                last_refused = if ok { None } else { Some((h[0], amt)) };
                if ok {
                    n_ok += 1;
                    p_log.push((now, amt));
                } else {
                    n_ref += 1;
                }
                jops.push(json!(["approve_pay", now, amt, ok]));
                let (pm, fm, pd, fd) = snapshot(&node);
                p_ops.push(format!("Approve {} {}", now, amt));
                p_obs.push(format!("({}, {}, {})", coq_bool(ok), vc_obs(&pm), vc_obs(&pd)));
                if ok {
                    f_ops.push("Persist".to_string());
                    f_obs.push(format!("(false, {}, {})", vc_obs(&fm), vc_obs(&fd)));
                }
            }
        }
        let p_viol = window_violation(&p_log, p_limit, p_ivl, p_nb);
        let f_viol = window_violation(&f_log, f_limit, f_ivl, f_nb);
        if p_viol.is_some() || f_viol.is_some() {
            monitor_failures += 1;
        }
        let viol_json = |v: Option<(u64, u64, u128)>| {
            v.map(|(t0, len, sum)| json!({"window_start": t0, "window_len": len, "approved_sum": sum.to_string()}))
        };
        let coq_p = format!("(({}, {}), {}, {})", p_name, p_limit, coq_list(&p_ops), coq_list(&p_obs));
        let coq_f = format!("(({}, {}), {}, {})", f_name, f_limit, coq_list(&f_ops), coq_list(&f_obs));
        emit(
            "CASE",
            json!({"id": case, "kind": "node", "validator": if world.onchain { "onchain" } else { "simple" }, "payees_allowlisted": payees_allowlisted, "pay_spec": [p_name, p_limit], "fee_spec": [f_name, f_limit], "ops": jops,
                   "monitor_violation_pay": viol_json(p_viol), "monitor_violation_fee": viol_json(f_viol),
                   "coq_pay": coq_p, "coq_fee": coq_f}),
        );
    }
    emit("STATS", json!({"kind": "node", "heartbeats": n_heartbeat, "heartbeats_that_pruned": n_heartbeat_pruned, "pay_approved": n_ok, "pay_refused": n_ref, "fee_approved": n_fee_ok,
        "fee_refused": n_fee_ref, "restarts": n_restart, "monitor_failures": monitor_failures}));
}

/// the delegate of a VelocityApprover: "the user".  In blocking mode a prompt waits for the answer
/// the harness gives (at most two seconds), otherwise it is declined at once.
struct PromptShared {
    block: std::sync::atomic::AtomicBool,
    prompts: std::sync::atomic::AtomicU64,
    called: std::sync::Mutex<std::sync::mpsc::Sender<()>>,
    answer: std::sync::Mutex<std::sync::mpsc::Receiver<bool>>,
}
struct PromptDelegate(std::sync::Arc<PromptShared>);

impl lightning_signer::SendSync for PromptDelegate {}

impl PromptDelegate {
    fn prompt(&self) -> bool {
        use std::sync::atomic::Ordering::SeqCst;
        self.0.prompts.fetch_add(1, SeqCst);
        if !self.0.block.load(SeqCst) {
            return false;
        }
        let _ = self.0.called.lock().unwrap().send(());
        self.0.answer.lock().unwrap().recv_timeout(Duration::from_secs(2)).unwrap_or(false)
    }
}

impl vls_protocol_signer::approver::Approve for PromptDelegate {
    fn approve_invoice(&self, _invoice: &lightning_signer::invoice::Invoice) -> bool {
        self.prompt()
    }
    fn approve_keysend(&self, _payment_hash: PaymentHash, _amount_msat: u64) -> bool {
        self.prompt()
    }
    fn approve_onchain(
        &self,
        _tx: &lightning_signer::bitcoin::Transaction,
        _prev_outs: &[lightning_signer::bitcoin::TxOut],
        _unknown_indices: &[usize],
    ) -> bool {
        self.prompt()
    }
}

/// VelocityApprover (vls-protocol-signer/src/approver.rs): approvals below its limit go through
/// without asking, the rest are put to the delegate.  Sequential histories against the sliding
/// window, and the one interleaving that matters: a request is waiting at the delegate while
/// another one arrives.  What went through WITHOUT a prompt must stay within the limit in every
/// window (an approval the user gave by hand clears the control and starts a new account).
pub fn approver(args: &Args) {
    use std::sync::atomic::Ordering::SeqCst;
    use std::sync::mpsc::channel;
    use std::sync::Arc;
    use vls_protocol_signer::approver::{Approve, VelocityApprover};
    let mut rng = Rng::new(args.seed ^ 0xa990);
    let (mut n_auto, mut n_prompted, mut n_overlap) = (0u64, 0u64, 0u64);
    for case in 0..args.n {
        let limit = *rng.pick(&[1_000_000u64, 5_000_000, 60_000_000]);
        let spec = VelocityControlSpec { limit_msat: limit, interval_type: VelocityControlIntervalType::Hourly };
        let clock = Arc::new(lightning_signer::util::clock::ManualClock::new(Duration::from_secs(1_000_000)));
        let (called_tx, called_rx) = channel::<()>();
        let (answer_tx, answer_rx) = channel::<bool>();
        let shared = Arc::new(PromptShared {
            block: Default::default(),
            prompts: Default::default(),
            called: std::sync::Mutex::new(called_tx),
            answer: std::sync::Mutex::new(answer_rx),
        });
        let app = Arc::new(VelocityApprover::new(clock.clone(), VelocityControl::new(spec), PromptDelegate(shared.clone())));
        let mut now = 1_000_000u64;
        // (time, amount) of what went through without a prompt since the last approval given by hand
        let mut auto_log: Vec<(u64, u64)> = vec![];
        let mut jops = vec![];
        let mut violation: Option<String> = None;
        let mut hctr = 0u8;
        let keysend = |app: &Arc<VelocityApprover<PromptDelegate>>, hctr: &mut u8, amt: u64| -> (bool, bool) {
            *hctr = hctr.wrapping_add(1);
            let before = shared.prompts.load(SeqCst);
            let ok = app.approve_keysend(PaymentHash([*hctr; 32]), amt);
            (ok, shared.prompts.load(SeqCst) > before)
        };
        let steps = 3 + rng.below(8);
        for step in 0..steps {
            now += *rng.pick(&[0u64, 1, 299, 300, 301, 900]);
            clock.set(Duration::from_secs(now));
            let overlap = step > 0 && rng.chance(1, 3);
            if !overlap {
                let amt = match rng.below(5) {
                    0 => limit / 2 + 1,
                    1 => limit / 3,
                    2 => limit,
                    _ => rng.below(limit / 2) + 1,
                };
                let (ok, prompted) = keysend(&app, &mut hctr, amt);
                if ok && !prompted {
                    auto_log.push((now, amt));
                    n_auto += 1;
                }
                if prompted {
                    n_prompted += 1;
                }
                jops.push(json!(["keysend", now, amt, ok, prompted]));
            } else {
                // a request that is over the limit waits at the delegate; a second request arrives meanwhile; the
                // user then declines the first
                n_overlap += 1;
                let counted: u64 = auto_log.iter().filter(|(t, _)| now < *t + 3300).map(|(_, a)| *a).sum();
                let big = limit.saturating_sub(counted) + 1 + rng.below(1000);
                let small = (limit.saturating_sub(counted) / 2).max(1);
                // nothing left over from an earlier pair
                while shared.answer.lock().unwrap().try_recv().is_ok() {}
                while called_rx.try_recv().is_ok() {}
                shared.block.store(true, SeqCst);
                let a1 = app.clone();
                let h1 = hctr.wrapping_add(1);
                let sh1 = shared.clone();
                let t1 = std::thread::spawn(move || {
                    let before = sh1.prompts.load(SeqCst);
                    let ok = a1.approve_keysend(PaymentHash([h1; 32]), big);
                    (ok, sh1.prompts.load(SeqCst) > before)
                });
                let reached = called_rx.recv_timeout(Duration::from_secs(2)).is_ok();
                let a2 = app.clone();
                let h2 = hctr.wrapping_add(2);
                hctr = hctr.wrapping_add(2);
                let (done_tx, done_rx) = channel::<bool>();
                let sh2 = shared.clone();
                let t2 = std::thread::spawn(move || {
                    let before = sh2.prompts.load(SeqCst);
                    let ok = a2.approve_keysend(PaymentHash([h2; 32]), small);
                    let prompted = sh2.prompts.load(SeqCst) > before;
                    let _ = done_tx.send(ok);
                    (ok, prompted)
                });
                // on a tree that holds the control across the prompt the second request waits here
                let early = done_rx.recv_timeout(Duration::from_millis(150)).ok();
                // prompts of the second request (if any) are declined at once from here on
                shared.block.store(false, SeqCst);
                let _ = answer_tx.send(false);
                let (ok1, prompted1) = t1.join().unwrap_or((false, true));
                if ok1 && !prompted1 {
                    // (it fitted after all: it went through without a prompt and counts)
                    auto_log.push((now, big));
                    n_auto += 1;
                }
                let (ok2, prompted2) = t2.join().unwrap_or((false, true));
                if ok2 && !prompted2 {
                    auto_log.push((now, small));
                    n_auto += 1;
                }
                jops.push(json!(["overlap", now, {"waiting_at_the_delegate": big, "reached_the_delegate": reached, "declined": !ok1,
                                  "meanwhile": small, "meanwhile_answered_before_the_decision": early.is_some(), "meanwhile_ok": ok2, "meanwhile_prompted": prompted2}]));
            }
            // the property itself on the harness's own record
            if let Some((t0, len, sum)) = window_violation(&auto_log, limit, 300, 12) {
                violation = Some(format!(
                    "approved without asking: {} msat within the window [{}, {}+{}), the limit is {} msat",
                    sum, t0, t0, len, limit
                ));
                break;
            }
        }
        emit("ACASE", json!({"id": case, "limit": limit, "ops": jops, "violation": violation}));
    }
    emit("STATS", json!({"kind": "approver", "approved_without_prompt": n_auto, "prompted": n_prompted, "overlapping_pairs": n_overlap}));
}

fn main() {
    let argv: Vec<String> = std::env::args().collect();
    let args = parse_args(&argv[2..]);
    match argv[1].as_str() {
        "bare" => bare(&args),
        "node" => node(&args),
        "approver" => approver(&args),
        other => panic!("unknown sub-domain {}", other),
    }
}
