//! Domain `keys` (C18): channel keys as a function of (seed, style, channel id).
//!
//! `hist`  — nodes from random seeds x styles {Native, Ldk}; a set of <= 4 channel ids created in
//!           every order, with restarts, setups, extra channels and observations in between.
//!           Monitor: every observation of the same (seed, style, id) agrees across all runs and
//!           observation points; different ids have different keys; point n = G * secret n.
//!           One Coq case per (seed, style, id): secret keys, keys_id, commitment seed and released
//!           secrets against Model/Keys.v evaluated over the Gallina SHA-256 / HKDF.
//! `adv`   — a real channel advanced through the protocol handler; every API that hands out a
//!           per-commitment point or secret, at every state and after restarts, against the
//!           derivation for the number asked (see below).
//! `ids`   — channels named by (peer id, dbid) with dbids at the boundaries of u64 (see below).
//! `store` — VLS's CounterpartyCommitmentSecrets against Model/Secrets.v on the same index
//!           sequences (descending, with gaps, wrong secrets, repeats, malformed), fed with the real
//!           released secrets of a real channel.  Monitor: after a descending feed every earlier
//!           secret is returned.
use lightning_signer::bitcoin::bip32::{ChildNumber, Xpriv};
use lightning_signer::bitcoin::hashes::Hash;
use lightning_signer::bitcoin::secp256k1::{PublicKey, Secp256k1, SecretKey};
use lightning_signer::bitcoin::{OutPoint, Txid};
use lightning_signer::channel::{ChannelBase, ChannelId, ChannelSetup, ChannelSlot, CommitmentType};
use lightning_signer::lightning::ln::chan_utils::build_commitment_secret;
use lightning_signer::lightning::sign::ChannelSigner;
use lightning_signer::node::Node;
use lightning_signer::policy::validator::CounterpartyCommitmentSecrets;
use lightning_signer::signer::derive::KeyDerivationStyle;
use lightning_signer::bitcoin::secp256k1::ecdsa::Signature;
use lightning_signer::bitcoin::BlockHash;
use lightning_signer::util::test_utils::key::make_test_counterparty_points;
use lightning_signer::util::test_utils::{
    build_tx_scripts, channel_commitment, counterparty_sign_holder_commitment, make_test_channel_setup, make_test_counterparty_keys,
    TestChannelContext, TestNodeContext,
};
use vls_protocol::model::{self, BitcoinSignature, PubKey};
use vls_protocol::msgs::{self, Message, SerBolt};
use vls_protocol::serde_bolt::Array;
use vls_protocol_signer::approver::PositiveApprover;
use vls_protocol_signer::handler::{ChannelHandler, Handler, InitHandler, RootHandler};
use serde_json::json;
use std::collections::BTreeMap;
use std::panic::{catch_unwind, AssertUnwindSafe};
use std::sync::Arc;
use vharness::*;

const INITIAL: u64 = (1 << 48) - 1;

fn hexs(b: &[u8]) -> String {
    hex::encode(b)
}
fn coq_bytes(b: &[u8]) -> String {
    coq_list(&b.iter().map(|x| x.to_string()).collect::<Vec<_>>())
}
/// the harness's own encoding of the channel a (peer id, dbid) pair names: peer_id(33) ++ dbid as
/// eight little-endian bytes (NOT ChannelId::new_from_peer_id_and_oid -- that is under test)
fn own_id(peer: &[u8; 33], dbid: u64) -> Vec<u8> {
    let mut v = peer.to_vec();
    for i in 0..8 {
        v.push(((dbid >> (8 * i)) & 0xff) as u8);
    }
    v
}
fn style_name(s: KeyDerivationStyle) -> &'static str {
    match s {
        KeyDerivationStyle::Native => "Native",
        KeyDerivationStyle::Ldk => "Ldk",
        KeyDerivationStyle::Lnd => "Lnd",
    }
}

/// what one channel shows of its keys at one moment
#[derive(Clone, Debug, PartialEq)]
struct Obs {
    /// funding_pubkey, revocation, payment, delayed_payment, htlc
    basepoints: Vec<String>,
    /// funding, revocation, htlc, payment, delayed, commitment_seed (secret material, hex)
    keys: Vec<String>,
    keys_id: String,
    points: BTreeMap<u64, String>,
    secrets: BTreeMap<u64, String>,
    /// slot kind: false = stub, true = ready channel
    ready: bool,
}

#[derive(Clone, Debug)]
enum Op {
    New(usize),
    Setup(usize),
    Restart,
    Random,
    Observe,
}
impl Op {
    fn name(&self) -> String {
        match self {
            Op::New(i) => format!("new:{}", i),
            Op::Setup(i) => format!("setup:{}", i),
            Op::Restart => "restart".into(),
            Op::Random => "random-channel".into(),
            Op::Observe => "observe".into(),
        }
    }
}

fn make_setup(k: usize, run: usize) -> ChannelSetup {
    let mut txid = [3u8; 32];
    txid[0] = k as u8;
    txid[1] = run as u8;
    ChannelSetup {
        is_outbound: true,
        channel_value_sat: 3_000_000,
        push_value_msat: 0,
        funding_outpoint: OutPoint { txid: Txid::from_slice(&txid).unwrap(), vout: k as u32 },
        holder_selected_contest_delay: 6,
        holder_shutdown_script: None,
        counterparty_points: make_test_counterparty_points(),
        counterparty_selected_contest_delay: 7,
        counterparty_shutdown_script: None,
        commitment_type: CommitmentType::StaticRemoteKey,
    }
}

/// read everything the property speaks about from the channel slot of `id`
fn observe(node: &Arc<Node>, id: &ChannelId, extra_secret_nums: &[u64], errs: &mut Vec<String>) -> Option<Obs> {
    let slot = node.get_channel(id).ok()?;
    let (keys, ready) = {
        let g = slot.lock().unwrap();
        match &*g {
            ChannelSlot::Stub(s) => (s.keys.clone(), false),
            ChannelSlot::Ready(c) => (c.keys.clone(), true),
        }
    };
    let pk = keys.pubkeys();
    let basepoints = vec![
        hexs(&pk.funding_pubkey.serialize()),
        hexs(&pk.revocation_basepoint.0.serialize()),
        hexs(&pk.payment_point.serialize()),
        hexs(&pk.delayed_payment_basepoint.0.serialize()),
        hexs(&pk.htlc_basepoint.0.serialize()),
    ];
    let via_api = node.with_channel_base(id, |b| Ok(b.get_channel_basepoints())).ok()?;
    if via_api != *pk {
        errs.push("get_channel_basepoints differs from the slot's signer pubkeys".into());
    }
    let keyv = vec![
        hexs(&keys.funding_key[..]),
        hexs(&keys.revocation_base_key[..]),
        hexs(&keys.htlc_base_key[..]),
        hexs(&keys.payment_key[..]),
        hexs(&keys.delayed_payment_base_key[..]),
        hexs(&keys.commitment_seed),
    ];
    let mut points = BTreeMap::new();
    let mut secrets = BTreeMap::new();
    let secp = Secp256k1::new();
    if ready {
        // per-commitment points 0..5 and the secrets below them are reachable once the holder
        // commitment number has advanced; the enforcement gate itself belongs to other properties
        let _ = node.with_channel_base(id, |b| {
            b.set_next_holder_commit_num_for_testing(7);
            Ok(())
        });
    }
    for n in 0..=5u64 {
        let r = catch_unwind(AssertUnwindSafe(|| {
            node.with_channel_base(id, |b| b.get_per_commitment_point(n))
        }));
        if let Ok(Ok(p)) = r {
            points.insert(n, hexs(&p.serialize()));
        }
    }
    let mut nums: Vec<u64> = (0..=5u64).collect();
    nums.extend_from_slice(extra_secret_nums);
    for n in nums {
        if ready && n >= 6 {
            let _ = node.with_channel_base(id, |b| {
                b.set_next_holder_commit_num_for_testing(n.saturating_add(2));
                Ok(())
            });
        }
        let r = catch_unwind(AssertUnwindSafe(|| {
            node.with_channel_base(id, |b| b.get_per_commitment_secret(n))
        }));
        if let Ok(Ok(s)) = r {
            secrets.insert(n, hexs(&s[..]));
            // the secret must be the one the point was made from, and check_future_secret must agree
            if let Some(p) = points.get(&n) {
                let q = PublicKey::from_secret_key(&secp, &s);
                if hexs(&q.serialize()) != *p {
                    errs.push(format!("per-commitment point {} is not G * secret {}", n, n));
                }
            }
            let c = node.with_channel_base(id, |b| b.check_future_secret(n, &s));
            if !matches!(c, Ok(true)) {
                errs.push(format!("check_future_secret({}) rejects the released secret", n));
            }
        }
    }
    if ready {
        let _ = node.with_channel_base(id, |b| {
            b.set_next_holder_commit_num_for_testing(7);
            Ok(())
        });
    }
    Some(Obs { basepoints, keys: keyv, keys_id: hexs(&keys.channel_keys_id()), points, secrets, ready })
}

fn permutations(n: usize) -> Vec<Vec<usize>> {
    fn rec(cur: &mut Vec<usize>, used: &mut Vec<bool>, n: usize, out: &mut Vec<Vec<usize>>) {
        if cur.len() == n {
            out.push(cur.clone());
            return;
        }
        for i in 0..n {
            if !used[i] {
                used[i] = true;
                cur.push(i);
                rec(cur, used, n, out);
                cur.pop();
                used[i] = false;
            }
        }
    }
    let mut out = vec![];
    rec(&mut vec![], &mut vec![false; n], n, &mut out);
    out
}

fn gen_dbid(rng: &mut Rng) -> u64 {
    match rng.below(10) {
        0 => 1,
        1 => 2,
        2 => 255,
        3 => 256,
        4 => (1u64 << 32) - 1,
        5 => 1u64 << 32,
        6 => 1u64 << 63,
        7 => u64::MAX,
        _ => 1 + rng.below(1 << 20),
    }
}

fn gen_peer(rng: &mut Rng) -> [u8; 33] {
    let mut p = [0u8; 33];
    match rng.below(4) {
        0 => {
            p[0] = 2;
            p[32] = 1
        }
        1 => p = [0xffu8; 33],
        _ => {
            let a = rng.bytes32();
            p[0] = 2 + (rng.below(2) as u8);
            p[1..].copy_from_slice(&a);
        }
    }
    p
}

/// a history for creation order `perm`: new/setup/restart/random/observe interleaved
fn gen_history(rng: &mut Rng, perm: &[usize], with_setup: &[bool]) -> Vec<Op> {
    let mut ops = vec![];
    let mut created: Vec<usize> = vec![];
    for &i in perm {
        if rng.chance(1, 4) {
            ops.push(Op::Random);
        }
        ops.push(Op::New(i));
        created.push(i);
        if rng.chance(1, 2) {
            ops.push(Op::Observe);
        }
        if rng.chance(1, 3) {
            ops.push(Op::Restart);
        }
        // set up some earlier channel now, some later
        for &j in &created {
            if with_setup[j] && rng.chance(1, 2) {
                ops.push(Op::Setup(j));
            }
        }
        if rng.chance(1, 3) {
            ops.push(Op::Observe);
        }
        if rng.chance(1, 4) {
            ops.push(Op::Restart);
        }
    }
    for &j in &created {
        if with_setup[j] {
            ops.push(Op::Setup(j));
        }
    }
    ops.push(Op::Observe);
    ops.push(Op::Restart);
    ops.push(Op::Observe);
    ops.push(Op::Restart); // and a second time, from what the first restored node left in the store
    ops.push(Op::Observe);
    if rng.chance(1, 2) {
        ops.push(Op::New(perm[0])); // creating an existing channel again returns the same slot
        ops.push(Op::Observe);
    }
    ops
}

fn ldk_child(seed: &[u8; 32], keys_id: &[u8]) -> (u32, Vec<u8>) {
    let secp = Secp256k1::new();
    let idx = u32::from_be_bytes([keys_id[4], keys_id[5], keys_id[6], keys_id[7]]);
    let master = Xpriv::new_master(NETWORK, seed).expect("master");
    match ChildNumber::from_hardened_idx(idx) {
        Ok(cn) => {
            let c = master
                .derive_priv(&secp, &[ChildNumber::from_hardened_idx(3).unwrap()])
                .unwrap()
                .derive_priv(&secp, &[cn])
                .unwrap();
            (idx, c.private_key[..].to_vec())
        }
        Err(_) => (idx, vec![]),
    }
}

fn hist(args: &Args) {
    let mut rng = Rng::new(args.seed ^ 0x6b657973);
    let thorough = args.tier == "thorough";
    let mut n_runs = 0u64;
    let mut n_obs = 0u64;
    let mut n_restart = 0u64;
    let mut n_setup = 0u64;
    let mut n_cases = 0u64;
    let mut stub_obs = 0u64;
    let mut ready_obs = 0u64;
    let mut lnd_order_dependent = 0u64;
    let mut n_obs_perm = 0u64;
    let mut n_lookup_missing = 0u64;
    let mut lnd_trials = 0u64;
    for world_ix in 0..args.n {
        let seed = match world_ix {
            0 => [0u8; 32],
            1 => [0xffu8; 32],
            _ => rng.bytes32(),
        };
        let style = if world_ix % 2 == 0 { KeyDerivationStyle::Native } else { KeyDerivationStyle::Ldk };
        let k = 1 + (world_ix % 4);
        // distinct ids; sometimes the same peer with neighbouring dbids, sometimes the same dbid
        let mut ids: Vec<([u8; 33], u64)> = vec![];
        while ids.len() < k {
            let cand = if !ids.is_empty() && rng.chance(1, 3) {
                (ids[0].0, ids[0].1.wrapping_add(1).max(1))
            } else if !ids.is_empty() && rng.chance(1, 4) {
                (gen_peer(&mut rng), ids[0].1)
            } else {
                (gen_peer(&mut rng), gen_dbid(&mut rng))
            };
            if !ids.contains(&cand) {
                ids.push(cand);
            }
        }
        let chan_ids: Vec<ChannelId> =
            ids.iter().map(|(p, d)| ChannelId::new(&own_id(p, *d))).collect();
        let with_setup: Vec<bool> = (0..k).map(|_| rng.chance(2, 3)).collect();
        // some channels get a permanent channel id at setup (restore must still derive from id0)
        let perm_ids: Vec<Option<ChannelId>> = (0..k)
            .map(|_| if rng.chance(1, 2) { Some(ChannelId::new(&rng.bytes32())) } else { None })
            .collect();
        let mut perms = permutations(k);
        if !thorough && perms.len() > 6 {
            // quick: first, last and four seeded picks of the 24 orders
            let mut pick = vec![perms[0].clone(), perms[perms.len() - 1].clone()];
            for _ in 0..4 {
                pick.push(rng.pick(&perms).clone());
            }
            perms = pick;
        }
        // extra commitment numbers whose secrets are released once per world (boundaries of the tree)
        let extra: Vec<u64> = vec![
            *rng.pick(&[6u64, 7, 8, 255, 256, 65535, 65536]),
            *rng.pick(&[INITIAL, INITIAL - 1, 1 << 47, (1 << 47) - 1, 0xaaaa_aaaa_aaaa & INITIAL, 0x5555_5555_5555]),
            rng.below(1 << 48),
        ];
        // canonical observation per id, with the history that produced it
        let mut canon: Vec<Option<(Obs, usize, usize)>> = vec![None; k];
        let mut violations: Vec<serde_json::Value> = vec![];
        let mut histories: Vec<Vec<String>> = vec![];
        for (run_ix, perm) in perms.iter().enumerate() {
            let ops = gen_history(&mut rng, perm, &with_setup);
            histories.push(ops.iter().map(|o| o.name()).collect());
            let world = World::new(World::default_policy(), seed, style);
            let mut node = world.new_node();
            let node_id = node.get_id();
            n_runs += 1;
            // what this run did to each channel: created, set up (then it has every id it was given)
            let mut created = vec![false; k];
            let mut setup_done = vec![false; k];
            let mut restarts_in_run = 0u64;
            for (op_ix, op) in ops.iter().enumerate() {
                match op {
                    Op::New(i) => {
                        node.new_channel(ids[*i].1, &ids[*i].0, &node).expect("new_channel");
                        created[*i] = true;
                    }
                    Op::Setup(i) => {
                        let r = node.setup_channel(
                            chan_ids[*i].clone(),
                            perm_ids[*i].clone(),
                            make_setup(*i, run_ix),
                            &lightning_signer::bitcoin::bip32::DerivationPath::master(),
                        );
                        if r.is_ok() {
                            n_setup += 1;
                            setup_done[*i] = true;
                        }
                    }
                    Op::Restart => {
                        node = world.restart(&node_id);
                        n_restart += 1;
                        restarts_in_run += 1;
                    }
                    Op::Random => {
                        node.new_channel_with_random_id(&node).expect("random channel");
                    }
                    Op::Observe => {
                        for i in 0..k {
                          // every id the channel has: id0, and the permanent id once it was set up with one
                          let mut lookups: Vec<(ChannelId, &'static str)> = vec![(chan_ids[i].clone(), "id0")];
                          if setup_done[i] {
                              if let Some(p) = &perm_ids[i] {
                                  lookups.push((p.clone(), "permanent id"));
                              }
                          }
                          for (lookup_id, via) in lookups {
                            let mut errs = vec![];
                            // the deep secrets only at the last observation of the first run
                            let deep = run_ix == 0 && op_ix + 1 == ops.len() && via == "id0";
                            let ex: &[u64] = if deep { &extra } else { &[] };
                            let obs = observe(&node, &lookup_id, ex, &mut errs);
                            if obs.is_none() && created[i] {
                                n_lookup_missing += 1;
                                violations.push(json!({
                                    "what": format!("a channel that exists is not found under its {} (after {} restart(s) in this history)", via, restarts_in_run),
                                    "id": i, "looked_up_by": via, "run": run_ix, "op": op_ix}));
                            }
                            if let Some(o) = obs {
                                n_obs += 1;
                                if via != "id0" {
                                    n_obs_perm += 1;
                                }
                                if o.secrets.is_empty() {
                                    stub_obs += 1
                                } else {
                                    ready_obs += 1
                                }
                                // the slot kind belongs to the comparison: set up once, ready under every id, also after restarts
                                if o.ready != setup_done[i] {
                                    violations.push(json!({
                                        "what": format!("the slot under the {} is a {} although the channel {} (after {} restart(s) in this history): the keys that can be asked for differ",
                                                        via, if o.ready { "ready channel" } else { "stub" },
                                                        if setup_done[i] { "was set up" } else { "was never set up" }, restarts_in_run),
                                        "id": i, "looked_up_by": via, "run": run_ix, "op": op_ix}));
                                }
                                for e in errs {
                                    violations.push(json!({"what": e, "id": i, "looked_up_by": via, "run": run_ix, "op": op_ix}));
                                }
                                match &mut canon[i] {
                                    None => canon[i] = Some((o, run_ix, op_ix)),
                                    Some((c, r0, o0)) => {
                                        let mut diff = vec![];
                                        if c.basepoints != o.basepoints {
                                            diff.push("basepoints");
                                        }
                                        if c.keys != o.keys {
                                            diff.push("secret keys / commitment seed");
                                        }
                                        if c.keys_id != o.keys_id {
                                            diff.push("keys_id");
                                        }
                                        for (n, p) in &o.points {
                                            match c.points.get(n) {
                                                Some(q) if q != p => diff.push("per-commitment point"),
                                                None => {
                                                    c.points.insert(*n, p.clone());
                                                }
                                                _ => {}
                                            }
                                        }
                                        for (n, s) in &o.secrets {
                                            match c.secrets.get(n) {
                                                Some(q) if q != s => diff.push("per-commitment secret"),
                                                None => {
                                                    c.secrets.insert(*n, s.clone());
                                                }
                                                _ => {}
                                            }
                                        }
                                        diff.dedup();
                                        if !diff.is_empty() {
                                            violations.push(json!({
                                                "what": format!("{} of one channel (looked up by its {}, after {} restart(s)) differ from what the same channel showed in another history / at another moment",
                                                                diff.join(", "), via, restarts_in_run),
                                                "id": i, "looked_up_by": via, "first": {"run": *r0, "op": *o0}, "second": {"run": run_ix, "op": op_ix}}));
                                        }
                                    }
                                }
                            }
                          }
                        }
                    }
                }
            }
        }
        // different ids, different keys (each basepoint, each secret key, keys_id, first secret)
        for i in 0..k {
            for j in (i + 1)..k {
                if let (Some((a, _, _)), Some((b, _, _))) = (&canon[i], &canon[j]) {
                    let same_bp = (0..5).any(|x| a.basepoints[x] == b.basepoints[x]);
                    let same_key = (0..6).any(|x| a.keys[x] == b.keys[x]);
                    let same_pt = a.points.get(&0) == b.points.get(&0);
                    if same_bp || same_key || same_pt || a.keys_id == b.keys_id {
                        violations.push(json!({"what": "two different channel ids share key material", "ids": [i, j]}));
                    }
                }
            }
        }
        // one Coq case per id
        for i in 0..k {
            let (o, _, _) = match &canon[i] {
                Some(c) => c.clone(),
                None => continue,
            };
            let kid = hex::decode(&o.keys_id).unwrap();
            let oracle = if matches!(style, KeyDerivationStyle::Ldk) {
                let (idx, child) = ldk_child(&seed, &kid);
                format!("[([3; {}], {})]", idx, coq_bytes(&child))
            } else {
                "[]".to_string()
            };
            // all secrets of three numbers at most: cheapest first to bound the vm_compute time
            let mut secs: Vec<(u64, String)> = o.secrets.iter().map(|(n, s)| (*n, s.clone())).collect();
            let small: Vec<(u64, String)> = secs.iter().filter(|(n, _)| *n <= 5).cloned().collect();
            let big: Vec<(u64, String)> = secs.iter().filter(|(n, _)| *n > 5).cloned().collect();
            secs = vec![];
            if !small.is_empty() {
                secs.push(small[(world_ix + i) % small.len()].clone());
            }
            secs.extend(big);
            let coq_secs: Vec<String> = secs
                .iter()
                .map(|(n, s)| format!("({}, {})", n, coq_bytes(&hex::decode(s).unwrap())))
                .collect();
            let keys_coq: Vec<String> = o.keys.iter().map(|h| coq_bytes(&hex::decode(h).unwrap())).collect();
            let coq = format!(
                "(({}, 0, {}, {}), {}, {}, {}, {})",
                style_name(style),
                coq_bytes(&seed),
                coq_bytes(chan_ids[i].as_slice()),
                oracle,
                coq_list(&keys_coq),
                coq_bytes(&kid),
                coq_list(&coq_secs)
            );
            n_cases += 1;
            emit(
                "CASE",
                json!({"kind": "keys", "world": world_ix, "style": style_name(style), "seed": hexs(&seed),
                       "peer": hexs(&ids[i].0), "dbid": ids[i].1.to_string(), "channel_id": hexs(chan_ids[i].as_slice()),
                       "orders": perms.len(), "histories": histories, "n_ids": k,
                       "observed": {"basepoints": o.basepoints, "keys_id": o.keys_id,
                                    "points": o.points.iter().map(|(n, p)| json!([n, p])).collect::<Vec<_>>(),
                                    "secret_numbers": secs.iter().map(|(n, _)| *n).collect::<Vec<_>>()},
                       "has_secrets": !o.secrets.is_empty(),
                       "monitor_violations": if i == 0 { violations.clone() } else { vec![] },
                       "coq": coq}),
            );
        }
        // negative control: the excluded LND style is order dependent
        if world_ix < 3 && k >= 2 {
            let mut fp = vec![];
            for order in [[0usize, 1], [1, 0]] {
                let world = World::new(World::default_policy(), seed, KeyDerivationStyle::Lnd);
                let node = world.new_node();
                for i in order {
                    node.new_channel(ids[i].1, &ids[i].0, &node).expect("new_channel");
                }
                let mut e = vec![];
                fp.push(observe(&node, &chan_ids[0], &[], &mut e).map(|o| o.basepoints));
            }
            lnd_trials += 1;
            if fp[0] != fp[1] {
                lnd_order_dependent += 1;
            }
        }
    }
    emit(
        "STATS",
        json!({"kind": "keys-hist", "worlds": args.n, "runs": n_runs, "observations": n_obs, "stub_observations": stub_obs,
               "ready_observations": ready_obs, "observations_by_permanent_id": n_obs_perm, "lookups_missing": n_lookup_missing, "restarts": n_restart, "setups": n_setup, "coq_cases": n_cases,
               "lnd_control_trials": lnd_trials, "lnd_control_order_dependent": lnd_order_dependent}),
    );
}

// ------------------------------------------------------------------------------------------ store

fn store_state(s: &CounterpartyCommitmentSecrets) -> Vec<(Vec<u8>, u64)> {
    let v = serde_json::to_value(s).expect("serialize store");
    let arr = v.get("old_secrets").and_then(|a| a.as_array()).cloned().unwrap_or_default();
    arr.iter()
        .map(|e| {
            let bytes: Vec<u8> = match &e[0] {
                serde_json::Value::Array(a) => a.iter().map(|x| x.as_u64().unwrap() as u8).collect(),
                serde_json::Value::String(h) => hex::decode(h).unwrap(),
                other => panic!("unexpected secret encoding {:?}", other),
            };
            (bytes, e[1].as_u64().unwrap())
        })
        .collect()
}

/// the released secrets of a real, set-up channel of a fresh node
fn real_secret_source(rng: &mut Rng, style: KeyDerivationStyle) -> (Arc<Node>, ChannelId, [u8; 32]) {
    let seed = rng.bytes32();
    let world = World::new(World::default_policy(), seed, style);
    let node = world.new_node();
    let peer = gen_peer(rng);
    let dbid = gen_dbid(rng);
    let id = ChannelId::new_from_peer_id_and_oid(&peer, dbid);
    node.new_channel(dbid, &peer, &node).expect("new_channel");
    node.setup_channel(
        id.clone(),
        None,
        make_setup(0, 0),
        &lightning_signer::bitcoin::bip32::DerivationPath::master(),
    )
    .expect("setup");
    let cseed = {
        let slot = node.get_channel(&id).unwrap();
        let g = slot.lock().unwrap();
        match &*g {
            ChannelSlot::Ready(c) => c.keys.commitment_seed,
            _ => unreachable!(),
        }
    };
    (node, id, cseed)
}

fn released(node: &Arc<Node>, id: &ChannelId, n: u64) -> [u8; 32] {
    node.with_channel_base(id, |b| {
        b.set_next_holder_commit_num_for_testing(n.saturating_add(2));
        b.get_per_commitment_secret(n)
    })
    .expect("release")
    .secret_bytes()
}

fn store(args: &Args) {
    let mut rng = Rng::new(args.seed ^ 0x73746f72);
    let thorough = args.tier == "thorough";
    let mut kinds: BTreeMap<String, u64> = BTreeMap::new();
    let (mut n_ok, mut n_err, mut n_some, mut n_none, mut n_panic) = (0u64, 0u64, 0u64, 0u64, 0u64);
    let mut max_len = 0usize;
    for case in 0..args.n {
        let style = if case % 2 == 0 { KeyDerivationStyle::Native } else { KeyDerivationStyle::Ldk };
        let (node, id, cseed) = real_secret_source(&mut rng, style);
        let secret_of = |idx: u64| -> [u8; 32] {
            if idx <= INITIAL {
                let s = released(&node, &id, INITIAL - idx);
                // the holder side is LDK's build_commitment_secret over the channel's seed
                assert_eq!(s, build_commitment_secret(&cseed, idx));
                s
            } else {
                build_commitment_secret(&cseed, idx & INITIAL)
            }
        };
        let kind = match case % 9 {
            8 => "repeat-min",
            0 => "descending",
            1 => "gaps",
            2 => "wrong-secret",
            3 => "repeat-and-older",
            4 => "late-start",
            5 => "malformed",
            6 => "descending-long",
            _ => "mixed",
        };
        *kinds.entry(kind.to_string()).or_insert(0) += 1;
        let len = match kind {
            "descending-long" =>
                if thorough && case % 16 == 6 { 1100 } else { 70 },
            _ => 3 + rng.below(12) as usize,
        };
        // (idx, secret) stream
        let mut ops: Vec<(u64, [u8; 32])> = vec![];
        let mut idx = INITIAL;
        for step in 0..len {
            let mut s = secret_of(idx);
            let mut this = idx;
            match kind {
                "descending" | "descending-long" => {}
                "gaps" =>
                    if step > 0 && rng.chance(1, 3) {
                        idx = idx.saturating_sub(1 + rng.below(3));
                        this = idx;
                        s = secret_of(this);
                    },
                "wrong-secret" =>
                    if rng.chance(1, 4) {
                        match rng.below(3) {
                            0 => s[rng.below(32) as usize] ^= 1 << rng.below(8),
                            1 => s = secret_of(idx ^ (1 << rng.below(4))),
                            _ => s = [0u8; 32],
                        }
                    },
                "repeat-and-older" =>
                    if step > 0 && rng.chance(1, 3) {
                        this = (idx + 1 + rng.below(step as u64 + 1)).min(INITIAL);
                        s = secret_of(this);
                        if rng.chance(1, 3) {
                            s[0] ^= 0x80;
                        }
                    },
                // the boundary of  get_min_seen_secret() <= idx : the current minimum again, other secret
                "repeat-min" =>
                    if step > 0 && (idx + 1) % 2 == 1 && rng.chance(2, 3) {
                        // lowest bit set: no consistency loop protects slot 0, only the minimum test does
                        this = idx + 1;
                        s = secret_of(this);
                        s[rng.below(32) as usize] ^= 1 << rng.below(8);
                    } else if step > 0 && rng.chance(1, 4) {
                        this = idx + 1;
                        s = secret_of(this);
                        if rng.chance(1, 2) {
                            s[rng.below(32) as usize] ^= 1 << rng.below(8);
                        }
                    },
                "late-start" =>
                    if step == 0 {
                        idx = *rng.pick(&[INITIAL - 1, INITIAL - 2, INITIAL - 3, 1 << 47, 6, 4, 2, 1, 0]);
                        this = idx;
                        s = secret_of(this);
                    },
                "malformed" => {
                    this = match rng.below(8) {
                        0 => 0,
                        1 => 1 << 48,
                        2 => (1 << 48) + 1,
                        3 => u64::MAX,
                        4 => 1 << 63,
                        5 => rng.next(),
                        6 => rng.below(1 << 48),
                        _ => idx,
                    };
                    s = if rng.chance(1, 2) { secret_of(this) } else { rng.bytes32() };
                }
                _ => {
                    if rng.chance(1, 6) {
                        s[31] ^= 1;
                    }
                    if rng.chance(1, 6) {
                        this = idx.saturating_sub(rng.below(3));
                        idx = this;
                        s = secret_of(this);
                    }
                }
            }
            ops.push((this, s));
            if this == idx {
                idx = idx.saturating_sub(1);
            }
        }
        // drive the implementation
        let mut st = CounterpartyCommitmentSecrets::new();
        let mut trace = vec![];
        let mut accepted: Vec<(u64, [u8; 32])> = vec![];
        let mut clean = true; // a gap-free descending prefix of right secrets
        let mut expect = INITIAL;
        // the property itself: as long as the stream is the gap-free descending sequence of the
        // channel's own secrets, each is accepted and every earlier one is returned; checked at the
        // moment the clean prefix ends (what is provided afterwards may evict: that is C03's matter)
        let check_prefix = |st: &CounterpartyCommitmentSecrets, accepted: &Vec<(u64, [u8; 32])>| {
            for (i, s) in accepted {
                let r = catch_unwind(AssertUnwindSafe(|| st.get_secret(*i)));
                if !matches!(r, Ok(Some(x)) if x == *s) {
                    emit("MONITOR", json!({"case": case, "what": "an earlier secret of the descending sequence is not returned by get_secret", "idx": i.to_string(), "after": accepted.len()}));
                }
            }
        };
        for (i, s) in &ops {
            let is_clean = clean && *i == expect && *i <= INITIAL && *s == build_commitment_secret(&cseed, *i);
            if clean && !is_clean {
                check_prefix(&st, &accepted);
                clean = false;
            }
            let ok = st.provide_secret(*i, *s).is_ok();
            if ok {
                n_ok += 1;
            } else {
                n_err += 1;
            }
            if is_clean {
                accepted.push((*i, *s));
                expect = expect.wrapping_sub(1);
                if !ok {
                    emit("MONITOR", json!({"case": case, "what": "a correct next secret of the descending sequence was refused", "idx": i.to_string()}));
                }
                if accepted.len() <= 16 || accepted.len() % 16 == 0 {
                    check_prefix(&st, &accepted);
                }
            }
            trace.push((ok, st.get_min_seen_secret()));
        }
        if clean {
            check_prefix(&st, &accepted);
        }
        let fin = store_state(&st);
        max_len = max_len.max(fin.len());
        // queries
        let mut qidx: Vec<u64> = vec![INITIAL, 0, 1 << 48];
        for (i, _) in ops.iter().take(12) {
            qidx.push(*i);
            qidx.push(i.wrapping_add(1));
            qidx.push(i.wrapping_sub(1));
        }
        if ops.len() > 12 {
            for _ in 0..12 {
                qidx.push(ops[rng.below(ops.len() as u64) as usize].0);
            }
        }
        qidx.sort();
        qidx.dedup();
        let mut queries = vec![];
        for q in &qidx {
            let r = catch_unwind(AssertUnwindSafe(|| st.get_secret(*q)));
            let (kind_n, s) = match r {
                Ok(Some(s)) => {
                    n_some += 1;
                    (0u64, s.to_vec())
                }
                Ok(None) => {
                    n_none += 1;
                    (1, vec![])
                }
                Err(_) => {
                    n_panic += 1;
                    (2, vec![])
                }
            };
            queries.push((*q, kind_n, s));
        }
        if fin.len() > 49 {
            emit("MONITOR", json!({"case": case, "what": "the compact store holds more than 49 entries", "len": fin.len()}));
        }
        let coq = format!(
            "({}, {}, {}, {})",
            coq_list(&ops.iter().map(|(i, s)| format!("({}, {})", i, coq_bytes(s))).collect::<Vec<_>>()),
            coq_list(&trace.iter().map(|(ok, m)| format!("({}, {})", coq_bool(*ok), m)).collect::<Vec<_>>()),
            coq_list(&fin.iter().map(|(s, i)| format!("({}, {})", coq_bytes(s), i)).collect::<Vec<_>>()),
            coq_list(&queries.iter().map(|(q, k, s)| format!("({}, {}, {})", q, k, coq_bytes(s))).collect::<Vec<_>>())
        );
        emit(
            "CASE",
            json!({"kind": "store", "stream": kind, "style": style_name(style), "len": ops.len(),
                   "idxs": ops.iter().map(|(i, _)| i.to_string()).collect::<Vec<_>>(),
                   "oks": trace.iter().map(|(ok, _)| *ok).collect::<Vec<_>>(),
                   "final_len": fin.len(),
                   "query_kinds": queries.iter().map(|(_, k, _)| *k).collect::<Vec<_>>(),
                   "clean_prefix": accepted.len(), "coq": coq}),
        );
    }
    emit(
        "STATS",
        json!({"kind": "keys-store", "streams": kinds, "provide_ok": n_ok, "provide_err": n_err, "get_some": n_some,
               "get_none": n_none, "get_panic": n_panic, "max_store_len": max_len}),
    );
}

// -------------------------------------------------------------------------------------------- adv
//
// A real channel that advances several holder commitments through the protocol handler
// (ValidateCommitmentTx2 / RevokeCommitmentTx at hsmd protocol 4, 5, 6).  At every channel state,
// and again after restarts, EVERY way of obtaining a per-commitment point or secret is asked for
// every number in reach -- including replays of old revocations -- and the answer is compared
// with the derivation for the number that was ASKED: secret k = build_commitment_secret(seed of
// the channel, 2^48-1-k), point k = G * secret k.  The asked-number -> secret map goes to Coq,
// where the commitment seed and the secrets are recomputed from (node seed, channel id).

const VALUE: u64 = 3_000_000;

fn make_handler(node: &Arc<Node>, proto: u32, peer_id: [u8; 33], dbid: u64) -> ChannelHandler {
    let mut init = InitHandler::new(0, node.clone(), Arc::new(PositiveApprover()), proto);
    let m = msgs::HsmdInit {
        key_version: model::Bip32KeyVersion { pubkey_version: 0, privkey_version: 0 },
        chain_params: BlockHash::all_zeros(),
        encryption_key: None,
        dev_privkey: None,
        dev_bip32_seed: None,
        dev_channel_secrets: None,
        dev_channel_secrets_shaseed: None,
        hsm_wire_min_version: 2,
        hsm_wire_max_version: proto,
    };
    init.handle(Message::HsmdInit(m)).expect("init");
    let root: RootHandler = init.into();
    root.for_new_client(1, PubKey(peer_id), dbid)
}

fn to_bsig(s: &Signature) -> BitcoinSignature {
    BitcoinSignature { signature: model::Signature(s.serialize_compact()), sighash: 1 }
}

struct Adv {
    world: World,
    node: Arc<Node>,
    node_id: PublicKey,
    id: ChannelId,
    peer: [u8; 33],
    dbid: u64,
    proto: u32,
    handler: ChannelHandler,
    cctx: TestChannelContext,
    cseed: [u8; 32],
    secp: Secp256k1<lightning_signer::bitcoin::secp256k1::All>,
    /// asked commitment number -> secret handed out for it (first answer), and by which call
    secrets: BTreeMap<u64, (String, String)>,
    violations: Vec<serde_json::Value>,
    history: Vec<String>,
    answers: BTreeMap<String, u64>,
    refused: u64,
    /// commitment seed of another channel of the same node
    other_cseed: [u8; 32],
    /// (number, suggested secret, answer, what the suggestion was) of the CheckFutureSecret route
    future: Vec<(u64, [u8; 32], bool, &'static str)>,
}

impl Adv {
    fn exp_secret(&self, k: u64) -> Option<[u8; 32]> {
        if k > INITIAL {
            None
        } else {
            Some(build_commitment_secret(&self.cseed, INITIAL - k))
        }
    }
    fn exp_point(&self, k: u64) -> Option<PublicKey> {
        self.exp_secret(k).map(|s| PublicKey::from_secret_key(&self.secp, &SecretKey::from_slice(&s).unwrap()))
    }
    fn next(&self) -> u64 {
        let slot = self.node.get_channel(&self.id).expect("slot");
        let g = slot.lock().unwrap();
        match &*g {
            ChannelSlot::Ready(c) => c.enforcement_state.next_holder_commit_num,
            _ => 0,
        }
    }
    fn got_point(&mut self, api: &str, asked: u64, p: &[u8]) {
        *self.answers.entry(format!("{}:point", api)).or_insert(0) += 1;
        let want = self.exp_point(asked).map(|q| q.serialize().to_vec());
        if want.as_deref() != Some(p) {
            // which number does it belong to, if any nearby
            let actual = (0..64u64).find(|k| self.exp_point(*k).map(|q| q.serialize().to_vec()).as_deref() == Some(p));
            self.violations.push(json!({
                "what": format!("{} handed out a per-commitment point that is not the point of the number asked", api),
                "asked_point_number": asked, "belongs_to_number": actual, "next_holder_commit_num": self.next(),
                "history": self.history.clone()}));
        }
    }
    fn got_secret(&mut self, api: &str, asked: u64, s: &[u8]) {
        *self.answers.entry(format!("{}:secret", api)).or_insert(0) += 1;
        let want = self.exp_secret(asked);
        if want.as_ref().map(|w| &w[..]) != Some(s) {
            let actual = (0..64u64).find(|k| self.exp_secret(*k).as_ref().map(|w| &w[..]) == Some(s));
            self.violations.push(json!({
                "what": format!("{} handed out a per-commitment secret that is not at index 2^48-1-k of the channel's BOLT-3 tree for the number k asked", api),
                "asked_secret_number": asked, "belongs_to_number": actual, "next_holder_commit_num": self.next(),
                "history": self.history.clone()}));
        }
        match self.secrets.get(&asked) {
            None => {
                self.secrets.insert(asked, (hexs(s), api.to_string()));
            }
            Some((old, api0)) =>
                if *old != hexs(s) {
                    let api0 = api0.clone();
                    self.violations.push(json!({
                        "what": format!("the secret of one commitment number differs between two requests ({} then {})", api0, api),
                        "asked_secret_number": asked, "next_holder_commit_num": self.next(), "history": self.history.clone()}));
                    // keep the latest too, so that the Coq case sees the deviating value
                    self.secrets.insert(asked, (hexs(s), api.to_string()));
                },
        }
    }

    /// counterparty-signed ValidateCommitmentTx2 for holder commitment n, or (phase1) the
    /// ValidateCommitmentTx message that carries the transaction itself and the witness scripts in a PSBT
    fn validate_msg(&self, n: u64, phase1: bool) -> Option<Message> {
        let (to_h, to_c) = if n == 0 { (VALUE - 1000, 0) } else { (1_000_000, VALUE - 20_000 - 1_000_000) };
        let nctx = TestNodeContext { node: self.node.clone(), secp_ctx: Secp256k1::signing_only() };
        let r = catch_unwind(AssertUnwindSafe(|| {
            let mut ctx = channel_commitment(&nctx, &self.cctx, n, 1100, to_h, to_c, vec![], vec![]);
            let sigs = counterparty_sign_holder_commitment(&nctx, &self.cctx, &mut ctx);
            (sigs, ctx.tx.as_ref().map(|t| t.trust().built_transaction().transaction.clone()))
        }));
        let ((sig, hs), tx) = r.ok()?;
        if phase1 {
            let tx = tx?;
            let ws: Vec<Vec<u8>> = self
                .node
                .with_channel(&self.id, |chan| {
                    let cp = chan.make_channel_parameters();
                    let params = cp.as_holder_broadcastable();
                    let pt = chan.get_per_commitment_point(n)?;
                    let hp = chan.keys.pubkeys();
                    let cpp = chan.counterparty_pubkeys();
                    let keys = lightning_signer::lightning::ln::chan_utils::TxCreationKeys::derive_new(
                        &Secp256k1::new(),
                        &pt,
                        &hp.delayed_payment_basepoint,
                        &hp.htlc_basepoint,
                        &cpp.revocation_basepoint,
                        &cpp.htlc_basepoint,
                    );
                    let scripts = build_tx_scripts(
                        &keys,
                        to_h,
                        to_c,
                        &vec![],
                        &params,
                        &chan.keys.pubkeys().funding_pubkey,
                        &chan.setup.counterparty_points.funding_pubkey,
                    )
                    .expect("scripts");
                    Ok(scripts.iter().map(|s| s.as_bytes().to_vec()).collect::<Vec<_>>())
                })
                .ok()?;
            let mut psbt = lightning_signer::bitcoin::psbt::Psbt::from_unsigned_tx(tx.clone()).ok()?;
            for (o, w) in psbt.outputs.iter_mut().zip(ws.iter()) {
                if !w.is_empty() {
                    o.witness_script = Some(lightning_signer::bitcoin::ScriptBuf::from(w.clone()));
                }
            }
            let bytes = msgs::ValidateCommitmentTx {
                tx: vls_protocol::serde_bolt::WithSize(tx),
                psbt: vls_protocol::serde_bolt::WithSize(psbt.into()),
                htlcs: Array(vec![]),
                commitment_number: n,
                feerate: 1100,
                signature: to_bsig(&sig),
                htlc_signatures: Array(hs.iter().map(to_bsig).collect()),
            }
            .as_vec();
            return msgs::from_vec(bytes).ok();
        }
        let bytes = msgs::ValidateCommitmentTx2 {
            commitment_number: n,
            feerate: 1100,
            to_local_value_sat: to_h,
            to_remote_value_sat: to_c,
            htlcs: Array(vec![]),
            signature: to_bsig(&sig),
            htlc_signatures: Array(hs.iter().map(to_bsig).collect()),
        }
        .as_vec();
        msgs::from_vec(bytes).ok()
    }

    /// ValidateCommitmentTx2{n}: below protocol 5 it revokes n-1 in the same step
    fn validate(&mut self, n: u64, tag: &str) -> bool {
        self.validate_as(n, tag, false)
    }

    /// The reply announces `next_per_commitment_point`: by the protocol the point of commitment n + 1
    /// (and, below protocol 5, the secret of n - 1), whatever state the channel is in -- also on a
    /// retry of the same request before or after the revocation.
    fn validate_as(&mut self, n: u64, tag: &str, phase1: bool) -> bool {
        let msg = match self.validate_msg(n, phase1) {
            Some(m) => m,
            None => return false,
        };
        self.history.push(format!("{}validate{}:{}", tag, if phase1 { "-phase1" } else { "" }, n));
        let r = catch_unwind(AssertUnwindSafe(|| self.handler.handle(msg).map(|r| r.as_vec())));
        match r {
            Ok(Ok(bytes)) => {
                if let Ok(Message::ValidateCommitmentTxReply(rep)) = msgs::from_vec(bytes) {
                    self.got_point("ValidateCommitmentTxReply", n + 1, &rep.next_per_commitment_point.0);
                    if let Some(s) = rep.old_commitment_secret {
                        if n >= 1 {
                            self.got_secret("ValidateCommitmentTxReply", n - 1, &s.0[..]);
                        } else {
                            self.violations.push(json!({"what": "a secret was disclosed with commitment 0", "history": self.history.clone()}));
                        }
                    }
                }
                true
            }
            _ => {
                self.refused += 1;
                false
            }
        }
    }

    /// RevokeCommitmentTx{k}: secret k, point k + 2
    fn revoke_msg(&mut self, k: u64, tag: &str) -> bool {
        self.history.push(format!("{}revoke:{}", tag, k));
        let r = catch_unwind(AssertUnwindSafe(|| {
            self.handler
                .handle(Message::RevokeCommitmentTx(msgs::RevokeCommitmentTx { commitment_number: k }))
                .map(|r| r.as_vec())
        }));
        match r {
            Ok(Ok(bytes)) => {
                if let Ok(Message::RevokeCommitmentTxReply(rep)) = msgs::from_vec(bytes) {
                    self.got_point("RevokeCommitmentTxReply", k + 2, &rep.next_per_commitment_point.0);
                    self.got_secret("RevokeCommitmentTxReply", k, &rep.old_commitment_secret.0[..]);
                }
                true
            }
            _ => {
                self.refused += 1;
                false
            }
        }
    }

    /// every other way of asking, at the current state; none of these may change the keys handed out
    fn probe(&mut self, rng: &mut Rng) {
        let next = self.next();
        self.history.push(format!("probe@next={}", next));
        let node = self.node.clone();
        let id = self.id.clone();
        for k in 0..=next + 2 {
            let r = catch_unwind(AssertUnwindSafe(|| node.with_channel_base(&id, |b| b.get_per_commitment_point(k))));
            if let Ok(Ok(p)) = r {
                self.got_point("get_per_commitment_point", k, &p.serialize());
            } else {
                self.refused += 1;
            }
            let r = catch_unwind(AssertUnwindSafe(|| node.with_channel_base(&id, |b| b.get_per_commitment_secret(k))));
            if let Ok(Ok(s)) = r {
                self.got_secret("get_per_commitment_secret", k, &s[..]);
            } else {
                self.refused += 1;
            }
            let r = catch_unwind(AssertUnwindSafe(|| {
                node.with_channel_base(&id, |b| Ok(b.get_per_commitment_secret_or_none(k)))
            }));
            if let Ok(Ok(Some(s))) = r {
                self.got_secret("get_per_commitment_secret_or_none", k, &s[..]);
            }
            let r = catch_unwind(AssertUnwindSafe(|| {
                self.handler
                    .handle(Message::GetPerCommitmentPoint(msgs::GetPerCommitmentPoint { commitment_number: k }))
                    .map(|r| r.as_vec())
            }));
            if let Ok(Ok(bytes)) = r {
                if let Ok(Message::GetPerCommitmentPointReply(rep)) = msgs::from_vec(bytes) {
                    self.got_point("GetPerCommitmentPointReply", k, &rep.point.0);
                    if let Some(s) = rep.secret {
                        if k >= 2 {
                            self.got_secret("GetPerCommitmentPointReply", k - 2, &s.0[..]);
                        }
                    }
                }
            } else {
                self.refused += 1;
            }
            let r = catch_unwind(AssertUnwindSafe(|| {
                self.handler
                    .handle(Message::GetPerCommitmentPoint2(msgs::GetPerCommitmentPoint2 { commitment_number: k }))
                    .map(|r| r.as_vec())
            }));
            if let Ok(Ok(bytes)) = r {
                if let Ok(Message::GetPerCommitmentPoint2Reply(rep)) = msgs::from_vec(bytes) {
                    self.got_point("GetPerCommitmentPoint2Reply", k, &rep.point.0);
                }
            }
        }
        // replays of revocations: revoke_previous_holder_commitment(N) answers (point N+1, secret N-1);
        // N == next with nothing pending is refused, N < next is the replay branch
        let mut ns: Vec<u64> = (1..=next + 1).collect();
        if rng.chance(1, 2) {
            ns.reverse();
        }
        for n in ns {
            self.history.push(format!("replay-revoke_previous_holder_commitment:{}", n));
            let r = catch_unwind(AssertUnwindSafe(|| {
                node.with_channel(&id, |chan| chan.revoke_previous_holder_commitment(n))
            }));
            match r {
                Ok(Ok((p, s))) => {
                    self.got_point("revoke_previous_holder_commitment", n + 1, &p.serialize());
                    if let Some(s) = s {
                        self.got_secret("revoke_previous_holder_commitment", n - 1, &s[..]);
                    }
                }
                _ => self.refused += 1,
            }
        }
        if self.proto >= 5 {
            for k in 0..next.saturating_sub(1) {
                self.revoke_msg(k, "replay-");
            }
        } else if next >= 2 {
            // the legacy ValidateCommitmentTx replays the revocation too
            for n in [next - 1, next.saturating_sub(2).max(1)] {
                self.validate(n, "replay-");
            }
        }
    }

    /// a unilateral close by the holder: the current holder commitment is signed for broadcast, which
    /// marks the channel closed; the points and secrets asked for afterwards must be the same ones
    fn force_close(&mut self) -> bool {
        let next = self.next();
        self.history.push(format!("force-close:sign_holder_commitment_tx_phase2:{}", next.saturating_sub(1)));
        let (node, id) = (self.node.clone(), self.id.clone());
        let r = catch_unwind(AssertUnwindSafe(|| {
            node.with_channel(&id, |chan| chan.sign_holder_commitment_tx_phase2(next.saturating_sub(1))).is_ok()
        }));
        matches!(r, Ok(true))
    }

    fn restart(&mut self) {
        self.history.push("restart".into());
        self.node = self.world.restart(&self.node_id);
        self.handler = make_handler(&self.node, self.proto, self.peer, self.dbid);
    }

    /// CheckFutureSecret over the wire: encoded, decoded, handled by the ChannelHandler, and the
    /// reply decoded again
    fn wire_check_future(&self, n: u64, s: &[u8; 32]) -> Option<bool> {
        let bytes = msgs::CheckFutureSecret { commitment_number: n, secret: model::DisclosedSecret(*s) }.as_vec();
        let msg = msgs::from_vec(bytes).ok()?;
        if !matches!(msg, Message::CheckFutureSecret(_)) {
            return None;
        }
        let r = catch_unwind(AssertUnwindSafe(|| self.handler.handle(msg).map(|r| r.as_vec())));
        match r {
            Ok(Ok(reply)) => match msgs::from_vec(reply) {
                Ok(Message::CheckFutureSecretReply(rep)) => Some(rep.result),
                _ => None,
            },
            _ => None,
        }
    }

    /// the CheckFutureSecret route at the current state: for n in {0, 1, 2, small, large, 2^48-1
    /// boundary} the channel's secret of n, of n-1, of n+1, the secret another channel has at n, and
    /// random bytes; the answer must be "true" exactly for the channel's own secret of the number asked
    fn probe_future(&mut self, rng: &mut Rng) {
        self.history.push(format!("check-future-secret@next={}", self.next()));
        let ns: Vec<u64> = vec![
            0, 1, 2, 3 + rng.below(20), 1 << 47, rng.below(1 << 48).min(INITIAL - 2), INITIAL - 1, INITIAL,
        ];
        for n in ns {
            let mut cands: Vec<([u8; 32], &'static str)> = vec![(self.exp_secret(n).unwrap(), "secret(n)")];
            if n >= 1 {
                cands.push((self.exp_secret(n - 1).unwrap(), "secret(n-1)"));
            }
            if n < INITIAL {
                cands.push((self.exp_secret(n + 1).unwrap(), "secret(n+1)"));
            }
            cands.push((build_commitment_secret(&self.other_cseed, INITIAL - n), "secret(n) of another channel"));
            cands.push((rng.bytes32(), "random bytes"));
            for (s, what) in cands {
                let expected = Some(s) == self.exp_secret(n);
                let got = match self.wire_check_future(n, &s) {
                    Some(b) => b,
                    None => {
                        self.refused += 1;
                        continue;
                    }
                };
                *self.answers.entry("CheckFutureSecretReply:bool".into()).or_insert(0) += 1;
                if got != expected {
                    self.violations.push(json!({
                        "what": format!("CheckFutureSecret answers {} for {} at commitment number n: the route does not test the channel's own BOLT-3 secret of the number asked", got, what),
                        "n": n.to_string(), "suggested": hexs(&s), "expected": expected, "next_holder_commit_num": self.next(),
                        "history": self.history.clone()}));
                }
                // the trait method behind the route, asked directly
                let node = self.node.clone();
                let id = self.id.clone();
                let sk = SecretKey::from_slice(&s);
                if let Ok(sk) = sk {
                    let d = catch_unwind(AssertUnwindSafe(|| node.with_channel_base(&id, |b| b.check_future_secret(n, &sk))));
                    if let Ok(Ok(b)) = d {
                        *self.answers.entry("check_future_secret:bool".into()).or_insert(0) += 1;
                        if b != expected {
                            self.violations.push(json!({
                                "what": format!("check_future_secret answers {} for {} at commitment number n", b, what),
                                "n": n.to_string(), "suggested": hexs(&s), "expected": expected, "history": self.history.clone()}));
                        }
                    }
                }
                self.future.push((n, s, got, what));
            }
        }
    }
}

fn adv(args: &Args) {
    let mut rng = Rng::new(args.seed ^ 0x616476);
    let mut answers_total: BTreeMap<String, u64> = BTreeMap::new();
    let (mut n_refused, mut n_restart, mut max_next, mut n_replays) = (0u64, 0u64, 0u64, 0u64);
    let mut n_retries = 0u64;
    let mut n_closed = 0u64;
    for case in 0..args.n {
        let seed = rng.bytes32();
        let style = if case % 2 == 0 { KeyDerivationStyle::Native } else { KeyDerivationStyle::Ldk };
        let proto = [4u32, 5, 6][(case / 2) % 3];
        let world = World::new(World::default_policy(), seed, style);
        let node = world.new_node();
        let node_id = node.get_id();
        let secp = Secp256k1::new();
        let peer = PublicKey::from_secret_key(&secp, &SecretKey::from_slice(&rng.bytes32()).unwrap_or(SecretKey::from_slice(&[9u8; 32]).unwrap())).serialize();
        let dbid = gen_dbid(&mut rng);
        node.new_channel(dbid, &peer, &node).expect("new_channel");
        let id = ChannelId::new(&own_id(&peer, dbid));
        let mut setup = make_test_channel_setup();
        setup.channel_value_sat = VALUE;
        if node
            .setup_channel(id.clone(), None, setup.clone(), &lightning_signer::bitcoin::bip32::DerivationPath::master())
            .is_err()
        {
            // the channel Node::new_channel(dbid, peer) made is not the one peer_id || dbid_le names
            emit(
                "CASE",
                json!({"kind": "adv", "style": style_name(style), "proto": proto, "seed": hexs(&seed), "channel_id": hexs(id.as_slice()),
                       "history": ["new_channel", "setup_channel"], "has_secrets": false, "next_holder_commit_num": 0,
                       "monitor_violations": [{"what": "setup_channel does not find the channel of Node::new_channel(dbid, peer) under peer_id || dbid_le",
                                               "peer": hexs(&peer), "dbid": dbid.to_string(), "history": ["new_channel", "setup_channel"]}],
                       "coq": "(* no case *)"}),
            );
            continue;
        }
        let nctx = TestNodeContext { node: node.clone(), secp_ctx: Secp256k1::signing_only() };
        let cp_keys = make_test_counterparty_keys(&nctx, &id, VALUE);
        let cctx = TestChannelContext { channel_id: id.clone(), setup, counterparty_keys: cp_keys };
        let (cseed, keys_now) = {
            let slot = node.get_channel(&id).unwrap();
            let g = slot.lock().unwrap();
            match &*g {
                ChannelSlot::Ready(c) => (c.keys.commitment_seed, c.keys.clone()),
                _ => unreachable!(),
            }
        };
        let handler = make_handler(&node, proto, peer, dbid);
        let other_cseed = {
            let (oid, _) = node.new_channel(dbid.wrapping_add(1).max(1), &peer, &node).expect("other channel");
            let slot = node.get_channel(&oid).unwrap();
            let g = slot.lock().unwrap();
            match &*g {
                ChannelSlot::Stub(st) => st.keys.commitment_seed,
                ChannelSlot::Ready(c) => c.keys.commitment_seed,
            }
        };
        let mut a = Adv {
            world, node, node_id, id: id.clone(), peer, dbid, proto, handler, cctx, cseed, secp,
            secrets: BTreeMap::new(), violations: vec![], history: vec![], answers: BTreeMap::new(), refused: 0,
            other_cseed, future: vec![],
        };
        a.probe_future(&mut rng);
        let steps = 4 + rng.below(4);
        for n in 0..steps {
            if !a.validate(n, "") {
                break;
            }
            // the retries the signer accepts: the same request again before the revocation ...
            if n >= 1 && rng.chance(1, 2) {
                let p1 = rng.chance(1, 2);
                if a.validate_as(n, "retry-before-revoke-", p1) {
                    n_retries += 1;
                }
            }
            if proto >= 5 && n >= 1 {
                a.revoke_msg(n - 1, "");
            }
            // ... and after it (the channel has moved on: next_holder_commit_num is n + 1 now)
            if n >= 1 {
                let p1 = (n + case as u64) % 2 == 0;
                if a.validate_as(n, "retry-after-revoke-", p1) {
                    n_retries += 1;
                }
            }
            if rng.chance(1, 3) {
                a.restart();
                n_restart += 1;
                if n >= 1 && a.validate_as(n, "retry-after-restart-", rng.chance(1, 2)) {
                    n_retries += 1;
                }
            }
            if n >= 2 || rng.chance(1, 2) {
                a.probe(&mut rng);
            }
            if rng.chance(1, 3) {
                a.probe_future(&mut rng);
            }
        }
        a.restart();
        n_restart += 1;
        a.probe(&mut rng);
        a.probe_future(&mut rng);
        // two cases in three end with the holder closing the channel unilaterally: what a closed
        // channel hands out (also ahead of the current number, also after a restart) is still the
        // point / secret of the number asked
        if case % 3 != 2 && a.next() >= 1 {
            if a.force_close() {
                n_closed += 1;
            }
            a.probe(&mut rng);
            a.restart();
            n_restart += 1;
            a.probe(&mut rng);
        }
        max_next = max_next.max(a.next());
        n_replays += a.history.iter().filter(|h| h.starts_with("replay-")).count() as u64;
        n_refused += a.refused;
        for (k, v) in &a.answers {
            *answers_total.entry(k.clone()).or_insert(0) += v;
        }
        // the Coq case: the secret keys and commitment seed of the channel, and the secrets that
        // were handed out for (at most four of) the numbers asked -- the oldest, the newest, two others
        let mut nums: Vec<u64> = a.secrets.keys().cloned().collect();
        let mut pick: Vec<u64> = vec![];
        if let Some(f) = nums.first() {
            pick.push(*f);
        }
        if let Some(l) = nums.last() {
            pick.push(*l);
        }
        nums.retain(|n| !pick.contains(n));
        while pick.len() < 4 && !nums.is_empty() {
            let i = rng.below(nums.len() as u64) as usize;
            pick.push(nums.remove(i));
        }
        pick.sort();
        pick.dedup();
        let kid = keys_now.channel_keys_id();
        let oracle = if matches!(style, KeyDerivationStyle::Ldk) {
            let (idx, child) = ldk_child(&seed, &kid);
            format!("[([3; {}], {})]", idx, coq_bytes(&child))
        } else {
            "[]".to_string()
        };
        let keyv: Vec<String> = vec![
            coq_bytes(&keys_now.funding_key[..]),
            coq_bytes(&keys_now.revocation_base_key[..]),
            coq_bytes(&keys_now.htlc_base_key[..]),
            coq_bytes(&keys_now.payment_key[..]),
            coq_bytes(&keys_now.delayed_payment_base_key[..]),
            coq_bytes(&keys_now.commitment_seed),
        ];
        let coq_secs: Vec<String> = pick
            .iter()
            .map(|n| format!("({}, {})", n, coq_bytes(&hex::decode(&a.secrets[n].0).unwrap())))
            .collect();
        let coq = format!(
            "(({}, 0, {}, {}), {}, {}, {}, {})",
            style_name(style),
            coq_bytes(&seed),
            coq_bytes(id.as_slice()),
            oracle,
            coq_list(&keyv),
            coq_bytes(&kid),
            coq_list(&coq_secs)
        );
        emit(
            "CASE",
            json!({"kind": "adv", "style": style_name(style), "proto": proto, "seed": hexs(&seed), "channel_id": hexs(id.as_slice()),
                   "next_holder_commit_num": a.next(), "history": a.history, "asked_secret_numbers": a.secrets.keys().collect::<Vec<_>>(),
                   "secret_numbers_in_coq": pick, "answers": a.answers, "refused_or_out_of_range": a.refused,
                   "has_secrets": !a.secrets.is_empty(), "monitor_violations": a.violations, "coq": coq}),
        );
        // the CheckFutureSecret answers for Coq (a sample of eight: the model recomputes the channel's
        // seed from (node seed, id) and answers suggested = secret n); the last round of queries
        // (after the final restart) first, one of every kind, small numbers and the boundary
        let mut fsel: Vec<(u64, [u8; 32], bool, &'static str)> = vec![];
        let wanted: [(u64, &str); 8] = [
            (1, "secret(n)"), (1, "secret(n-1)"), (0, "secret(n)"), (INITIAL, "secret(n)"), (INITIAL, "secret(n-1)"),
            (2, "secret(n+1)"), (1 << 47, "secret(n) of another channel"), (INITIAL - 1, "random bytes"),
        ];
        for (n, w) in wanted {
            if let Some(q) = a.future.iter().rev().find(|q| q.0 == n && q.3 == w) {
                fsel.push(*q);
            }
        }
        let fq: Vec<String> = fsel.iter().map(|(n, s, b, _)| format!("({}, {}, {})", n, coq_bytes(s), coq_bool(*b))).collect();
        let fcoq = format!(
            "(({}, 0, {}, {}), {}, {})",
            style_name(style), coq_bytes(&seed), coq_bytes(id.as_slice()), oracle, coq_list(&fq)
        );
        emit(
            "FCASE",
            json!({"kind": "future", "style": style_name(style), "proto": proto, "seed": hexs(&seed), "channel_id": hexs(id.as_slice()),
                   "queries_total": a.future.len(), "answered_true": a.future.iter().filter(|q| q.2).count(),
                   "queries_in_coq": fsel.iter().map(|(n, _, b, w)| json!([n.to_string(), w, b])).collect::<Vec<_>>(),
                   "coq": fcoq}),
        );
    }
    emit(
        "STATS",
        json!({"kind": "keys-adv", "cases": args.n, "answers_checked": answers_total, "refused_or_out_of_range": n_refused,
               "restarts": n_restart, "max_next_holder_commit_num": max_next, "replayed_requests": n_replays,
               "accepted_validate_retries": n_retries, "force_closed_then_probed": n_closed}),
    );
}

// -------------------------------------------------------------------------------------------- ids
//
// Channels are named by (peer id, dbid).  A node gets channels of two peers whose dbids sit at
// the boundaries of the 64-bit range (pairs that agree in their low 32 bits, 2^32-1, 2^32,
// 2^48+k, 2^63, 2^64-2, 2^64-1, high 32 bits only), created through Node::new_channel and through
// the NewChannel message, in both orders, with a restart.  Every pair must be its own channel:
// found under the harness's own peer||dbid_le encoding, with that id in the slot and in the store,
// with keys (funding, basepoints, points 0/1, commitment seed, first secrets) that differ pairwise
// and are the same through every entry point, in both orders and across the restart.

fn ids(args: &Args) {
    use lightning_signer::persist::Persist;
    let mut rng = Rng::new(args.seed ^ 0x696473);
    let (mut n_channels, mut n_pairs, mut n_handler_new, mut n_low32_pairs) = (0u64, 0u64, 0u64, 0u64);
    for case in 0..args.n {
        let seed = rng.bytes32();
        let style = if case % 2 == 0 { KeyDerivationStyle::Native } else { KeyDerivationStyle::Ldk };
        let proto = [6u32, 5, 4][case % 3];
        let secp = Secp256k1::new();
        let pa = PublicKey::from_secret_key(&secp, &SecretKey::from_slice(&rng.bytes32()).unwrap_or(SecretKey::from_slice(&[9u8; 32]).unwrap())).serialize();
        let pb = PublicKey::from_secret_key(&secp, &SecretKey::from_slice(&rng.bytes32()).unwrap_or(SecretKey::from_slice(&[8u8; 32]).unwrap())).serialize();
        let k = *rng.pick(&[1u64, 2, 7, 255, 65536]) + rng.below(3);
        let hi = 1 + rng.below(u32::MAX as u64);
        let mut names: Vec<([u8; 33], u64)> = vec![
            (pa, k), (pa, k + (1 << 32)), (pa, (1 << 32) - 1), (pa, 1 << 32), (pa, (1 << 32) + 1), (pa, (1 << 48) + k),
            (pa, 1 << 63), (pa, u64::MAX - 1), (pa, u64::MAX), (pa, hi << 32), (pa, (hi << 32) + k),
            (pb, k), (pb, k + (1 << 32)), (pb, 1 << 63), (pb, hi << 32),
        ];
        names.dedup();
        let mut uniq: Vec<([u8; 33], u64)> = vec![];
        for nm in names {
            if !uniq.contains(&nm) {
                uniq.push(nm);
            }
        }
        let names = uniq;
        let n = names.len();
        for i in 0..n {
            for j in (i + 1)..n {
                if names[i].0 == names[j].0 && (names[i].1 as u32) == (names[j].1 as u32) {
                    n_low32_pairs += 1;
                }
            }
        }
        let mut violations: Vec<serde_json::Value> = vec![];
        // per name: what the first run showed (observation by own id + what the handlers said)
        let mut canon: Vec<Option<(Obs, Vec<String>)>> = vec![None; n];
        let mut real_ids: Vec<Option<Vec<u8>>> = vec![None; n];
        let mut histories: Vec<Vec<String>> = vec![];
        for run_ix in 0..2usize {
            let order: Vec<usize> = if run_ix == 0 { (0..n).collect() } else { (0..n).rev().collect() };
            let world = World::new(World::default_policy(), seed, style);
            let mut node = world.new_node();
            let node_id = node.get_id();
            let mut hist: Vec<String> = vec![];
            let mut root = make_root_handler(&node, proto);
            for &i in &order {
                let (peer, dbid) = names[i];
                let before = node.get_channels().len();
                if (i + run_ix) % 2 == 0 {
                    hist.push(format!("Node::new_channel(dbid={}, peer={})", dbid, if peer == pa { "A" } else { "B" }));
                    if let Err(_) = node.new_channel(dbid, &peer, &node) {
                        violations.push(json!({"what": "Node::new_channel refused a fresh (peer, dbid)", "peer": hexs(&peer), "dbid": dbid.to_string(), "run": run_ix}));
                    }
                } else {
                    hist.push(format!("NewChannel{{dbid={}, peer={}}}", dbid, if peer == pa { "A" } else { "B" }));
                    n_handler_new += 1;
                    let bytes = msgs::NewChannel { peer_id: PubKey(peer), dbid }.as_vec();
                    let ok = msgs::from_vec(bytes).ok().map(|m| root.handle(m).is_ok()).unwrap_or(false);
                    if !ok {
                        violations.push(json!({"what": "the NewChannel message was refused for a fresh (peer, dbid)", "peer": hexs(&peer), "dbid": dbid.to_string(), "run": run_ix}));
                    }
                }
                let after = node.get_channels().len();
                if after != before + 1 {
                    violations.push(json!({
                        "what": format!("creating a channel for a new (peer, dbid) left the node with {} channels instead of {}: the pair does not name a channel of its own", after, before + 1),
                        "peer": hexs(&peer), "dbid": dbid.to_string(), "run": run_ix, "history": hist.clone()}));
                }
                // some of them are set up, so that secrets can be released
                if i % 3 == 0 {
                    let _ = node.setup_channel(
                        ChannelId::new(&own_id(&peer, dbid)),
                        None,
                        make_setup(i, run_ix),
                        &lightning_signer::bitcoin::bip32::DerivationPath::master(),
                    );
                }
            }
            for phase in ["before restart", "after restart"] {
                if phase == "after restart" {
                    hist.push("restart".into());
                    node = world.restart(&node_id);
                    root = make_root_handler(&node, proto);
                }
                let count = node.get_channels().len();
                let stored: Vec<Vec<u8>> = world
                    .persister
                    .get_node_channels(&node_id)
                    .expect("channels")
                    .into_iter()
                    .map(|(id, _)| id.as_slice().to_vec())
                    .collect();
                if count != n || stored.len() != n {
                    violations.push(json!({
                        "what": format!("{} (peer, dbid) pairs were created but the node has {} channels and the store {} entries ({})", n, count, stored.len(), phase),
                        "run": run_ix, "history": hist.clone()}));
                }
                let mut shown: Vec<Option<(Obs, Vec<String>)>> = vec![None; n];
                for i in 0..n {
                    let (peer, dbid) = names[i];
                    let own = own_id(&peer, dbid);
                    if !stored.contains(&own) {
                        violations.push(json!({
                            "what": format!("the store has no channel entry under peer_id || dbid_le ({})", phase),
                            "peer": hexs(&peer), "dbid": dbid.to_string(), "run": run_ix, "history": hist.clone()}));
                    }
                    let mut errs = vec![];
                    let o = match observe(&node, &ChannelId::new(&own), &[], &mut errs) {
                        Some(o) => o,
                        None => {
                            violations.push(json!({
                                "what": format!("the channel of a (peer, dbid) pair is not found under peer_id || dbid_le ({})", phase),
                                "peer": hexs(&peer), "dbid": dbid.to_string(), "run": run_ix, "history": hist.clone()}));
                            continue;
                        }
                    };
                    for e in errs {
                        violations.push(json!({"what": e, "dbid": dbid.to_string(), "run": run_ix}));
                    }
                    // the id the signer uses for it
                    if let Ok(slot) = node.get_channel(&ChannelId::new(&own)) {
                        let real = slot.lock().unwrap().id().as_slice().to_vec();
                        if real != own {
                            violations.push(json!({"what": "the slot's id0 is not peer_id || dbid_le", "dbid": dbid.to_string(), "slot_id": hexs(&real), "run": run_ix}));
                        }
                        real_ids[i] = Some(real);
                    }
                    // the same channel through the entry points that name it by (peer, dbid)
                    let mut via_handler: Vec<String> = vec![];
                    let bytes = msgs::GetChannelBasepoints { node_id: PubKey(peer), dbid }.as_vec();
                    match msgs::from_vec(bytes).ok().and_then(|m| root.handle(m).ok()).map(|r| msgs::from_vec(r.as_vec())) {
                        Some(Ok(Message::GetChannelBasepointsReply(rep))) => {
                            via_handler = vec![
                                hexs(&rep.funding.0), hexs(&rep.basepoints.revocation.0), hexs(&rep.basepoints.payment.0),
                                hexs(&rep.basepoints.delayed_payment.0), hexs(&rep.basepoints.htlc.0),
                            ];
                            if via_handler != o.basepoints {
                                violations.push(json!({
                                    "what": format!("GetChannelBasepoints{{peer, dbid}} answers with other keys than the channel under peer_id || dbid_le has ({})", phase),
                                    "peer": hexs(&peer), "dbid": dbid.to_string(), "run": run_ix, "history": hist.clone()}));
                            }
                        }
                        _ => violations.push(json!({"what": format!("GetChannelBasepoints{{peer, dbid}} was refused ({})", phase), "dbid": dbid.to_string(), "run": run_ix})),
                    }
                    let ch = root.for_new_client(1, PubKey(peer), dbid);
                    for num in 0..=1u64 {
                        let msg = if proto >= 6 || num == 1 {
                            Message::GetPerCommitmentPoint2(msgs::GetPerCommitmentPoint2 { commitment_number: num })
                        } else {
                            Message::GetPerCommitmentPoint(msgs::GetPerCommitmentPoint { commitment_number: num })
                        };
                        let p = match ch.handle(msg).ok().map(|r| msgs::from_vec(r.as_vec())) {
                            Some(Ok(Message::GetPerCommitmentPoint2Reply(rep))) => Some(hexs(&rep.point.0)),
                            Some(Ok(Message::GetPerCommitmentPointReply(rep))) => Some(hexs(&rep.point.0)),
                            _ => None,
                        };
                        match (&p, o.points.get(&num)) {
                            (Some(a), Some(b)) if a == b => via_handler.push(a.clone()),
                            _ => violations.push(json!({
                                "what": format!("GetPerCommitmentPoint({}) through the (peer, dbid) channel handler differs from the channel under peer_id || dbid_le ({})", num, phase),
                                "peer": hexs(&peer), "dbid": dbid.to_string(), "run": run_ix, "history": hist.clone()})),
                        }
                    }
                    // stability: across the restart, and between the two creation orders
                    match &canon[i] {
                        None => canon[i] = Some((o.clone(), via_handler.clone())),
                        Some((c, vh)) => {
                            if c.basepoints != o.basepoints || c.keys != o.keys || c.keys_id != o.keys_id
                                || c.points.get(&0) != o.points.get(&0) || c.points.get(&1) != o.points.get(&1)
                                || (c.secrets.get(&0).is_some() && o.secrets.get(&0).is_some() && c.secrets.get(&0) != o.secrets.get(&0))
                                || *vh != via_handler
                            {
                                violations.push(json!({
                                    "what": format!("the keys of one (peer, dbid) channel differ between the two creation orders or across the restart ({}, order {})", phase, run_ix),
                                    "peer": hexs(&peer), "dbid": dbid.to_string(), "run": run_ix, "history": hist.clone()}));
                            }
                        }
                    }
                    shown[i] = Some((o, via_handler));
                }
                // pairwise distinct: funding, four basepoints, points 0/1, every secret key, the commitment
                // seed, keys_id and the first released secret
                for i in 0..n {
                    for j in (i + 1)..n {
                        if let (Some((a, ha)), Some((b, hb))) = (&shown[i], &shown[j]) {
                            n_pairs += 1;
                            let mut same: Vec<&str> = vec![];
                            if (0..5).any(|x| a.basepoints[x] == b.basepoints[x]) {
                                same.push("funding key / basepoints");
                            }
                            if (0..6).any(|x| a.keys[x] == b.keys[x]) {
                                same.push("secret keys / commitment seed");
                            }
                            if a.keys_id == b.keys_id {
                                same.push("keys_id");
                            }
                            if a.points.get(&0) == b.points.get(&0) || a.points.get(&1) == b.points.get(&1) {
                                same.push("per-commitment points 0/1");
                            }
                            if let (Some(x), Some(y)) = (a.secrets.get(&0), b.secrets.get(&0)) {
                                if x == y {
                                    same.push("first secret");
                                }
                            }
                            if !ha.is_empty() && ha.iter().zip(hb.iter()).any(|(x, y)| x == y) {
                                same.push("keys reported by the handlers");
                            }
                            if !same.is_empty() {
                                violations.push(json!({
                                    "what": format!("two different (peer, dbid) channels share {} ({})", same.join(", "), phase),
                                    "first": {"peer": hexs(&names[i].0), "dbid": names[i].1.to_string()},
                                    "second": {"peer": hexs(&names[j].0), "dbid": names[j].1.to_string()},
                                    "run": run_ix, "history": hist.clone()}));
                            }
                        }
                    }
                }
            }
            histories.push(hist);
        }
        n_channels += n as u64;
        // Coq: the id bytes of every channel against the model's encoder, and the keys of three channels
        // (the low-32-bits twin, a random one, the last) from (seed, own id)
        let idcases: Vec<String> = (0..n)
            .map(|i| {
                let real = real_ids[i].clone().unwrap_or_default();
                format!("({}, {}, {})", coq_bytes(&names[i].0), names[i].1, coq_bytes(&real))
            })
            .collect();
        let mut kc: Vec<String> = vec![];
        for i in [1usize, 2 + rng.below(n as u64 - 3) as usize, n - 1] {
            if let Some((o, _)) = &canon[i] {
                let kid = hex::decode(&o.keys_id).unwrap();
                let oracle = if matches!(style, KeyDerivationStyle::Ldk) {
                    let (idx, child) = ldk_child(&seed, &kid);
                    format!("[([3; {}], {})]", idx, coq_bytes(&child))
                } else {
                    "[]".to_string()
                };
                let keys_coq: Vec<String> = o.keys.iter().map(|h| coq_bytes(&hex::decode(h).unwrap())).collect();
                let secs: Vec<String> = o.secrets.iter().take(1).map(|(n, s)| format!("({}, {})", n, coq_bytes(&hex::decode(s).unwrap()))).collect();
                kc.push(format!(
                    "(({}, 0, {}, {}), {}, {}, {}, {})",
                    style_name(style), coq_bytes(&seed), coq_bytes(&own_id(&names[i].0, names[i].1)), oracle,
                    coq_list(&keys_coq), coq_bytes(&kid), coq_list(&secs)
                ));
            }
        }
        emit(
            "CASE",
            json!({"kind": "ids", "style": style_name(style), "proto": proto, "seed": hexs(&seed),
                   "names": names.iter().map(|(p, d)| json!([if *p == pa { "A" } else { "B" }, d.to_string()])).collect::<Vec<_>>(),
                   "peer_a": hexs(&pa), "peer_b": hexs(&pb), "histories": histories,
                   "monitor_violations": violations, "coq_ids": idcases, "coq_keys": kc}),
        );
    }
    emit(
        "STATS",
        json!({"kind": "keys-ids", "cases": args.n, "channels": n_channels, "pairs_compared": n_pairs,
               "created_through_new_channel_message": n_handler_new, "pairs_agreeing_in_low_32_bits": n_low32_pairs}),
    );
}

fn main() {
    let argv: Vec<String> = std::env::args().collect();
    let args = parse_args(&argv[2..]);
    match argv[1].as_str() {
        "hist" => hist(&args),
        "store" => store(&args),
        "adv" => adv(&args),
        "ids" => ids(&args),
        other => panic!("unknown sub-domain {}", other),
    }
}
