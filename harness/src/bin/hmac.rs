//! Domain `hmac` (C17): the real tag functions for externally stored state —
//! vls-core `ExternalPersistHelper::{client_hmac, server_hmac, new_nonce, check_hmac}` and
//! `persist::compute_shared_hmac`, and the storage client's
//! `util::{prepare_value_for_put, process_value_from_get, compute_shared_hmac}` — driven on
//! generated record lists, stored values and modifications of them.
//!
//!   gen  : correspondence cases (inputs, what the real functions returned, the Coq term)
//!   mon  : the property itself on the implementation: every modification must be rejected;
//!          every accepted one is printed as a @@COLLISION with its framing class
//!   net  : the client read paths (PrivClient::get; Client::get through vls-frontend's lss client with
//!          ExternalPersistHelper::new_nonce / check_hmac, directly and through vls-util's
//!          init_state as vlsd's signer does) against an in-process storage service behind a
//!          recording / replaying man in the middle that does not know the secret
//!   ref  : reference HMAC-SHA256 (one `input` of the whole message) over (key, message)
//!          pairs read from a file — the messages are the bytes the Coq model serialises
use lightning_signer::bitcoin::hashes::sha256::Hash as Sha256;
use lightning_signer::bitcoin::hashes::{Hash, HashEngine, Hmac, HmacEngine};
use lightning_signer::lightning::sign::EntropySource;
use lightning_signer::persist::{
    compute_shared_hmac as core_shared_hmac, ExternalPersistHelper, Mutations,
};
use serde_json::json;
use std::collections::BTreeMap;
use vharness::*;

// The storage client library of the tree under test (feature `lss` of the harness crate; built like
// vls-frontend / vlsd / vls-proxy build it: `default-features = false`, i.e. without "crypt").
use lightning_storage_server::client::{Auth as LssAuth, ClientError, PrivAuth, PrivClient};
use lightning_storage_server::proto::lightning_storage_server::{LightningStorage, LightningStorageServer};
use lightning_storage_server::proto::{
    GetReply, GetRequest, InfoReply, InfoRequest, KeyValue, PingReply, PingRequest, PutReply, PutRequest,
};
use lightning_storage_server::util as lss_util;
use lightning_storage_server::Value;

type Rec = (String, u64, Vec<u8>);

#[derive(Clone, PartialEq, Debug)]
struct Input {
    nonce: Vec<u8>,
    rs: Vec<Rec>,
}

struct Fixed([u8; 32]);
impl EntropySource for Fixed {
    fn get_secure_random_bytes(&self) -> [u8; 32] {
        self.0
    }
}

// ------------------------------------------------------------------ the real functions

fn muts(rs: &[Rec]) -> Mutations {
    Mutations::from_vec(rs.iter().map(|(k, v, x)| (k.clone(), (*v, x.clone()))).collect())
}

fn lss_kvs(rs: &[Rec]) -> Vec<(String, Value)> {
    // vls-frontend/src/external_persist/lss.rs: `version as i64`
    rs.iter().map(|(k, v, x)| (k.clone(), Value { version: *v as i64, value: x.clone() })).collect()
}

fn core_tag(secret: &[u8], nonce: &[u8], rs: &[Rec]) -> Vec<u8> {
    core_shared_hmac(secret, nonce, &muts(rs)).to_vec()
}

fn lss_tag(secret: &[u8], nonce: &[u8], rs: &[Rec]) -> Vec<u8> {
    lss_util::compute_shared_hmac(secret, nonce, &lss_kvs(rs))
}

fn secret32(secret: &[u8]) -> Option<[u8; 32]> {
    if secret.len() == 32 {
        let mut s = [0u8; 32];
        s.copy_from_slice(secret);
        Some(s)
    } else {
        None
    }
}

/// ExternalPersistHelper::new; new_nonce for each nonce; check_hmac
fn helper_check(secret: [u8; 32], nonces: &[[u8; 32]], rs: &[Rec], received: &[u8]) -> bool {
    let mut h = ExternalPersistHelper::new(secret);
    for n in nonces {
        // (whether the helper really adopts the entropy source's bytes is decided by the comparison
        // with the model and by the wire monitor of `net`, not by an assertion here)
        let _ = h.new_nonce(&Fixed(*n));
    }
    h.check_hmac(&muts(rs), received.to_vec())
}

/// Does `tag` authenticate (nonce, rs) under `secret`?  Every real verifier that applies is
/// asked; they must agree.
fn verify(secret: &[u8], inp: &Input, tag: &[u8], disagreements: &mut u64) -> bool {
    let mut answers = vec![];
    answers.push(core_tag(secret, &inp.nonce, &inp.rs) == tag);
    answers.push(lss_tag(secret, &inp.nonce, &inp.rs) == tag);
    if let Some(s) = secret32(secret) {
        let h = ExternalPersistHelper::new(s);
        if inp.nonce == [1u8] {
            answers.push(h.client_hmac(&muts(&inp.rs)).to_vec() == tag);
        }
        if inp.nonce == [2u8] {
            answers.push(h.server_hmac(&muts(&inp.rs)).to_vec() == tag);
        }
        if inp.nonce.len() == 32 {
            let mut n = [0u8; 32];
            n.copy_from_slice(&inp.nonce);
            answers.push(helper_check(s, &[n], &inp.rs, tag));
        }
    }
    let any = answers.iter().any(|b| *b);
    if any != answers.iter().all(|b| *b) {
        *disagreements += 1;
        emit("DISAGREE", json!({"secret": hex::encode(secret), "input": j_input(inp), "tag": hex::encode(tag),
            "answers": answers, "order": "core compute_shared_hmac, storage compute_shared_hmac, then helper client/server/check as applicable"}));
    }
    any
}

fn put_value(secret: &[u8], key: &str, ver: u64, val: &[u8]) -> Vec<u8> {
    let mut v = Value { version: ver as i64, value: val.to_vec() };
    lss_util::prepare_value_for_put(secret, key, &mut v);
    v.value
}

fn get_value(secret: &[u8], key: &str, ver: u64, stored: &[u8]) -> Option<Vec<u8>> {
    let mut v = Value { version: ver as i64, value: stored.to_vec() };
    match lss_util::process_value_from_get(secret, key, &mut v) {
        Ok(()) => Some(v.value),
        Err(()) => None,
    }
}

// ------------------------------------------------------------------ framing (harness side)

fn ser_rec(out: &mut Vec<u8>, r: &Rec) {
    out.extend_from_slice(r.0.as_bytes());
    out.extend_from_slice(&r.1.to_be_bytes());
    out.extend_from_slice(&r.2);
}

fn ser_input(inp: &Input) -> Vec<u8> {
    let mut out = inp.nonce.clone();
    for r in &inp.rs {
        ser_rec(&mut out, r);
    }
    out
}

/// first field whose end differs (the three classes of KNOWN_FINDINGS.json)
fn first_diff(a: &Input, b: &Input) -> &'static str {
    if a.nonce.len() != b.nonce.len() {
        return "nonce-key-boundary-shift";
    }
    let (mut i, na, nb) = (0usize, a.rs.len(), b.rs.len());
    loop {
        if i == na && i == nb {
            return "none";
        }
        if i == na || i == nb {
            return "record-merge-split";
        }
        let (ra, rb) = (&a.rs[i], &b.rs[i]);
        if ra.0.len() != rb.0.len() {
            return "key-version-boundary-shift";
        }
        let last_a = i + 1 == na;
        let last_b = i + 1 == nb;
        if !(last_a && last_b) && ra.2.len() != rb.2.len() {
            return "record-merge-split";
        }
        i += 1;
    }
}

// ------------------------------------------------------------------ printing

fn coq_bytes(b: &[u8]) -> String {
    coq_list(&b.iter().map(|x| x.to_string()).collect::<Vec<_>>())
}
fn coq_rec(r: &Rec) -> String {
    format!("({}, {}, {})", coq_bytes(r.0.as_bytes()), r.1, coq_bytes(&r.2))
}
fn coq_rs(rs: &[Rec]) -> String {
    coq_list(&rs.iter().map(coq_rec).collect::<Vec<_>>())
}
fn coq_input(i: &Input) -> String {
    format!("({}, {})", coq_bytes(&i.nonce), coq_rs(&i.rs))
}
fn j_rs(rs: &[Rec]) -> serde_json::Value {
    json!(rs
        .iter()
        .map(|(k, v, x)| json!([hex::encode(k.as_bytes()), v.to_string(), hex::encode(x)]))
        .collect::<Vec<_>>())
}
fn j_input(i: &Input) -> serde_json::Value {
    json!({"nonce": hex::encode(&i.nonce), "rs": j_rs(&i.rs)})
}

// ------------------------------------------------------------------ generators

const KEY_ALPHABET: &[u8] = b"abcdefghijklmnopqrstuvwxyz0123456789/_-ABKXZ";

fn gen_key(rng: &mut Rng) -> String {
    let len = match rng.below(12) {
        0 => 0,
        1 => 1,
        2 => 2,
        3 => 31,
        4 => 32,
        5 => 33,
        6 => 40 + rng.below(40) as usize, // "node/…/<66 hex>" sized keys
        _ => 1 + rng.below(12) as usize,
    };
    let mut s = String::new();
    while s.len() < len {
        match rng.below(24) {
            0 if s.len() + 2 <= len => s.push('é'),
            1 if s.len() + 3 <= len => s.push('€'),
            2 => s.push('\0'),
            3 => s.push('\u{7f}'),
            _ => s.push(*rng.pick(KEY_ALPHABET) as char),
        }
    }
    s
}

fn gen_version(rng: &mut Rng) -> u64 {
    match rng.below(16) {
        0 => 0,
        1 => 1,
        2 => 255,
        3 => 256,
        4 => (1u64 << 32) - 1,
        5 => 1u64 << 32,
        6 => (1u64 << 63) - 1,
        7 => 1u64 << 63, // i64::MIN on the storage side
        8 => u64::MAX,
        9 => u64::MAX - 1,
        10 => 0x6161616161616161, // reads as key text
        11 => (*rng.pick(KEY_ALPHABET) as u64) << 56 | rng.below(1 << 20),
        12 => rng.next(),
        _ => rng.below(1000),
    }
}

fn gen_bytes(rng: &mut Rng, len: usize) -> Vec<u8> {
    (0..len)
        .map(|_| match rng.below(6) {
            0 => 0,
            1 => *rng.pick(KEY_ALPHABET),
            2 => 0xff,
            _ => rng.below(256) as u8,
        })
        .collect()
}

fn gen_value(rng: &mut Rng) -> Vec<u8> {
    // lengths around the SHA-256 block / padding boundaries of the whole message as well
    let len = *rng.pick(&[0usize, 0, 1, 2, 7, 8, 9, 15, 16, 17, 31, 32, 33, 46, 47, 54, 55, 56, 63, 64, 65, 100, 119, 120, 200]);
    let len = if rng.chance(1, 3) { rng.below(40) as usize } else { len };
    gen_bytes(rng, len)
}

fn gen_rs(rng: &mut Rng) -> Vec<Rec> {
    let n = *rng.pick(&[0usize, 1, 1, 2, 2, 2, 3, 3, 4, 5]);
    (0..n).map(|_| (gen_key(rng), gen_version(rng), gen_value(rng))).collect()
}

fn gen_secret(rng: &mut Rng) -> Vec<u8> {
    match rng.below(10) {
        0 => vec![],
        1 => gen_bytes(rng, 1),
        2 => gen_bytes(rng, 31),
        3 => gen_bytes(rng, 33),
        4 => gen_bytes(rng, 64), // HMAC block size
        5 => gen_bytes(rng, 65), // longer keys are hashed first
        _ => rng.bytes32().to_vec(),
    }
}

fn gen_nonce(rng: &mut Rng) -> Vec<u8> {
    match rng.below(12) {
        0 | 1 => vec![1],
        2 | 3 => vec![2],
        4 => vec![],
        5 => gen_bytes(rng, 31),
        6 => gen_bytes(rng, 33),
        7 => vec![0; 32],
        8 => {
            let mut n = vec![1u8];
            n.extend(gen_key(rng).as_bytes().iter().take(31));
            n.resize(32, b'K');
            n
        }
        _ => rng.bytes32().to_vec(),
    }
}

fn arr32(v: &[u8]) -> [u8; 32] {
    let mut a = [0u8; 32];
    a.copy_from_slice(v);
    a
}

// ------------------------------------------------------------------ gen: correspondence cases

fn gen(args: &Args) {
    let mut rng = Rng::new(args.seed ^ 0x17);
    let mut kinds: BTreeMap<&'static str, u64> = BTreeMap::new();
    let mut outcomes: BTreeMap<String, u64> = BTreeMap::new();
    for i in 0..args.n {
        match i % 4 {
            0 => {
                let (secret, nonce, rs) = (gen_secret(&mut rng), gen_nonce(&mut rng), gen_rs(&mut rng));
                let tc = core_tag(&secret, &nonce, &rs);
                let tl = lss_tag(&secret, &nonce, &rs);
                let (mut client, mut server) = (None, None);
                if let Some(s) = secret32(&secret) {
                    let h = ExternalPersistHelper::new(s);
                    if nonce == [1u8] {
                        client = Some(hex::encode(h.client_hmac(&muts(&rs))));
                    }
                    if nonce == [2u8] {
                        server = Some(hex::encode(h.server_hmac(&muts(&rs))));
                    }
                }
                *kinds.entry("shared").or_default() += 1;
                emit("CASE", json!({
                    "kind": "shared", "secret": hex::encode(&secret), "nonce": hex::encode(&nonce),
                    "rs": j_rs(&rs), "tag_core": hex::encode(&tc), "tag_lss": hex::encode(&tl),
                    "client": client, "server": server,
                    "coq": format!("CShared {} {} {}", coq_bytes(&secret), coq_bytes(&nonce), coq_rs(&rs)),
                }));
            }
            1 => {
                let secret = rng.bytes32();
                let nn = *rng.pick(&[0usize, 1, 1, 1, 2]);
                let nonces: Vec<[u8; 32]> = (0..nn)
                    .map(|_| if rng.chance(1, 8) { [0u8; 32] } else { rng.bytes32() })
                    .collect();
                let rs = gen_rs(&mut rng);
                let eff = nonces.last().cloned().unwrap_or([0u8; 32]);
                let good = core_tag(&secret, &eff, &rs);
                let (what, received): (&str, Vec<u8>) = match rng.below(13) {
                    11 | 12 => {
                        let mut g = good.clone();
                        let p = (i / 4) % 32;
                        g[p] ^= 1 << rng.below(8);
                        ("bitflip", g)
                    }
                    0 | 1 | 2 => ("good", good.clone()),
                    3 => ("truncated", good[..31].to_vec()),
                    4 => {
                        let mut g = good.clone();
                        g.push(0);
                        ("extended", g)
                    }
                    5 => ("empty", vec![]),
                    6 => {
                        // tag of an earlier nonce of this helper (or of a random one)
                        let old = if nonces.len() >= 2 { nonces[0] } else { rng.bytes32() };
                        ("stale-nonce", core_tag(&secret, &old, &rs))
                    }
                    7 => ("client-tag", core_tag(&secret, &[1], &rs)),
                    8 => ("zero-nonce-tag", core_tag(&secret, &[0u8; 32], &rs)),
                    9 => {
                        // every tag position in turn over the run
                        let mut g = good.clone();
                        let p = (i / 4) % 32;
                        g[p] ^= 1 << rng.below(8);
                        ("bitflip", g)
                    }
                    _ => ("random", rng.bytes32().to_vec()),
                };
                let ok = helper_check(secret, &nonces, &rs, &received);
                *kinds.entry("check").or_default() += 1;
                *outcomes.entry(format!("check:{}:{}", what, ok)).or_default() += 1;
                let ns: Vec<String> = nonces.iter().map(|n| coq_bytes(n)).collect();
                emit("CASE", json!({
                    "kind": "check", "secret": hex::encode(secret),
                    "nonces": nonces.iter().map(hex::encode).collect::<Vec<_>>(),
                    "rs": j_rs(&rs), "received": hex::encode(&received), "what": what, "accepted": ok,
                    "coq": format!("CCheck {} {} {} {}", coq_bytes(&secret), coq_list(&ns), coq_rs(&rs), coq_bytes(&received)),
                }));
            }
            2 => {
                let (secret, key, ver, val) = (gen_secret(&mut rng), gen_key(&mut rng), gen_version(&mut rng), gen_value(&mut rng));
                let stored = put_value(&secret, &key, ver, &val);
                *kinds.entry("value").or_default() += 1;
                emit("CASE", json!({
                    "kind": "value", "secret": hex::encode(&secret), "key": hex::encode(key.as_bytes()),
                    "ver": ver.to_string(), "val": hex::encode(&val), "stored": hex::encode(&stored),
                    "coq": format!("CValue {} {} {} {}", coq_bytes(&secret), coq_bytes(key.as_bytes()), ver, coq_bytes(&val)),
                }));
            }
            _ => {
                let (secret, key, ver, val) = (gen_secret(&mut rng), gen_key(&mut rng), gen_version(&mut rng), gen_value(&mut rng));
                let honest = put_value(&secret, &key, ver, &val);
                let (what, k2, v2, stored): (&str, String, u64, Vec<u8>) = match rng.below(16) {
                    0 | 1 | 2 => ("honest", key.clone(), ver, honest.clone()),
                    14 | 15 => {
                        let mut s = honest.clone();
                        let p = s.len() - 1 - (i / 4) % 32;
                        s[p] ^= 1 << rng.below(8);
                        ("tagflip", key.clone(), ver, s)
                    }
                    3 => {
                        let l = *rng.pick(&[0usize, 1, 30, 31]);
                        ("short", key.clone(), ver, gen_bytes(&mut rng, l))
                    }
                    4 => ("len32", key.clone(), ver, gen_bytes(&mut rng, 32)),
                    5 => ("tag-only", key.clone(), ver, put_value(&secret, &key, ver, &[])),
                    6 => ("tag-only-cut", key.clone(), ver, put_value(&secret, &key, ver, &[])[1..].to_vec()),
                    7 => {
                        // a bit of the content, or every tag position in turn over the run
                        let mut s = honest.clone();
                        if !val.is_empty() && rng.chance(1, 2) {
                            let p = rng.below(val.len() as u64) as usize;
                            s[p] ^= 1 << rng.below(8);
                            ("valueflip", key.clone(), ver, s)
                        } else {
                            let p = s.len() - 1 - (i / 4) % 32;
                            s[p] ^= 1 << rng.below(8);
                            ("tagflip", key.clone(), ver, s)
                        }
                    }
                    8 => ("version+1", key.clone(), ver.wrapping_add(1), honest.clone()),
                    9 => ("other-key", gen_key(&mut rng), ver, honest.clone()),
                    10 => ("truncated", key.clone(), ver, honest[..honest.len() - 1].to_vec()),
                    11 => {
                        let mut s = honest.clone();
                        s.insert(0, 0);
                        ("extended-front", key.clone(), ver, s)
                    }
                    12 => {
                        let l = 33 + rng.below(40) as usize;
                        ("garbage", key.clone(), ver, gen_bytes(&mut rng, l))
                    }
                    _ => {
                        // re-framed read: one byte of the key moves into the version
                        match reframe(&key, ver, &val, key.len().saturating_sub(1)) {
                            Some((k2, v2, x2)) => {
                                let mut s = x2;
                                s.extend_from_slice(&honest[honest.len() - 32..]);
                                ("reframed", k2, v2, s)
                            }
                            None => ("honest", key.clone(), ver, honest.clone()),
                        }
                    }
                };
                let got = get_value(&secret, &k2, v2, &stored);
                *kinds.entry("get").or_default() += 1;
                *outcomes.entry(format!("get:{}:{}", what, if got.is_some() { "ok" } else { "err" })).or_default() += 1;
                emit("CASE", json!({
                    "kind": "get", "secret": hex::encode(&secret), "key": hex::encode(k2.as_bytes()),
                    "ver": v2.to_string(), "stored": hex::encode(&stored), "what": what,
                    "result": got.as_ref().map(hex::encode),
                    "coq": format!("CGet {} {} {} {}", coq_bytes(&secret), coq_bytes(k2.as_bytes()), v2, coq_bytes(&stored)),
                }));
            }
        }
    }
    emit("STATS", json!({"domain": "hmac-gen", "kinds": kinds, "outcomes": outcomes}));
}

/// the same bytes key ‖ be64 ver ‖ val read with a key of `nk` bytes
fn reframe(key: &str, ver: u64, val: &[u8], nk: usize) -> Option<(String, u64, Vec<u8>)> {
    let mut whole = key.as_bytes().to_vec();
    whole.extend_from_slice(&ver.to_be_bytes());
    whole.extend_from_slice(val);
    if nk == key.len() || nk + 8 > whole.len() {
        return None;
    }
    let k2 = String::from_utf8(whole[..nk].to_vec()).ok()?;
    let mut v = [0u8; 8];
    v.copy_from_slice(&whole[nk..nk + 8]);
    Some((k2, u64::from_be_bytes(v), whole[nk + 8..].to_vec()))
}

// ------------------------------------------------------------------ mon: the property on the implementation

struct Mon {
    tried: BTreeMap<String, u64>,
    accepted: BTreeMap<String, u64>,
    identical: u64,
    disagreements: u64,
    collisions: u64,
}

impl Mon {
    fn collision(&mut self, origin: &str, domain: &str, secret: &[u8], a: &Input, b: &Input) {
        self.collisions += 1;
        *self.accepted.entry(origin.to_string()).or_default() += 1;
        emit("COLLISION", json!({
            "origin": origin, "domain": domain, "secret": hex::encode(secret),
            "a": j_input(a), "b": j_input(b),
            "class": first_diff(a, b), "bytes_equal": ser_input(a) == ser_input(b),
            "coq": format!("CPair {} {} {}", coq_bytes(secret), coq_input(a), coq_input(b)),
        }));
    }
}

fn ascii_end(s: &str) -> bool {
    s.as_bytes().last().map_or(false, |c| *c < 0x80)
}

/// modifications of (nonce, records); each must make the tag of the original fail
fn shared_mutations(rng: &mut Rng, base: &Input) -> Vec<(&'static str, Input)> {
    let mut out: Vec<(&'static str, Input)> = vec![];
    let n = base.rs.len();
    let mut push = |name: &'static str, f: &mut dyn FnMut(&mut Input) -> bool| {
        let mut m = base.clone();
        if f(&mut m) {
            out.push((name, m));
        }
    };
    if n > 0 {
        let i = rng.below(n as u64) as usize;
        let j = rng.below(n as u64) as usize;
        let (r1, r2, r3) = (rng.next(), rng.next(), rng.next());
        push("flip-value-bit", &mut |m| {
            let x = &mut m.rs[i].2;
            if x.is_empty() {
                return false;
            }
            let p = (r1 % x.len() as u64) as usize;
            x[p] ^= 1 << (r2 % 8);
            true
        });
        push("flip-key-bit", &mut |m| {
            let mut k = m.rs[i].0.clone().into_bytes();
            let pos: Vec<usize> = (0..k.len()).filter(|p| k[*p] < 0x80).collect();
            if pos.is_empty() {
                return false;
            }
            let p = pos[(r1 % pos.len() as u64) as usize];
            k[p] ^= 1 << (r2 % 7);
            m.rs[i].0 = String::from_utf8(k).unwrap();
            true
        });
        push("flip-version-bit", &mut |m| {
            m.rs[i].1 ^= 1 << (r3 % 64);
            true
        });
        push("version+1", &mut |m| {
            m.rs[i].1 = m.rs[i].1.wrapping_add(1);
            true
        });
        push("version-1", &mut |m| {
            m.rs[i].1 = m.rs[i].1.wrapping_sub(1);
            true
        });
        push("swap-keys", &mut |m| {
            let (a, b) = (m.rs[i].0.clone(), m.rs[j].0.clone());
            m.rs[i].0 = b;
            m.rs[j].0 = a;
            true
        });
        push("swap-versions", &mut |m| {
            let (a, b) = (m.rs[i].1, m.rs[j].1);
            m.rs[i].1 = b;
            m.rs[j].1 = a;
            true
        });
        push("swap-values", &mut |m| {
            let (a, b) = (m.rs[i].2.clone(), m.rs[j].2.clone());
            m.rs[i].2 = b;
            m.rs[j].2 = a;
            true
        });
        push("swap-records", &mut |m| {
            m.rs.swap(i, j);
            true
        });
        push("rotate", &mut |m| {
            m.rs.rotate_left(1);
            true
        });
        push("drop-record", &mut |m| {
            m.rs.remove(i);
            true
        });
        push("dup-record", &mut |m| {
            let r = m.rs[i].clone();
            m.rs.insert(i, r);
            true
        });
        push("drop-all", &mut |m| {
            m.rs.clear();
            true
        });
        push("truncate-last-value", &mut |m| {
            let x = &mut m.rs[n - 1].2;
            if x.is_empty() {
                return false;
            }
            let cut = 1 + (r1 % x.len() as u64) as usize;
            x.truncate(x.len() - cut);
            true
        });
        push("truncate-value", &mut |m| {
            let x = &mut m.rs[i].2;
            if x.is_empty() {
                return false;
            }
            x.pop();
            true
        });
        push("truncate-key", &mut |m| {
            if !ascii_end(&m.rs[i].0) {
                return false;
            }
            m.rs[i].0.pop();
            true
        });
        push("extend-value", &mut |m| {
            m.rs[i].2.push((r2 % 256) as u8);
            true
        });
        push("extend-value-front", &mut |m| {
            m.rs[i].2.insert(0, (r2 % 256) as u8);
            true
        });
        // --- re-framings: the same bytes with other field boundaries
        push("reframe:key-version-left", &mut |m| {
            let (k, v, x) = m.rs[i].clone();
            if k.is_empty() || !ascii_end(&k) {
                return false;
            }
            match reframe(&k, v, &x, k.len() - 1) {
                Some(r) => {
                    m.rs[i] = r;
                    true
                }
                None => false,
            }
        });
        push("reframe:key-version-right", &mut |m| {
            let (k, v, x) = m.rs[i].clone();
            let d = 1 + (r1 % 3) as usize;
            match reframe(&k, v, &x, k.len() + d) {
                Some(r) => {
                    m.rs[i] = r;
                    true
                }
                None => false,
            }
        });
        push("reframe:merge", &mut |m| {
            if i + 1 >= n {
                return false;
            }
            let nxt = m.rs.remove(i + 1);
            ser_rec(&mut m.rs[i].2, &nxt);
            true
        });
        push("reframe:split", &mut |m| {
            let (k, v, x) = m.rs[i].clone();
            if x.len() < 8 {
                return false;
            }
            // value = x1 ‖ key' ‖ be64 ‖ x2 with key' a (possibly empty) UTF-8 string
            let p = (r1 % (x.len() as u64 - 7)) as usize;
            let maxk = x.len() - 8 - p;
            let mut kl = (r2 % (maxk as u64 + 1)) as usize;
            while kl > 0 && std::str::from_utf8(&x[p..p + kl]).is_err() {
                kl -= 1;
            }
            let k2 = String::from_utf8(x[p..p + kl].to_vec()).unwrap();
            let mut vb = [0u8; 8];
            vb.copy_from_slice(&x[p + kl..p + kl + 8]);
            m.rs[i] = (k, v, x[..p].to_vec());
            m.rs.insert(i + 1, (k2, u64::from_be_bytes(vb), x[p + kl + 8..].to_vec()));
            true
        });
        push("reframe:value-nextkey", &mut |m| {
            if i + 1 >= n {
                return false;
            }
            match m.rs[i].2.last().cloned() {
                Some(c) if c < 0x80 => {
                    m.rs[i].2.pop();
                    m.rs[i + 1].0.insert(0, c as char);
                    true
                }
                _ => {
                    let k = m.rs[i + 1].0.clone();
                    match k.chars().next() {
                        Some(c) => {
                            let l = c.len_utf8();
                            m.rs[i].2.extend_from_slice(&k.as_bytes()[..l]);
                            m.rs[i + 1].0 = k[l..].to_string();
                            true
                        }
                        None => false,
                    }
                }
            }
        });
        push("reframe:nonce-key-right", &mut |m| {
            let k = m.rs[0].0.clone();
            match k.chars().next() {
                Some(c) => {
                    let l = c.len_utf8();
                    m.nonce.extend_from_slice(&k.as_bytes()[..l]);
                    m.rs[0].0 = k[l..].to_string();
                    true
                }
                None => false,
            }
        });
        push("reframe:nonce-key-left", &mut |m| match m.nonce.last().cloned() {
            Some(c) if c < 0x80 => {
                m.nonce.pop();
                m.rs[0].0.insert(0, c as char);
                true
            }
            _ => false,
        });
        push("reframe:put-tag-as-read-response", &mut |m| {
            // nonce [1] ‖ 31 key bytes becomes a 32-byte read nonce
            let k = m.rs[0].0.clone();
            if m.nonce != [1u8] || k.len() < 31 || !k.is_char_boundary(31) {
                return false;
            }
            m.nonce.extend_from_slice(&k.as_bytes()[..31]);
            m.rs[0].0 = k[31..].to_string();
            true
        });
    }
    push("add-empty-record", &mut |m| {
        m.rs.push((String::new(), 0, vec![]));
        true
    });
    push("add-record", &mut |m| {
        m.rs.insert(0, ("x".to_string(), 1, vec![1]));
        true
    });
    let (r1, r2) = (rng.next(), rng.next());
    push("flip-nonce-bit", &mut |m| {
        if m.nonce.is_empty() {
            return false;
        }
        let p = (r1 % m.nonce.len() as u64) as usize;
        m.nonce[p] ^= 1 << (r2 % 8);
        true
    });
    let fresh = rng.bytes32();
    push("replay-under-fresh-nonce", &mut |m| {
        let l = m.nonce.len();
        m.nonce = fresh[..l.min(32)].to_vec();
        m.nonce.resize(l, 0x5a);
        true
    });
    push("client-tag-as-server-tag", &mut |m| {
        if m.nonce == [1u8] {
            m.nonce = vec![2];
            true
        } else if m.nonce == [2u8] {
            m.nonce = vec![1];
            true
        } else {
            false
        }
    });
    push("put-tag-as-read-response-random-nonce", &mut |m| {
        if m.nonce.len() == 1 {
            m.nonce = fresh.to_vec();
            true
        } else {
            false
        }
    });
    push("read-response-as-put-tag", &mut |m| {
        if m.nonce.len() == 32 {
            m.nonce = vec![1];
            true
        } else {
            false
        }
    });
    out
}

fn mon(args: &Args) {
    let mut rng = Rng::new(args.seed ^ 0x1717);
    let mut st = Mon { tried: BTreeMap::new(), accepted: BTreeMap::new(), identical: 0, disagreements: 0, collisions: 0 };
    let mut incomplete = 0u64;

    // --- the witnesses of Props/C17.v on the real functions
    let s32 = [0x33u8; 32];
    {
        // 1: key/version boundary, stored value
        let a: Rec = ("ab".to_string(), 0, vec![5, 6, 7]);
        let b: Rec = ("a".to_string(), 98u64 << 56, vec![0, 5, 6, 7]);
        let stored = put_value(&s32, &a.0, a.1, &a.2);
        let mut served = b.2.clone();
        served.extend_from_slice(&stored[stored.len() - 32..]);
        let got = get_value(&s32, &b.0, b.1, &served);
        let ia = Input { nonce: vec![], rs: vec![a] };
        let ib = Input { nonce: vec![], rs: vec![b.clone()] };
        let ok = got.as_deref() == Some(&b.2[..]);
        emit("WITNESS", json!({"index": 1, "collides": ok}));
        if ok {
            st.collision("witness:1", "value", &s32, &ia, &ib);
        }
    }
    {
        // 2: merge/split, client and server tag of a put
        let a = Input { nonce: vec![1], rs: vec![("a".to_string(), 1, vec![120]), ("b".to_string(), 2, vec![121])] };
        let mut x = vec![120u8, 98];
        x.extend_from_slice(&2u64.to_be_bytes());
        x.push(121);
        let b = Input { nonce: vec![1], rs: vec![("a".to_string(), 1, x)] };
        let h = ExternalPersistHelper::new(s32);
        let ok = h.client_hmac(&muts(&a.rs)) == h.client_hmac(&muts(&b.rs))
            && h.server_hmac(&muts(&a.rs)) == h.server_hmac(&muts(&b.rs))
            && lss_tag(&s32, &[1], &a.rs) == lss_tag(&s32, &[1], &b.rs);
        emit("WITNESS", json!({"index": 2, "collides": ok}));
        if ok {
            st.collision("witness:2", "shared", &s32, &a, &b);
        }
    }
    {
        // 3: nonce/key boundary
        let a = Input { nonce: vec![1], rs: vec![("Kk".to_string(), 7, vec![9])] };
        let b = Input { nonce: vec![1, 75], rs: vec![("k".to_string(), 7, vec![9])] };
        let ok = core_tag(&s32, &a.nonce, &a.rs) == core_tag(&s32, &b.nonce, &b.rs)
            && lss_tag(&s32, &a.nonce, &a.rs) == lss_tag(&s32, &b.nonce, &b.rs);
        emit("WITNESS", json!({"index": 3, "collides": ok}));
        if ok {
            st.collision("witness:3", "shared", &s32, &a, &b);
        }
    }
    {
        // 4: the client tag of a put accepted by check_hmac as a read response
        let k31 = "K".repeat(31);
        let a = Input { nonce: vec![1], rs: vec![(format!("{}k", k31), 3, vec![9, 9])] };
        let mut nonce = vec![1u8];
        nonce.extend_from_slice(k31.as_bytes());
        let b = Input { nonce: nonce.clone(), rs: vec![("k".to_string(), 3, vec![9, 9])] };
        let h = ExternalPersistHelper::new(s32);
        let tag = h.client_hmac(&muts(&a.rs));
        let ok = helper_check(s32, &[arr32(&nonce)], &b.rs, &tag);
        emit("WITNESS", json!({"index": 4, "collides": ok}));
        if ok {
            st.collision("witness:4", "shared", &s32, &a, &b);
        }
    }

    for case in 0..args.n {
        // ---------------- shared tag
        let secret = if rng.chance(5, 6) { rng.bytes32().to_vec() } else { gen_secret(&mut rng) };
        let mut base = Input { nonce: gen_nonce(&mut rng), rs: gen_rs(&mut rng) };
        if case % 5 == 0 && !base.rs.is_empty() {
            // a put of realistically long keys
            base.nonce = vec![1];
            base.rs[0].0 = format!("node/entry/{}", hex::encode(rng.bytes32()));
        }
        let tag = core_tag(&secret, &base.nonce, &base.rs);
        if !verify(&secret, &base, &tag, &mut st.disagreements) {
            incomplete += 1;
        }
        for (name, m) in shared_mutations(&mut rng, &base) {
            if m == base {
                st.identical += 1;
                continue;
            }
            *st.tried.entry(name.to_string()).or_default() += 1;
            if verify(&secret, &m, &tag, &mut st.disagreements) {
                st.collision(name, "shared", &secret, &base, &m);
            }
        }
        // a malformed tag (prefix / extension of the good one) authenticates nothing, in particular
        // not a modified record list
        if let Some(s) = secret32(&secret) {
            let n32 = if base.nonce.len() == 32 { arr32(&base.nonce) } else { rng.bytes32() };
            let good = core_tag(&secret, &n32, &base.rs);
            let mut other = base.rs.clone();
            other.push(("k".to_string(), 1, vec![1]));
            let mut ext = good.clone();
            ext.push(0);
            for (name, recv) in [("malformed-tag:empty", vec![]), ("malformed-tag:1", good[..1].to_vec()),
                                 ("malformed-tag:31", good[..31].to_vec()), ("malformed-tag:33", ext)] {
                for rs in [&base.rs, &other] {
                    *st.tried.entry(name.to_string()).or_default() += 1;
                    if helper_check(s, &[n32], rs, &recv) {
                        *st.accepted.entry(name.to_string()).or_default() += 1;
                        emit("FORGERY", json!({"what": name, "secret": hex::encode(&secret), "nonce": hex::encode(n32),
                            "rs": j_rs(rs), "received": hex::encode(&recv), "good_tag_for": j_rs(&base.rs)}));
                    }
                }
            }
        }
        // client and server tags of one put differ
        if let Some(s) = secret32(&secret) {
            let h = ExternalPersistHelper::new(s);
            *st.tried.entry("client-vs-server".to_string()).or_default() += 1;
            if h.client_hmac(&muts(&base.rs)) == h.server_hmac(&muts(&base.rs)) {
                let a = Input { nonce: vec![1], rs: base.rs.clone() };
                let b = Input { nonce: vec![2], rs: base.rs.clone() };
                st.collision("client-vs-server", "shared", &secret, &a, &b);
            }
        }

        // ---------------- stored values
        let secret = gen_secret(&mut rng);
        let (key, ver, val) = (gen_key(&mut rng), gen_version(&mut rng), gen_value(&mut rng));
        let stored = put_value(&secret, &key, ver, &val);
        let tag = stored[stored.len() - 32..].to_vec();
        if get_value(&secret, &key, ver, &stored).as_deref() != Some(&val[..]) {
            incomplete += 1;
        }
        let (k_o, v_o, x_o) = (gen_key(&mut rng), gen_version(&mut rng), gen_value(&mut rng));
        let stored_o = put_value(&secret, &k_o, v_o, &x_o);
        let mut reads: Vec<(&'static str, String, u64, Vec<u8>)> = vec![];
        {
            let mut s = stored.clone();
            let p = rng.below(s.len() as u64) as usize;
            s[p] ^= 1 << rng.below(8);
            reads.push(("flip-stored-bit", key.clone(), ver, s));
            if !val.is_empty() {
                let mut s = stored.clone();
                let p = rng.below(val.len() as u64) as usize;
                s[p] ^= 1 << rng.below(8);
                reads.push(("flip-value-bit", key.clone(), ver, s));
            }
            let mut s = stored.clone();
            let p = s.len() - 1 - rng.below(32) as usize;
            s[p] ^= 1 << rng.below(8);
            reads.push(("flip-tag-bit", key.clone(), ver, s));
            reads.push(("truncate-1", key.clone(), ver, stored[..stored.len() - 1].to_vec()));
            reads.push(("truncate-front", key.clone(), ver, stored[1..].to_vec()));
            reads.push(("truncate-32", key.clone(), ver, stored[..stored.len() - 32].to_vec()));
            reads.push(("tag-only", key.clone(), ver, tag.clone()));
            let mut s = stored.clone();
            s.insert(0, rng.below(256) as u8);
            reads.push(("extend-front", key.clone(), ver, s));
            let mut s = stored.clone();
            s.push(rng.below(256) as u8);
            reads.push(("extend-back", key.clone(), ver, s));
            let mut s = val.clone();
            s.push(rng.below(256) as u8);
            s.extend_from_slice(&tag);
            reads.push(("extend-value", key.clone(), ver, s));
            reads.push(("version+1", key.clone(), ver.wrapping_add(1), stored.clone()));
            reads.push(("version-1", key.clone(), ver.wrapping_sub(1), stored.clone()));
            reads.push(("flip-version-bit", key.clone(), ver ^ (1 << rng.below(64)), stored.clone()));
            reads.push(("other-key", gen_key(&mut rng), ver, stored.clone()));
            let mut kb = key.clone().into_bytes();
            if let Some(p) = (0..kb.len()).find(|p| kb[*p] < 0x80) {
                kb[p] ^= 1;
                reads.push(("flip-key-bit", String::from_utf8(kb).unwrap(), ver, stored.clone()));
            }
            reads.push(("swap-item", k_o.clone(), v_o, stored.clone()));
            reads.push(("swap-key-only", k_o.clone(), ver, stored.clone()));
            reads.push(("swap-version-only", key.clone(), v_o, stored.clone()));
            let mut s = x_o.clone();
            s.extend_from_slice(&tag);
            reads.push(("swap-tag", k_o.clone(), v_o, s));
            let mut s = val.clone();
            s.extend_from_slice(&stored_o[stored_o.len() - 32..]);
            reads.push(("other-items-tag", key.clone(), ver, s));
            // re-framings of the same MACed bytes
            for (name, nk) in [
                ("reframe:key-version-left", key.len().wrapping_sub(1)),
                ("reframe:key-version-left-2", key.len().wrapping_sub(2)),
                ("reframe:key-version-right", key.len() + 1),
                ("reframe:key-version-right-8", key.len() + 8),
                ("reframe:key-version-right-9", key.len() + 9),
                ("reframe:key-empty", 0usize),
            ] {
                if nk > key.len() + 9 {
                    continue;
                }
                if let Some((k2, v2, x2)) = reframe(&key, ver, &val, nk) {
                    let mut s = x2;
                    s.extend_from_slice(&tag);
                    reads.push((name, k2, v2, s));
                }
            }
        }
        let ia = Input { nonce: vec![], rs: vec![(key.clone(), ver, val.clone())] };
        for (name, k2, v2, st2) in reads {
            *st.tried.entry(format!("value:{}", name)).or_default() += 1;
            if let Some(y) = get_value(&secret, &k2, v2, &st2) {
                let ib = Input { nonce: vec![], rs: vec![(k2, v2, y)] };
                if ia == ib {
                    st.identical += 1;
                    continue;
                }
                st.collision(&format!("value:{}", name), "value", &secret, &ia, &ib);
            }
        }
    }
    emit("STATS", json!({
        "domain": "hmac-mon", "bases": args.n, "tried": st.tried, "accepted": st.accepted,
        "identical_skipped": st.identical, "verifier_disagreements": st.disagreements,
        "honest_rejected": incomplete, "collisions": st.collisions,
    }));
}

// ------------------------------------------------------------------ ref: reference HMAC-SHA256

fn reference(args: &Args) {
    let path = args.rest.get(0).expect("ref <file>");
    let data: Vec<(String, String)> = serde_json::from_str(&std::fs::read_to_string(path).expect("read")).expect("json");
    let mut tags = vec![];
    for (k, m) in data {
        let key = hex::decode(k).expect("hex");
        let msg = hex::decode(m).expect("hex");
        let mut e = HmacEngine::<Sha256>::new(&key);
        e.input(&msg);
        tags.push(hex::encode(Hmac::<Sha256>::from_engine(e).to_byte_array()));
    }
    emit("REF", json!({ "tags": tags }));
}

fn main() {
    let argv: Vec<String> = std::env::args().collect();
    let args = parse_args(&argv[2..]);
    match argv[1].as_str() {
        "gen" => gen(&args),
        "mon" => mon(&args),
        "net" => net::run(&args),
        "ref" => reference(&args),
        other => panic!("unknown sub-domain {}", other),
    }
}

// ------------------------------------------------------------------ net: reads over the wire
//
// "A response to a read is accepted only if it authenticates under the fresh nonce of that
// request."  The nonce is chosen by the client side of each read path, so the paths themselves
// are driven here, against an honest in-memory storage service (the tag logic of lssd, computed
// with the library's own compute_shared_hmac) that sits behind a man in the middle.  The man in
// the middle sees requests and replies, does not know any secret, and can (a) pass traffic
// through, (b) answer a read with a reply it recorded earlier, (c) forward a read with another
// nonce.  Monitors: every read of a client carries a 32-byte nonce not used before by that
// client; (b) and (c) are refused; the genuine reply is accepted and is the current state.
mod net {
    use super::*;
    use lightning_signer::bitcoin::secp256k1::{PublicKey, Secp256k1, SecretKey};
    use lightning_signer::persist::SimpleEntropy;
    use lightning_signer::signer::derive::KeyDerivationStyle;
    use lightning_signer::signer::my_keys_manager::MyKeysManager;
    use lightning_signer::util::test_utils::make_genesis_starting_time_factory;
    use std::sync::{Arc, Mutex};
    use tonic::transport::server::TcpIncoming;
    use tonic::transport::Server;
    use tonic::{Request, Response, Status};
    use vls_frontend::external_persist::lss::Client as FrontendLssClient;
    use vls_frontend::external_persist::ExternalPersist;
    use vls_util::persist::ExternalPersistWithHelper;

    #[derive(Clone, Debug)]
    enum Mode {
        Honest,
        Replay(usize), // index into the replies recorded for this client
        SwapNonce([u8; 32]),
        /// the hop modifies the reply of the honest server (records and / or tag)
        Tamper(&'static str, u64),
        /// the hop forwards the read with a key prefix that matches nothing: the server's authentic
        /// reply for the right nonce, with no records (observation only, see the driver)
        SwapPrefix,
        /// a dishonest storage server (it holds the shared secret, not the record secret): the get
        /// reply carries a fabricated record, under a correct reply tag for the request's nonce
        ForgeGet(Forge),
        /// the same server answers a put with a conflict list that carries a fabricated record
        ForgeConflict(Forge),
    }

    #[derive(Clone, Debug)]
    struct Forge {
        key: String,
        version: i64,
        /// bytes of the server's choice, or the stored bytes (value ‖ record tag) of another entry
        value: Result<Vec<u8>, String>,
    }

    /// modifications of a reply by the hop; every one that changes the reply must be refused
    const TAMPERS: &[&str] = &[
        "drop-all-keep-tag", "drop-all-empty-tag", "drop-all-other-nonce-tag", "drop-last", "drop-first",
        "flip-value-bit", "bump-version", "swap-keys", "reorder", "dup-record", "flip-tag-bit", "empty-tag",
        "truncate-tag",
    ];

    type Wire = (Vec<(String, i64, Vec<u8>)>, Vec<u8>);
    fn wire_of(r: &GetReply) -> Wire {
        (r.kvs.iter().map(|kv| (kv.key.clone(), kv.version, kv.value.clone())).collect(), r.hmac.clone())
    }

    struct Inner {
        server_key: SecretKey,
        store: Mutex<BTreeMap<Vec<u8>, BTreeMap<String, Value>>>, // per client id
        mode: Mutex<Mode>,
        wire_nonces: Mutex<BTreeMap<Vec<u8>, Vec<Vec<u8>>>>, // per client id, as sent
        recorded: Mutex<BTreeMap<Vec<u8>, Vec<GetReply>>>,   // per client id, as seen on the wire
        last: Mutex<Option<(Wire, Wire)>>, // (what the server authenticated, what the hop delivered) of the last read
        last_conflict: Mutex<Option<Vec<(String, i64, Vec<u8>)>>>, // the conflict list of the last refused put
    }

    #[derive(Clone)]
    struct Service(Arc<Inner>);

    impl Service {
        fn shared_secret(&self, client_id: &[u8]) -> Result<Vec<u8>, Status> {
            let id = PublicKey::from_slice(client_id).map_err(|_| Status::unauthenticated("client id"))?;
            Ok(PrivAuth::new_for_server(&self.0.server_key, &id).shared_secret)
        }
    }

    #[tonic::async_trait]
    impl LightningStorage for Service {
        async fn ping(&self, request: Request<PingRequest>) -> Result<Response<PingReply>, Status> {
            Ok(Response::new(PingReply { message: request.into_inner().message }))
        }

        async fn info(&self, _request: Request<InfoRequest>) -> Result<Response<InfoReply>, Status> {
            let secp = Secp256k1::new();
            let server_id = PublicKey::from_secret_key(&secp, &self.0.server_key).serialize().to_vec();
            Ok(Response::new(InfoReply { version: "0.1".to_string(), server_id }))
        }

        async fn get(&self, request: Request<GetRequest>) -> Result<Response<GetReply>, Status> {
            let request = request.into_inner();
            let auth = request.auth.clone().ok_or_else(|| Status::invalid_argument("missing auth"))?;
            let cid = auth.client_id.clone();
            // --- the man in the middle sees the request
            self.0.wire_nonces.lock().unwrap().entry(cid.clone()).or_default().push(request.nonce.clone());
            let mode = self.0.mode.lock().unwrap().clone();
            let forwarded_nonce = match &mode {
                Mode::Replay(k) => {
                    let rec = self.0.recorded.lock().unwrap();
                    let reply = rec.get(&cid).and_then(|v| v.get(*k)).cloned().expect("nothing recorded");
                    return Ok(Response::new(reply));
                }
                Mode::SwapNonce(n) => n.to_vec(),
                _ => request.nonce.clone(),
            };
            let prefix = match &mode {
                Mode::SwapPrefix => "\u{10ffff}no-such-key".to_string(),
                _ => request.key_prefix.clone(),
            };
            // --- the honest server (lssd: get_with_prefix, compute_shared_hmac over the request nonce)
            let secret = self.shared_secret(&cid)?;
            if auth.token != PrivAuth::new_for_server(&self.0.server_key, &PublicKey::from_slice(&cid).unwrap()).auth_token() {
                return Err(Status::invalid_argument("invalid auth token"));
            }
            let kvs: Vec<(String, Value)> = self.0.store.lock().unwrap().entry(cid.clone()).or_default().iter()
                .filter(|(k, _)| k.starts_with(&prefix))
                .map(|(k, v)| (k.clone(), v.clone()))
                .collect();
            let hmac = lss_util::compute_shared_hmac(&secret, &forwarded_nonce, &kvs);
            if let Mode::ForgeGet(f) = &mode {
                // the fabricated record replaces the entry of its key or is added; the reply tag is right
                let value = match &f.value {
                    Ok(b) => b.clone(),
                    Err(k) => kvs.iter().find(|(kk, _)| kk == k).map(|(_, v)| v.value.clone()).unwrap_or_default(),
                };
                let mut forged: Vec<(String, Value)> = kvs.iter().filter(|(k, _)| *k != f.key).map(|(k, v)| (k.clone(), v.clone())).collect();
                forged.push((f.key.clone(), Value { version: f.version, value }));
                forged.sort_by(|a, b| a.0.cmp(&b.0));
                let tag = lss_util::compute_shared_hmac(&secret, &request.nonce, &forged);
                let to_proto = |l: &Vec<(String, Value)>| l.iter().map(|(k, v)| KeyValue { key: k.clone(), version: v.version, value: v.value.clone() }).collect::<Vec<_>>();
                let honest = GetReply { kvs: to_proto(&kvs), hmac };
                let delivered = GetReply { kvs: to_proto(&forged), hmac: tag };
                *self.0.last.lock().unwrap() = Some((wire_of(&honest), wire_of(&delivered)));
                return Ok(Response::new(delivered));
            }
            let kvs_proto = kvs.into_iter().map(|(key, v)| KeyValue { key, version: v.version, value: v.value }).collect();
            let reply = GetReply { kvs: kvs_proto, hmac };
            // --- the man in the middle records what passes, or modifies it
            let mut delivered = reply.clone();
            match &mode {
                Mode::Honest => self.0.recorded.lock().unwrap().entry(cid).or_default().push(reply.clone()),
                Mode::Tamper(kind, r) => {
                    let n = delivered.kvs.len();
                    let i = if n > 0 { (*r % n as u64) as usize } else { 0 };
                    match *kind {
                        "drop-all-keep-tag" => delivered.kvs.clear(),
                        "drop-all-empty-tag" => {
                            delivered.kvs.clear();
                            delivered.hmac.clear();
                        }
                        "drop-all-other-nonce-tag" => {
                            // the server's own tag for "no records" under another nonce (what it answers to
                            // a read of an unused prefix)
                            let other: Vec<u8> = request.nonce.iter().map(|b| b ^ 0x5a).collect();
                            delivered.kvs.clear();
                            delivered.hmac = lss_util::compute_shared_hmac(&secret, &other, &[]);
                        }
                        "drop-last" => {
                            delivered.kvs.pop();
                        }
                        "drop-first" if n > 0 => {
                            delivered.kvs.remove(0);
                        }
                        "flip-value-bit" if n > 0 && !delivered.kvs[i].value.is_empty() => {
                            let l = delivered.kvs[i].value.len();
                            delivered.kvs[i].value[(*r >> 8) as usize % l] ^= 1 << (*r >> 40) % 8;
                        }
                        "bump-version" if n > 0 => delivered.kvs[i].version += 1,
                        "swap-keys" if n > 1 => {
                            let j = (i + 1) % n;
                            let (a, b) = (delivered.kvs[i].key.clone(), delivered.kvs[j].key.clone());
                            delivered.kvs[i].key = b;
                            delivered.kvs[j].key = a;
                        }
                        "reorder" if n > 1 => delivered.kvs.rotate_left(1),
                        "dup-record" if n > 0 => {
                            let kv = delivered.kvs[i].clone();
                            delivered.kvs.insert(i, kv);
                        }
                        "flip-tag-bit" if !delivered.hmac.is_empty() => {
                            let l = delivered.hmac.len();
                            delivered.hmac[(*r % l as u64) as usize] ^= 1 << (*r >> 40) % 8;
                        }
                        "empty-tag" => delivered.hmac.clear(),
                        "truncate-tag" => {
                            delivered.hmac.pop();
                        }
                        _ => {}
                    }
                }
                _ => {}
            }
            *self.0.last.lock().unwrap() = Some((wire_of(&reply), wire_of(&delivered)));
            Ok(Response::new(delivered))
        }

        async fn put(&self, request: Request<PutRequest>) -> Result<Response<PutReply>, Status> {
            let request = request.into_inner();
            let auth = request.auth.ok_or_else(|| Status::invalid_argument("missing auth"))?;
            let secret = self.shared_secret(&auth.client_id)?;
            let kvs: Vec<(String, Value)> = request.kvs.into_iter()
                .map(|kv| (kv.key, Value { version: kv.version, value: kv.value }))
                .collect();
            if lss_util::compute_shared_hmac(&secret, &[0x01], &kvs) != request.hmac {
                return Err(Status::invalid_argument("invalid client HMAC"));
            }
            let mut all = self.0.store.lock().unwrap();
            let store = all.entry(auth.client_id.clone()).or_default();
            let mode = self.0.mode.lock().unwrap().clone();
            if let Mode::ForgeConflict(f) = &mode {
                let value = match &f.value {
                    Ok(b) => b.clone(),
                    Err(k) => store.get(k).map(|v| v.value.clone()).unwrap_or_default(),
                };
                *self.0.last_conflict.lock().unwrap() = Some(vec![(f.key.clone(), f.version, value.clone())]);
                let conflicts = vec![KeyValue { key: f.key.clone(), version: f.version, value }];
                return Ok(Response::new(PutReply { success: false, hmac: vec![], conflicts }));
            }
            // lssd: a conflicting put is answered with the existing records (a key that does not exist
            // yet: version -1, no value)
            let mut conflicts = vec![];
            for (key, value) in kvs.iter() {
                let expected = store.get(key).map(|v| v.version + 1).unwrap_or(0);
                if value.version != expected {
                    conflicts.push(match store.get(key) {
                        Some(v) => KeyValue { key: key.clone(), version: v.version, value: v.value.clone() },
                        None => KeyValue { key: key.clone(), version: -1, value: vec![] },
                    });
                }
            }
            if !conflicts.is_empty() {
                *self.0.last_conflict.lock().unwrap() =
                    Some(conflicts.iter().map(|kv| (kv.key.clone(), kv.version, kv.value.clone())).collect());
                return Ok(Response::new(PutReply { success: false, hmac: vec![], conflicts }));
            }
            for (key, value) in kvs.iter() {
                store.insert(key.clone(), value.clone());
            }
            let hmac = lss_util::compute_shared_hmac(&secret, &[0x02], &kvs);
            Ok(Response::new(PutReply { success: true, hmac, conflicts: vec![] }))
        }
    }

    type State = BTreeMap<String, (u64, Vec<u8>)>;

    #[derive(Clone, Copy, PartialEq, Debug)]
    enum Path {
        Priv,     // PrivClient::put / PrivClient::get
        Direct,   // lss::Client (ExternalPersist) + helper.new_nonce(SimpleEntropy) + check_hmac
        InitState, // ExternalPersistWithHelper::init_state, as vlsd/src/grpc/signer.rs connect()
    }

    enum Reader {
        Priv { client: PrivClient, hmac_secret: [u8; 32] },
        Helper { ep: ExternalPersistWithHelper },
    }

    fn j_state(s: &State) -> serde_json::Value {
        json!(s.iter().map(|(k, (v, x))| json!([k, v, hex::encode(x)])).collect::<Vec<_>>())
    }

    /// one read through the real client path: Some(state) when the reply was accepted
    async fn read(path: Path, reader: &mut Reader, given_nonce: &mut Option<Vec<u8>>) -> Result<State, String> {
        match (path, reader) {
            (Path::Priv, Reader::Priv { client, hmac_secret }) => {
                match client.get(&hmac_secret[..], "".to_string()).await {
                    Ok(kvs) => Ok(kvs.into_iter().map(|(k, v)| (k, (v.version as u64, v.value))).collect()),
                    Err(ClientError::InvalidServerHmac()) => Err("refused:InvalidServerHmac".to_string()),
                    Err(ClientError::InvalidHmac(_, _)) => Err("refused:InvalidHmac".to_string()),
                    Err(e) => Err(format!("error:{:?}", e)),
                }
            }
            (Path::Direct, Reader::Helper { ep }) => {
                // the sequence of vls-util init_state / vls-proxy, spelled out so that the nonce handed
                // to Client::get is known and can be compared with the one on the wire
                let client = ep.persist_client.lock().await;
                let mut helper = ep.helper.clone();
                let nonce = helper.new_nonce(&SimpleEntropy::new());
                *given_nonce = Some(nonce.to_vec());
                match client.get("".to_string(), &nonce).await {
                    Ok((muts, tag)) => {
                        if helper.check_hmac(&muts, tag) {
                            Ok(muts.into_iter().collect())
                        } else {
                            Err("refused:check_hmac".to_string())
                        }
                    }
                    Err(e) => Err(format!("error:{:?}", e)),
                }
            }
            (Path::InitState, Reader::Helper { ep }) => {
                // a fresh local state map per read, so that what this read accepted is visible
                let ep2 = ExternalPersistWithHelper {
                    persist_client: ep.persist_client.clone(),
                    state: Arc::new(Mutex::new(Default::default())),
                    helper: ep.helper.clone(),
                };
                let ep3 = ep2.clone();
                match tokio::spawn(async move { ep3.init_state().await }).await {
                    Ok(()) => Ok(ep2.state.lock().unwrap().clone()),
                    Err(e) if e.is_panic() => Err("refused:init_state-assert".to_string()),
                    Err(e) => Err(format!("error:{:?}", e)),
                }
            }
            _ => unreachable!(),
        }
    }

    async fn write(path: Path, reader: &mut Reader, kvs: Vec<(String, u64, Vec<u8>)>) -> Result<(), String> {
        match (path, reader) {
            (Path::Priv, Reader::Priv { client, hmac_secret }) => {
                let kvs = kvs.into_iter().map(|(k, v, x)| (k, Value { version: v as i64, value: x })).collect();
                client.put(&hmac_secret[..], kvs).await.map_err(|e| format!("{:?}", e))
            }
            (_, Reader::Helper { ep }) => {
                // vlsd/src/grpc/signer.rs store_with_client
                let mut kvs = kvs;
                kvs.sort();
                let muts = Mutations::from_vec(kvs.into_iter().map(|(k, v, x)| (k, (v, x))).collect());
                let client = ep.persist_client.lock().await;
                let client_hmac = ep.helper.client_hmac(&muts);
                client.put(muts, &client_hmac).await.map(|_| ()).map_err(|e| format!("{:?}", e))
            }
            _ => unreachable!(),
        }
    }

    type WRec = (String, i64, Vec<u8>);
    fn j_wrecs(l: &[WRec]) -> serde_json::Value {
        json!(l.iter().map(|(k, v, x)| json!([k, v.to_string(), hex::encode(x)])).collect::<Vec<_>>())
    }
    fn coq_open(hs: &[u8], l: &[WRec]) -> String {
        let rs: Vec<String> = l.iter().map(|(k, v, x)| format!("({}, ({})%Z, {})", coq_bytes(k.as_bytes()), v, coq_bytes(x))).collect();
        format!("COpen {} {}", coq_bytes(hs), coq_list(&rs))
    }

    /// PrivClient against a storage server that fabricates records.  The server holds the shared
    /// secret (so its reply tags are right) but not the record secret: every record it makes up —
    /// at a negative version, at a version or key never written, with bytes of its choice or with
    /// the stored bytes of another entry — must be refused, in a get reply and in the conflict list
    /// of a refused put; nothing that the signer did not write may be handed back as data.
    async fn forge_battery(
        inner: &Arc<Inner>, client: &mut PrivClient, hmac_secret: [u8; 32], keys: &[String], current: &mut State,
        rng: &mut Rng, ops: &mut Vec<serde_json::Value>, findings: &mut Vec<serde_json::Value>, stats: &mut BTreeMap<String, u64>,
    ) {
        // everything the signer ever wrote under this identity: (key, version, plain value)
        let mut written: Vec<WRec> = vec![];
        // make sure there is something stored, at a version > 0 for the first key
        for _ in 0..2 {
            let k = keys[0].clone();
            let ver = current.get(&k).map(|(v, _)| v + 1).unwrap_or(0);
            let x = format!("state {} of {}", ver, k).into_bytes();
            *inner.mode.lock().unwrap() = Mode::Honest;
            if client.put(&hmac_secret[..], vec![(k.clone(), Value { version: ver as i64, value: x.clone() })]).await.is_ok() {
                current.insert(k, (ver, x));
            }
        }
        for (k, (v, x)) in current.iter() {
            written.push((k.clone(), *v as i64, x.clone())); // earlier versions are no longer served; the current ones are what a read may return
        }
        let k0 = keys[0].clone();
        let v0 = current.get(&k0).map(|(v, _)| *v as i64).unwrap_or(0);
        let newkey = format!("{}/zz", k0);
        let other = keys.get(1).cloned().unwrap_or_else(|| newkey.clone());
        let forges: Vec<(&'static str, Forge)> = vec![
            ("neg1-bytes66", Forge { key: k0.clone(), version: -1, value: Ok(gen_bytes(rng, 66)) }),
            ("neg2-bytes32", Forge { key: k0.clone(), version: -2, value: Ok(gen_bytes(rng, 32)) }),
            ("min-bytes40", Forge { key: k0.clone(), version: i64::MIN, value: Ok(gen_bytes(rng, 40)) }),
            ("neg1-empty", Forge { key: k0.clone(), version: -1, value: Ok(vec![]) }),
            ("neg1-short31", Forge { key: k0.clone(), version: -1, value: Ok(gen_bytes(rng, 31)) }),
            ("neg1-stored-bytes", Forge { key: k0.clone(), version: -1, value: Err(k0.clone()) }),
            ("neg1-new-key", Forge { key: newkey.clone(), version: -1, value: Ok(gen_bytes(rng, 50)) }),
            ("unwritten-version-stored-bytes", Forge { key: k0.clone(), version: v0 + 7, value: Err(k0.clone()) }),
            ("earlier-version-stored-bytes", Forge { key: k0.clone(), version: v0 - 1, value: Err(k0.clone()) }),
            ("max-version-bytes64", Forge { key: k0.clone(), version: i64::MAX, value: Ok(gen_bytes(rng, 64)) }),
            ("new-key-v0-bytes48", Forge { key: newkey.clone(), version: 0, value: Ok(gen_bytes(rng, 48)) }),
            ("other-key-stored-bytes", Forge { key: other.clone(), version: v0, value: Err(k0.clone()) }),
        ];
        let is_written = |r: &WRec, written: &Vec<WRec>| written.iter().any(|w| w == r);
        for (name, f) in forges {
            // ---- in a get reply
            *inner.mode.lock().unwrap() = Mode::ForgeGet(f.clone());
            let res = client.get(&hmac_secret[..], "".to_string()).await;
            *inner.mode.lock().unwrap() = Mode::Honest;
            let delivered: Vec<WRec> = inner.last.lock().unwrap().take().map(|(_, d)| d.0).unwrap_or_default();
            let (outcome, returned): (String, Option<Vec<WRec>>) = match res {
                Ok(kvs) => ("returned".to_string(), Some(kvs.into_iter().map(|(k, v)| (k, v.version, v.value)).collect())),
                Err(ClientError::InvalidHmac(k, v)) => (format!("InvalidHmac:{}:{}", hex::encode(k.as_bytes()), v), None),
                Err(ClientError::InvalidServerHmac()) => ("InvalidServerHmac".to_string(), None),
                Err(e) => (format!("error:{:?}", e), None),
            };
            *stats.entry(format!("Priv:forged-get:{}", outcome.split(':').next().unwrap())).or_default() += 1;
            if let Some(l) = &returned {
                for r in l {
                    if !is_written(r, &written) {
                        findings.push(json!({"kind": "forged-record-returned", "where": "PrivClient::get", "forge": name,
                            "record_secret": hex::encode(hmac_secret), "delivered_by_server": j_wrecs(&delivered),
                            "returned_record": j_wrecs(&[r.clone()]), "written_by_signer": j_wrecs(&written)}));
                    }
                }
            }
            ops.push(json!({"op": "forged-get", "forge": name, "delivered": j_wrecs(&delivered), "outcome": outcome,
                            "returned": returned.as_ref().map(|l| j_wrecs(l)), "coq": coq_open(&hmac_secret, &delivered)}));
            // ---- in the conflict list of a refused put
            let next = current.get(&k0).map(|(v, _)| v + 1).unwrap_or(0);
            *inner.mode.lock().unwrap() = Mode::ForgeConflict(f.clone());
            let res = client.put(&hmac_secret[..], vec![(k0.clone(), Value { version: next as i64, value: b"next".to_vec() })]).await;
            *inner.mode.lock().unwrap() = Mode::Honest;
            let delivered: Vec<WRec> = inner.last_conflict.lock().unwrap().take().unwrap_or_default();
            let (outcome, reported): (String, Option<Vec<WRec>>) = match res {
                Ok(()) => ("stored".to_string(), None),
                Err(ClientError::PutConflict(kvs)) => ("PutConflict".to_string(), Some(kvs.into_iter().map(|(k, v)| (k, v.version, v.value)).collect())),
                Err(ClientError::InvalidHmac(k, v)) => (format!("InvalidHmac:{}:{}", hex::encode(k.as_bytes()), v), None),
                Err(ClientError::InvalidServerHmac()) => ("InvalidServerHmac".to_string(), None),
                Err(e) => (format!("error:{:?}", e), None),
            };
            *stats.entry(format!("Priv:forged-conflict:{}", outcome.split(':').next().unwrap())).or_default() += 1;
            if let Some(l) = &reported {
                for r in l {
                    // the bare placeholder of lss.proto (version -1, no value) carries no content
                    if !is_written(r, &written) && !(r.1 == -1 && r.2.is_empty()) {
                        findings.push(json!({"kind": "forged-record-returned", "where": "PrivClient::put conflict", "forge": name,
                            "record_secret": hex::encode(hmac_secret), "delivered_by_server": j_wrecs(&delivered),
                            "returned_record": j_wrecs(&[r.clone()]), "written_by_signer": j_wrecs(&written)}));
                    }
                }
            }
            ops.push(json!({"op": "forged-conflict", "forge": name, "delivered": j_wrecs(&delivered), "outcome": outcome,
                            "returned": reported.as_ref().map(|l| j_wrecs(l)), "coq": coq_open(&hmac_secret, &delivered)}));
        }
        // ---- honest conflicts: a stale put of an existing key, a put with a gap for a new key
        let honest_puts: Vec<(&'static str, String, i64)> = vec![("stale-put", k0.clone(), v0), ("gap-put-new-key", newkey.clone(), 1)];
        for (name, k, ver) in honest_puts {
            let res = client.put(&hmac_secret[..], vec![(k.clone(), Value { version: ver, value: b"x".to_vec() })]).await;
            let delivered: Vec<WRec> = inner.last_conflict.lock().unwrap().take().unwrap_or_default();
            let (outcome, reported): (String, Option<Vec<WRec>>) = match res {
                Ok(()) => ("stored".to_string(), None),
                Err(ClientError::PutConflict(kvs)) => ("PutConflict".to_string(), Some(kvs.into_iter().map(|(k, v)| (k, v.version, v.value)).collect())),
                Err(ClientError::InvalidHmac(k, v)) => (format!("InvalidHmac:{}:{}", hex::encode(k.as_bytes()), v), None),
                Err(e) => (format!("error:{:?}", e), None),
            };
            *stats.entry(format!("Priv:{}:{}", name, outcome.split(':').next().unwrap())).or_default() += 1;
            if let Some(l) = &reported {
                for r in l {
                    if !is_written(r, &written) && !(r.1 == -1 && r.2.is_empty()) {
                        findings.push(json!({"kind": "genuine-conflict-wrong-record", "where": name, "returned_record": j_wrecs(&[r.clone()])}));
                    }
                }
            }
            if name == "stale-put" && outcome != "PutConflict" {
                findings.push(json!({"kind": "genuine-conflict-not-reported", "outcome": outcome}));
            }
            ops.push(json!({"op": name, "delivered": j_wrecs(&delivered), "outcome": outcome,
                            "returned": reported.as_ref().map(|l| j_wrecs(l)), "coq": coq_open(&hmac_secret, &delivered)}));
        }
    }

    async fn session(inner: &Arc<Inner>, uri: &str, server_id: &PublicKey, rng: &mut Rng, idx: usize, stats: &mut BTreeMap<String, u64>) {
        let path = [Path::Priv, Path::InitState, Path::Direct][idx % 3];
        let seed = rng.bytes32();
        // client identity: PrivClient from a raw key; the signer paths as vlsd's make_external_persist
        // derives them (keys manager persistence key, ECDH with the server key)
        let (client_id, shared_secret, mut reader) = match path {
            Path::Priv => {
                let mut k = seed;
                k[0] = 1;
                let client_key = SecretKey::from_slice(&k).unwrap();
                let auth = PrivAuth::new_for_client(&client_key, server_id);
                let id = auth.client_id.serialize().to_vec();
                let sh = auth.shared_secret.clone();
                let client = PrivClient::new(uri, auth).await.expect("connect");
                (id, sh, Reader::Priv { client, hmac_secret: rng.bytes32() })
            }
            _ => {
                let stf = make_genesis_starting_time_factory(NETWORK);
                let km = MyKeysManager::new(KeyDerivationStyle::Native, &seed, NETWORK, &*stf);
                let cid = km.get_persistence_pubkey();
                let shared = km.get_persistence_shared_secret(server_id);
                let token = km.get_persistence_auth_token(server_id);
                let auth = LssAuth { client_id: cid, token: token.to_vec() };
                let spk = lightning_signer::bitcoin::PublicKey::new(*server_id);
                let client = FrontendLssClient::new(uri, &spk, auth).await.expect("connect");
                let ep = ExternalPersistWithHelper {
                    persist_client: Arc::new(tokio::sync::Mutex::new(Box::new(client) as Box<dyn ExternalPersist>)),
                    state: Arc::new(Mutex::new(Default::default())),
                    helper: ExternalPersistHelper::new(shared),
                };
                (cid.serialize().to_vec(), shared.to_vec(), Reader::Helper { ep })
            }
        };
        let keys: Vec<String> = (0..1 + rng.below(3)).map(|i| format!("channel/{:04}/{}", i, hex::encode(&seed[..2]))).collect();
        let mut current: State = BTreeMap::new();
        let mut history: Vec<State> = vec![]; // the state each recorded reply carried
        let mut ops = vec![];
        let mut findings: Vec<serde_json::Value> = vec![];
        let nops = 6 + rng.below(7) as usize;
        let read_empty_first = rng.chance(1, 3); // a genuine read of a store that was never written
        // after the random part: one read per modification of the reply, then the prefix observation
        for step in 0..nops + TAMPERS.len() + 1 {
            let battery = step >= nops;
            let choice = if battery { 99 } else if step == 0 { if read_empty_first { 1 } else { 0 } }
                else if step == 1 { if read_empty_first { 0 } else { 1 } } else { rng.below(10) };
            if choice == 0 || choice == 5 || choice == 6 {
                // the state advances: some keys get their next version
                let mut kvs = vec![];
                for k in &keys {
                    if kvs.is_empty() || rng.chance(1, 2) {
                        let ver = current.get(k).map(|(v, _)| v + 1).unwrap_or(0);
                        kvs.push((k.clone(), ver, format!("state {} of {}", ver, k).into_bytes()));
                    }
                }
                *inner.mode.lock().unwrap() = Mode::Honest;
                match write(path, &mut reader, kvs.clone()).await {
                    Ok(()) => {
                        for (k, v, x) in kvs {
                            current.insert(k, (v, x));
                        }
                        ops.push(json!({"op": "put", "state": j_state(&current)}));
                    }
                    Err(e) => {
                        findings.push(json!({"kind": "put-failed", "step": step, "error": e}));
                        ops.push(json!({"op": "put", "error": e}));
                    }
                }
                continue;
            }
            let nrec = history.len();
            let mode = match choice {
                99 if step - nops < TAMPERS.len() => Mode::Tamper(TAMPERS[step - nops], rng.next()),
                99 => Mode::SwapPrefix,
                1 | 2 | 3 => Mode::Honest,
                4 | 7 | 8 if nrec > 0 => Mode::Replay(rng.below(nrec as u64) as usize),
                9 => Mode::SwapNonce(rng.bytes32()),
                _ => Mode::Honest,
            };
            *inner.mode.lock().unwrap() = mode.clone();
            let before = inner.wire_nonces.lock().unwrap().get(&client_id).map_or(0, |v| v.len());
            let mut given = None;
            let res = read(path, &mut reader, &mut given).await;
            let wire: Vec<Vec<u8>> = inner.wire_nonces.lock().unwrap().get(&client_id).map_or(vec![], |v| v[before..].to_vec());
            *inner.mode.lock().unwrap() = Mode::Honest;
            let last = inner.last.lock().unwrap().take();
            let mut mode = mode;
            if let (Mode::Tamper(_, _), Some((auth, deliv))) = (&mode, &last) {
                if auth == deliv {
                    mode = Mode::Honest; // the modification did not apply to this reply (e.g. nothing to drop)
                    if res.is_ok() || res.as_ref().err().map_or(false, |e| e.starts_with("refused")) {
                        inner.recorded.lock().unwrap().entry(client_id.clone()).or_default().push(GetReply {
                            kvs: deliv.0.iter().map(|(k, v, x)| KeyValue { key: k.clone(), version: *v, value: x.clone() }).collect(),
                            hmac: deliv.1.clone(),
                        });
                    }
                }
            }
            let mname = match &mode {
                Mode::Honest => "genuine".to_string(),
                Mode::Replay(k) => format!("replay:{}", k),
                Mode::SwapNonce(_) => "swap-nonce".to_string(),
                Mode::Tamper(k, _) => format!("tamper:{}", k),
                Mode::SwapPrefix => "prefix-swapped".to_string(),
                Mode::ForgeGet(_) | Mode::ForgeConflict(_) => unreachable!(),
            };
            let j_wire = |w: &Wire| json!({"rs": w.0.iter().map(|(k, v, x)| json!([hex::encode(k.as_bytes()), (*v as u64).to_string(), hex::encode(x)])).collect::<Vec<_>>(), "tag": hex::encode(&w.1)});
            let outcome = match &res {
                Ok(_) => "accepted".to_string(),
                Err(e) => e.clone(),
            };
            let mstat = if mname.starts_with("tamper:drop-all") { "tamper-drop-all" } else { mname.split(':').next().unwrap() };
            *stats.entry(format!("{:?}:{}:{}", path, mstat, outcome.split(':').next().unwrap())).or_default() += 1;
            // the acceptance decision of the helper paths as a model case: accept iff the delivered tag is
            // the tag of exactly the delivered list under the nonce this read sent
            let coq = match (&last, wire.first(), path) {
                (Some((_, deliv)), Some(n), Path::Direct) | (Some((_, deliv)), Some(n), Path::InitState) => {
                    let rs: Vec<Rec> = deliv.0.iter().map(|(k, v, x)| (k.clone(), *v as u64, x.clone())).collect();
                    Some(format!("CInit {} {} {} {}", coq_bytes(&shared_secret), coq_bytes(n), coq_rs(&rs), coq_bytes(&deliv.1)))
                }
                _ => None,
            };
            ops.push(json!({"op": "read", "reply": mname, "wire_nonces": wire.iter().map(hex::encode).collect::<Vec<_>>(),
                            "outcome": outcome, "returned": res.as_ref().ok().map(j_state),
                            "authenticated": last.as_ref().map(|l| j_wire(&l.0)), "delivered": last.as_ref().map(|l| j_wire(&l.1)),
                            "coq": coq}));
            if wire.len() != 1 {
                findings.push(json!({"kind": "request-count", "step": step, "requests": wire.len()}));
            }
            if let (Some(g), Some(w)) = (&given, wire.first()) {
                if g != w {
                    findings.push(json!({"kind": "nonce-not-passed-through", "step": step, "given": hex::encode(g), "on_wire": hex::encode(w)}));
                }
            }
            match (&mode, &res) {
                (Mode::Honest, Ok(st)) => {
                    history.push(current.clone());
                    if *st != current {
                        findings.push(json!({"kind": "genuine-reply-wrong-state", "step": step, "returned": j_state(st), "current": j_state(&current)}));
                    }
                }
                (Mode::Honest, Err(e)) => {
                    if e.starts_with("refused") {
                        // the man in the middle recorded it all the same
                        history.push(current.clone());
                    }
                    findings.push(json!({"kind": "genuine-reply-refused", "step": step, "outcome": e}));
                }
                (Mode::Replay(k), Ok(st)) => {
                    findings.push(json!({"kind": "replayed-reply-accepted", "step": step, "replayed_read": k,
                        "returned": j_state(st), "current": j_state(&current), "rolled_back": *st != current,
                        "recorded_state": j_state(&history[*k])}));
                }
                (Mode::Tamper(kind, _), Ok(st)) => {
                    let (auth, deliv) = last.clone().unwrap();
                    findings.push(json!({"kind": "tampered-reply-accepted", "step": step, "tamper": kind,
                        "authenticated_by_server": j_wire(&auth), "delivered_by_hop": j_wire(&deliv),
                        "returned": j_state(st), "current": j_state(&current), "secret": hex::encode(&shared_secret),
                        "nonce": wire.first().map(hex::encode)}));
                }
                (Mode::SwapPrefix, _) => {} // recorded in the statistics only
                (Mode::SwapNonce(n), Ok(st)) => {
                    findings.push(json!({"kind": "reply-under-other-nonce-accepted", "step": step, "server_nonce": hex::encode(n), "returned": j_state(st)}));
                }
                (_, Err(e)) if !e.starts_with("refused") => {
                    findings.push(json!({"kind": "read-error", "step": step, "outcome": e}));
                }
                _ => {}
            }
        }
        if let Reader::Priv { client, hmac_secret } = &mut reader {
            forge_battery(inner, client, *hmac_secret, &keys, &mut current, rng, &mut ops, &mut findings, stats).await;
        }
        // the nonces this client sent, in order: 32 bytes each, none used before
        let nonces: Vec<Vec<u8>> = inner.wire_nonces.lock().unwrap().get(&client_id).cloned().unwrap_or_default();
        let mut fresh = true;
        for (i, n) in nonces.iter().enumerate() {
            if n.len() != 32 {
                fresh = false;
                findings.push(json!({"kind": "nonce-length", "read": i, "nonce": hex::encode(n), "length": n.len()}));
            }
            if let Some(j) = nonces[..i].iter().position(|m| m == n) {
                fresh = false;
                findings.push(json!({"kind": "nonce-reused", "read": i, "first_used_by_read": j, "nonce": hex::encode(n)}));
            }
        }
        let ns: Vec<String> = nonces.iter().map(|n| coq_bytes(n)).collect();
        emit("NET", json!({
            "session": idx, "path": format!("{:?}", path), "client_id": hex::encode(&client_id), "ops": ops,
            "nonces": nonces.iter().map(hex::encode).collect::<Vec<_>>(), "nonces_fresh": fresh,
            "findings": findings, "coq": format!("CNonces {}", coq_list(&ns)),
        }));
    }

    pub fn run(args: &Args) {
        std::panic::set_hook(Box::new(|_| {})); // init_state reports a refusal by panicking
        let rt = tokio::runtime::Builder::new_multi_thread().worker_threads(2).enable_all().build().expect("runtime");
        let mut rng = Rng::new(args.seed ^ 0x171717);
        let n = args.n;
        rt.block_on(async move {
            let secp = Secp256k1::new();
            let server_key = SecretKey::from_slice(&[0x11; 32]).unwrap();
            let server_id = PublicKey::from_secret_key(&secp, &server_key);
            let inner = Arc::new(Inner {
                server_key,
                store: Mutex::new(BTreeMap::new()),
                mode: Mutex::new(Mode::Honest),
                wire_nonces: Mutex::new(BTreeMap::new()),
                recorded: Mutex::new(BTreeMap::new()),
                last: Mutex::new(None),
                last_conflict: Mutex::new(None),
            });
            let listener = tokio::net::TcpListener::bind("127.0.0.1:0").await.expect("bind");
            let uri = format!("http://{}", listener.local_addr().unwrap());
            let incoming = TcpIncoming::from_listener(listener, true, None).expect("incoming");
            let service = LightningStorageServer::new(Service(inner.clone()));
            tokio::spawn(async move {
                Server::builder().add_service(service).serve_with_incoming(incoming).await.expect("serve");
            });
            let mut stats = BTreeMap::new();
            for idx in 0..n {
                session(&inner, &uri, &server_id, &mut rng, idx, &mut stats).await;
            }
            let total: usize = inner.wire_nonces.lock().unwrap().values().map(|v| v.len()).sum();
            emit("STATS", json!({"domain": "hmac-net", "sessions": n, "reads_on_wire": total, "outcomes": stats}));
        });
    }
}
