//! Domain `sweep` (C09): the real sweep / second-level-HTLC validators (through the public
//! Validator trait, arbitrary chain heights) and the real Channel signing calls
//! (sign_delayed_sweep, sign_counterparty_htlc_sweep, sign_justice_sweep, sign_holder_htlc_tx,
//! sign_counterparty_htlc_tx) against Model/Sweep.v, with the property's conjunction computed
//! independently on every acceptance (monitor).
//!
//!   sweepval   validate_{delayed,counterparty_htlc,justice}_sweep, arbitrary heights
//!   sweepchan  the three sweep signing calls on real channels
//!   htlcval    decode_and_validate_htlc_tx + validate_htlc_tx
//!   htlcchan   sign_holder_htlc_tx / sign_counterparty_htlc_tx on real channels
//!   sweephandler / htlchandler   the same requests as protocol messages (SignDelayedPaymentToUs,
//!              SignRemoteHtlcToUs, SignPenaltyToUs, their SignAny* variants, SignLocalHtlcTx,
//!              SignAnyLocalHtlcTx, SignRemoteHtlcTx): as_vec -> msgs::from_vec -> ChannelHandler /
//!              RootHandler at protocol 4/5/6; the property is evaluated on what was SIGNED
use vharness::*;

use lightning_signer::bitcoin::absolute::LockTime;
use lightning_signer::bitcoin::bip32::{ChildNumber, DerivationPath};
use lightning_signer::bitcoin::hashes::Hash;
use lightning_signer::bitcoin::opcodes::all as op;
use lightning_signer::bitcoin::script::{Builder, PushBytesBuf};
use lightning_signer::bitcoin::secp256k1::{self, ecdsa::Signature, Message, PublicKey, Secp256k1, SecretKey};
use lightning_signer::bitcoin::sighash::{EcdsaSighashType, SighashCache};
use lightning_signer::bitcoin::transaction::Version;
use lightning_signer::bitcoin::{Address, Amount, OutPoint, ScriptBuf, Sequence, Transaction, TxIn, TxOut, Txid, Witness};
use lightning_signer::channel::{ChannelBase, ChannelId, ChannelSetup, CommitmentType};
use lightning_signer::lightning::ln::chan_utils::{
    get_htlc_redeemscript, get_revokeable_redeemscript, ChannelPublicKeys, HTLCOutputInCommitment, TxCreationKeys,
};
use lightning_signer::lightning::types::features::ChannelTypeFeatures;
use lightning_signer::lightning::types::payment::PaymentHash;
use lightning_signer::node::Node;
use lightning_signer::policy::error::{ValidationError, ValidationErrorKind};
use lightning_signer::policy::filter::{FilterResult, FilterRule, PolicyFilter};
use lightning_signer::policy::simple_validator::{SimplePolicy, SimpleValidatorFactory};
use lightning_signer::policy::validator::{ChainState, Validator, ValidatorFactory};
use lightning_signer::signer::derive::KeyDerivationStyle;
use lightning_signer::util::status::{Code, Status};
use lightning_signer::util::test_utils::key::{make_test_bitcoin_pubkey, make_test_pubkey};
use lightning_signer::util::test_utils::{
    get_channel_delayed_payment_pubkey, get_channel_htlc_pubkey, make_test_channel_setup, make_testnet_header,
};
use lightning_signer::wallet::Wallet;
use serde_json::{json, Value};
use std::collections::{BTreeMap, HashMap};
use std::panic::{catch_unwind, AssertUnwindSafe};
use std::sync::Arc;

const THRESH: u32 = 500_000_000;
const U32MAX: u32 = u32::MAX;
const NON_ANCHOR_SEQS: [u32; 3] = [0, 0xffff_fffd, 0xffff_ffff];

fn overflow_checks() -> bool {
    cfg!(debug_assertions)
}

// ------------------------------------------------------------------ identities

/// txids and scripts enter the model as small numbers, assigned per case
struct Intern {
    map: HashMap<Vec<u8>, u64>,
    next: u64,
}
impl Intern {
    fn new() -> Self {
        Intern { map: HashMap::new(), next: 10 }
    }
    fn id(&mut self, bytes: &[u8]) -> u64 {
        if let Some(v) = self.map.get(bytes) {
            return *v;
        }
        let v = self.next;
        self.next += 1;
        self.map.insert(bytes.to_vec(), v);
        v
    }
}

#[derive(Clone, Debug)]
struct ATx {
    version: i32,
    locktime: u32,
    ins: Vec<(Txid, u32, u32)>,
    outs: Vec<(u64, ScriptBuf)>,
}

fn real_tx(t: &ATx) -> Transaction {
    Transaction {
        version: Version(t.version),
        lock_time: LockTime::from_consensus(t.locktime),
        input: t
            .ins
            .iter()
            .map(|(txid, vout, seq)| TxIn {
                previous_output: OutPoint { txid: *txid, vout: *vout },
                script_sig: ScriptBuf::new(),
                sequence: Sequence(*seq),
                witness: Witness::default(),
            })
            .collect(),
        output: t.outs.iter().map(|(v, s)| TxOut { value: Amount::from_sat(*v), script_pubkey: s.clone() }).collect(),
    }
}

fn coq_tx(t: &ATx, it: &mut Intern) -> String {
    let ins: Vec<String> =
        t.ins.iter().map(|(txid, vout, seq)| format!("mkIn {} {} {}", it.id(&txid.to_byte_array()), vout, seq)).collect();
    let outs: Vec<String> = t.outs.iter().map(|(v, s)| format!("mkOut {} {}", v, it.id(s.as_bytes()))).collect();
    format!("(mkTx {} {} {} {})", t.version as u32, t.locktime, coq_list(&ins), coq_list(&outs))
}

fn json_tx(t: &ATx) -> Value {
    json!({"version": t.version, "locktime": t.locktime,
           "inputs": t.ins.iter().map(|(txid, vout, seq)| json!({"txid": txid.to_string(), "vout": vout, "sequence": seq})).collect::<Vec<_>>(),
           "outputs": t.outs.iter().map(|(v, s)| json!({"value_sat": v, "script_pubkey": hex::encode(s.as_bytes())})).collect::<Vec<_>>()})
}

fn txid_of(k: u8) -> Txid {
    Txid::from_slice(&[k; 32]).unwrap()
}

// ------------------------------------------------------------------ scripts, built by hand

#[derive(Clone, Debug, PartialEq)]
enum Rs {
    Offered { anch: bool },
    Received { anch: bool, cltv: i64 },
    /// 0 empty, 1 revokeable script, 2 truncated offered, 3 offered with a trailing opcode
    Other(u8),
}

fn push(b: Builder, data: &[u8]) -> Builder {
    b.push_slice(PushBytesBuf::try_from(data.to_vec()).unwrap())
}

/// BOLT-3 offered-HTLC output script
fn offered_script(rev_hash: &[u8; 20], remote_htlc: &[u8; 33], local_htlc: &[u8; 33], pay_hash: &[u8; 20], anch: bool) -> Builder {
    let mut b = Builder::new().push_opcode(op::OP_DUP).push_opcode(op::OP_HASH160);
    b = push(b, rev_hash).push_opcode(op::OP_EQUAL).push_opcode(op::OP_IF).push_opcode(op::OP_CHECKSIG).push_opcode(op::OP_ELSE);
    b = push(b, remote_htlc).push_opcode(op::OP_SWAP).push_opcode(op::OP_SIZE).push_int(32).push_opcode(op::OP_EQUAL);
    b = b.push_opcode(op::OP_NOTIF).push_opcode(op::OP_DROP).push_int(2).push_opcode(op::OP_SWAP);
    b = push(b, local_htlc).push_int(2).push_opcode(op::OP_CHECKMULTISIG).push_opcode(op::OP_ELSE).push_opcode(op::OP_HASH160);
    b = push(b, pay_hash).push_opcode(op::OP_EQUALVERIFY).push_opcode(op::OP_CHECKSIG).push_opcode(op::OP_ENDIF);
    if anch {
        b = b.push_int(1).push_opcode(op::OP_CSV).push_opcode(op::OP_DROP);
    }
    b.push_opcode(op::OP_ENDIF)
}

/// BOLT-3 received-HTLC output script
fn received_script(rev_hash: &[u8; 20], remote_htlc: &[u8; 33], local_htlc: &[u8; 33], pay_hash: &[u8; 20], cltv: i64, anch: bool) -> Builder {
    let mut b = Builder::new().push_opcode(op::OP_DUP).push_opcode(op::OP_HASH160);
    b = push(b, rev_hash).push_opcode(op::OP_EQUAL).push_opcode(op::OP_IF).push_opcode(op::OP_CHECKSIG).push_opcode(op::OP_ELSE);
    b = push(b, remote_htlc).push_opcode(op::OP_SWAP).push_opcode(op::OP_SIZE).push_int(32).push_opcode(op::OP_EQUAL);
    b = b.push_opcode(op::OP_IF).push_opcode(op::OP_HASH160);
    b = push(b, pay_hash).push_opcode(op::OP_EQUALVERIFY).push_int(2).push_opcode(op::OP_SWAP);
    b = push(b, local_htlc).push_int(2).push_opcode(op::OP_CHECKMULTISIG).push_opcode(op::OP_ELSE).push_opcode(op::OP_DROP);
    b = b.push_int(cltv).push_opcode(op::OP_CLTV).push_opcode(op::OP_DROP).push_opcode(op::OP_CHECKSIG).push_opcode(op::OP_ENDIF);
    if anch {
        b = b.push_int(1).push_opcode(op::OP_CSV).push_opcode(op::OP_DROP);
    }
    b.push_opcode(op::OP_ENDIF)
}

/// BOLT-3 to_local / HTLC-output script
fn revokeable_script(revocation: &PublicKey, delay: u16, delayed: &PublicKey) -> ScriptBuf {
    let b = Builder::new().push_opcode(op::OP_IF);
    let b = push(b, &revocation.serialize()).push_opcode(op::OP_ELSE).push_int(delay as i64).push_opcode(op::OP_CSV).push_opcode(op::OP_DROP);
    push(b, &delayed.serialize()).push_opcode(op::OP_ENDIF).push_opcode(op::OP_CHECKSIG).into_script()
}

fn rs_script(rs: &Rs) -> ScriptBuf {
    let rh = [0x11u8; 20];
    let ph = [0x22u8; 20];
    let rk = make_test_pubkey(31).serialize();
    let lk = make_test_pubkey(32).serialize();
    match rs {
        Rs::Offered { anch } => offered_script(&rh, &rk, &lk, &ph, *anch).into_script(),
        Rs::Received { anch, cltv } => received_script(&rh, &rk, &lk, &ph, *cltv, *anch).into_script(),
        Rs::Other(0) => ScriptBuf::new(),
        Rs::Other(1) => revokeable_script(&make_test_pubkey(33), 7, &make_test_pubkey(34)),
        Rs::Other(2) => {
            let s = offered_script(&rh, &rk, &lk, &ph, false).into_script();
            ScriptBuf::from_bytes(s.as_bytes()[..s.len() - 1].to_vec())
        }
        Rs::Other(_) => offered_script(&rh, &rk, &lk, &ph, false).push_opcode(op::OP_DROP).into_script(),
    }
}

fn coq_rs(rs: &Rs) -> String {
    match rs {
        Rs::Offered { anch } => format!("(RS_offered {})", coq_bool(*anch)),
        Rs::Received { anch, cltv } => format!("(RS_received {} {} {})", coq_bool(*anch), coq_bool(*cltv < 0), cltv.unsigned_abs()),
        Rs::Other(_) => "RS_other".to_string(),
    }
}

/// the hand-built templates are the ones LDK produces
fn self_test() {
    let secp = Secp256k1::new();
    let keys = TxCreationKeys::derive_new(
        &secp,
        &make_test_pubkey(10),
        &make_test_pubkey(11).into(),
        &make_test_pubkey(12).into(),
        &make_test_pubkey(13).into(),
        &make_test_pubkey(14).into(),
    );
    use lightning_signer::bitcoin::hashes::{hash160, ripemd160};
    let rev_hash = hash160::Hash::hash(&keys.revocation_key.to_public_key().serialize()).to_byte_array();
    let pay = PaymentHash([7u8; 32]);
    let pay_hash = ripemd160::Hash::hash(&pay.0).to_byte_array();
    let rk = keys.countersignatory_htlc_key.to_public_key().serialize();
    let lk = keys.broadcaster_htlc_key.to_public_key().serialize();
    for anch in [false, true] {
        let mut f = ChannelTypeFeatures::empty();
        f.set_static_remote_key_required();
        if anch {
            f.set_anchors_zero_fee_htlc_tx_optional();
        }
        for offered in [false, true] {
            let htlc = HTLCOutputInCommitment {
                offered,
                amount_msat: 1_000_000,
                cltv_expiry: 800_123,
                payment_hash: pay,
                transaction_output_index: Some(0),
            };
            let ldk = get_htlc_redeemscript(&htlc, &f, &keys);
            let mine = if offered {
                offered_script(&rev_hash, &rk, &lk, &pay_hash, anch).into_script()
            } else {
                received_script(&rev_hash, &rk, &lk, &pay_hash, 800_123, anch).into_script()
            };
            assert_eq!(ldk, mine, "hand-built HTLC script differs from LDK's (offered={}, anchors={})", offered, anch);
        }
    }
    let a = get_revokeable_redeemscript(&keys.revocation_key, 144, &keys.broadcaster_delayed_payment_key);
    let b = revokeable_script(&keys.revocation_key.to_public_key(), 144, &keys.broadcaster_delayed_payment_key.to_public_key());
    assert_eq!(a, b, "hand-built revokeable script differs from LDK's");
}

// ------------------------------------------------------------------ policy, filter, types

type Rules = Vec<(String, bool, bool)>;

fn rule_sets() -> Vec<Rules> {
    vec![
        vec![],
        vec![],
        vec![],
        vec![("policy-sweep-destination-allowlisted".to_string(), false, true)],
        vec![("policy-sweep-".to_string(), true, true)],
        vec![("policy-sweep-destination-allowlisted".to_string(), false, false), ("policy-".to_string(), true, true)],
        vec![("policy-htlc-fee-range".to_string(), false, true)],
        vec![("policy-htlc-".to_string(), true, true)],
        vec![("policy-htlc-locktime".to_string(), false, true)],
    ]
}

fn ref_warned(rules: &Rules, tag: &str) -> bool {
    for (t, is_prefix, warn) in rules {
        let hit = if *is_prefix { tag.len() >= t.len() && &tag[..t.len()] == t.as_str() } else { tag == t.as_str() };
        if hit {
            return *warn;
        }
    }
    false
}

fn coq_rules(rules: &Rules) -> String {
    coq_list(&rules.iter().map(|(t, p, w)| format!("mkRule \"{}\" {} {}", t, coq_bool(*p), coq_bool(*w))).collect::<Vec<_>>())
}

fn real_policy(rules: &Rules, min_feerate: u32, max_feerate: u32) -> SimplePolicy {
    let mut policy = World::default_policy();
    policy.min_feerate_per_kw = min_feerate;
    policy.max_feerate_per_kw = max_feerate;
    policy.filter = PolicyFilter {
        rules: rules
            .iter()
            .map(|(t, pre, w)| FilterRule { tag: t.clone(), is_prefix: *pre, action: if *w { FilterResult::Warn } else { FilterResult::Error } })
            .collect(),
    };
    policy
}

fn ctype_of(c: u8) -> CommitmentType {
    match c {
        0 => CommitmentType::Legacy,
        1 => CommitmentType::StaticRemoteKey,
        2 => CommitmentType::Anchors,
        _ => CommitmentType::AnchorsZeroFeeHtlc,
    }
}
fn ctype_name(c: u8) -> &'static str {
    ["Legacy", "StaticRemoteKey", "Anchors", "AnchorsZeroFeeHtlc"][c.min(3) as usize]
}
fn is_anchors(c: u8) -> bool {
    c >= 2
}

fn coq_setup(ctype: u8, holder_delay: u16, cp_delay: u16) -> String {
    format!("(mkSetup true 3000000 0 {} {} {} 0)", holder_delay, cp_delay, ctype_name(ctype))
}

fn real_setup(ctype: u8, holder_delay: u16, cp_delay: u16) -> ChannelSetup {
    let mut setup = make_test_channel_setup();
    setup.commitment_type = ctype_of(ctype);
    setup.holder_selected_contest_delay = holder_delay;
    setup.counterparty_selected_contest_delay = cp_delay;
    setup
}

/// observation classes shared with Model/SweepCheck.v
fn err_code(ve: &ValidationError) -> u64 {
    match ve.kind {
        ValidationErrorKind::TransactionFormat(_) => 100,
        ValidationErrorKind::Policy(_) => match ve.tag.as_str() {
            "policy-onchain-output-scriptpubkey" => 101,
            "policy-sweep-destination-allowlisted" => 102,
            "policy-commitment-other" => 103,
            "policy-commitment-scripts" => 104,
            "policy-commitment-fee-range" => 105,
            "policy-htlc-other" => 106,
            "policy-htlc-locktime" => 107,
            "policy-htlc-fee-range" => 108,
            _ => 198,
        },
        _ => 199,
    }
}
fn obs_val<T>(r: std::thread::Result<Result<T, ValidationError>>) -> u64 {
    match r {
        Err(_) => 1,
        Ok(Ok(_)) => 0,
        Ok(Err(ve)) => err_code(&ve),
    }
}
fn obs_status<T>(r: &std::thread::Result<Result<T, Status>>) -> u64 {
    match r {
        Err(_) => 1,
        Ok(Ok(_)) => 0,
        Ok(Err(st)) => match st.code() {
            Code::InvalidArgument => 109,
            Code::FailedPrecondition => 150,
            _ => 199,
        },
    }
}

// ------------------------------------------------------------------ destinations and the wallet oracle

#[derive(Clone, Copy, Debug, PartialEq)]
enum PathKind {
    Normal(u32),
    Empty,
    BadLen,
}
fn real_path(p: PathKind) -> DerivationPath {
    match p {
        PathKind::Normal(i) => vec![ChildNumber::from_normal_idx(i).unwrap()].into(),
        PathKind::Empty => DerivationPath::master(),
        PathKind::BadLen => vec![ChildNumber::from_normal_idx(5).unwrap(), ChildNumber::from_normal_idx(6).unwrap()].into(),
    }
}

#[derive(Clone, Copy, Debug, PartialEq)]
enum Dest {
    /// wallet key at index, 0 p2wpkh / 1 p2sh-p2wpkh / 2 p2tr
    Wallet(u32, u8),
    /// allowlisted address k (0: p2wpkh of test key 42, 1: p2sh-p2wpkh of test key 44)
    Allow(u8),
    Foreign(u8),
}

const ALLOWLISTED_WALLET_INDEX: u32 = 7;

struct Dests {
    scripts: HashMap<String, ScriptBuf>,
}
impl Dests {
    fn new(node: &Node) -> (Dests, Vec<String>) {
        let mut scripts = HashMap::new();
        for idx in [5u32, 7, 19, 21] {
            let p = real_path(PathKind::Normal(idx));
            scripts.insert(format!("{:?}", Dest::Wallet(idx, 0)), node.get_native_address(&p).unwrap().script_pubkey());
            scripts.insert(format!("{:?}", Dest::Wallet(idx, 1)), node.get_wrapped_address(&p).unwrap().script_pubkey());
            scripts.insert(format!("{:?}", Dest::Wallet(idx, 2)), node.get_taproot_address(&p).unwrap().script_pubkey());
        }
        let a0 = Address::p2wpkh(&make_test_bitcoin_pubkey(42), NETWORK);
        let a1 = Address::p2shwpkh(&make_test_bitcoin_pubkey(44), NETWORK);
        scripts.insert(format!("{:?}", Dest::Allow(0)), a0.script_pubkey());
        scripts.insert(format!("{:?}", Dest::Allow(1)), a1.script_pubkey());
        for k in 0..3u8 {
            scripts.insert(format!("{:?}", Dest::Foreign(k)), Address::p2wpkh(&make_test_bitcoin_pubkey(50 + k), NETWORK).script_pubkey());
        }
        let own = node.get_native_address(&real_path(PathKind::Normal(ALLOWLISTED_WALLET_INDEX))).unwrap();
        let allowlist = vec![a0.to_string(), a1.to_string(), own.to_string()];
        (Dests { scripts }, allowlist)
    }
    fn script(&self, d: Dest) -> ScriptBuf {
        self.scripts[&format!("{:?}", d)].clone()
    }
}

/// by construction: (the wallet can spend it under the path, it is allowlisted)
fn owned_by_construction(d: Dest, p: PathKind) -> (bool, bool) {
    match d {
        Dest::Wallet(idx, stype) => (p == PathKind::Normal(idx), idx == ALLOWLISTED_WALLET_INDEX && stype == 0),
        Dest::Allow(_) => (false, true),
        Dest::Foreign(_) => (false, false),
    }
}
/// class of Model/SweepCheck.v wallet_of: 0 spendable, 1 allowlisted, 2 neither, 3 wallet error, 4 both
fn dest_class(d: Dest, p: PathKind) -> u64 {
    if p == PathKind::BadLen {
        return 3;
    }
    match owned_by_construction(d, p) {
        (true, true) => 4,
        (true, false) => 0,
        (false, true) => 1,
        (false, false) => 2,
    }
}

fn pick_dest(rng: &mut Rng, p: PathKind) -> Dest {
    let idx = match p {
        PathKind::Normal(i) => i,
        _ => 5,
    };
    match rng.below(16) {
        0..=4 => Dest::Wallet(idx, 0),
        5 => Dest::Wallet(idx, 1),
        6 => Dest::Wallet(idx, 2),
        7 | 8 => Dest::Allow(rng.below(2) as u8),
        9 => Dest::Wallet(ALLOWLISTED_WALLET_INDEX, 0),
        10 => Dest::Wallet(if idx == 19 { 21 } else { 19 }, rng.below(3) as u8),
        11 => Dest::Wallet(if idx == 5 { 7 } else { 5 }, 1 + rng.below(2) as u8),
        _ => Dest::Foreign(rng.below(3) as u8),
    }
}

// ------------------------------------------------------------------ sweep requests

#[derive(Clone, Debug)]
struct SweepReq {
    kind: u8, // 0 delayed, 1 counterparty htlc, 2 justice
    ctype: u8,
    holder_delay: u16,
    cp_delay: u16,
    height: u32,
    tx: ATx,
    dests: Vec<Dest>,
    input: u64,
    rs: Rs,
    path: PathKind,
    cn: u64,
    nh: u64,
    rules: Rules,
    label: String,
}

fn seq_values(rng: &mut Rng, expected: u32, cp_delay: u16) -> u32 {
    *rng.pick(&[
        expected,
        expected.wrapping_add(1),
        expected.wrapping_sub(1),
        0,
        1,
        2,
        0xffff_fffd,
        0xffff_fffe,
        0xffff_ffff,
        cp_delay as u32,
        42,
        65535,
        0x0040_0000 | cp_delay as u32,
        0x8000_0000 | cp_delay as u32,
    ])
}

fn expected_seq(rng: &mut Rng, kind: u8, ctype: u8, cp_delay: u16) -> u32 {
    match kind {
        0 => cp_delay as u32,
        1 =>
            if is_anchors(ctype) {
                1
            } else {
                *rng.pick(&NON_ANCHOR_SEQS)
            },
        _ => *rng.pick(&NON_ANCHOR_SEQS),
    }
}

fn locktime_edges(rng: &mut Rng, h: u32, cltv: Option<i64>) -> u32 {
    let mut v = vec![
        0,
        1,
        h,
        h.wrapping_add(1),
        h.wrapping_add(2),
        h.wrapping_add(3),
        h.wrapping_add(4),
        THRESH - 1,
        THRESH,
        THRESH + 1,
        1_700_000_000,
        U32MAX,
    ];
    if let Some(c) = cltv {
        for d in [-1i64, 0, 1] {
            let x = c + d;
            if x >= 0 && x <= U32MAX as i64 {
                v.push(x as u32);
            }
        }
    }
    *rng.pick(&v)
}

/// a request every check accepts, for the given channel parameters and height
fn base_sweep(rng: &mut Rng, dests: &Dests, kind: u8, ctype: u8, holder_delay: u16, cp_delay: u16, height: u32, nh: u64) -> SweepReq {
    let path = PathKind::Normal(*rng.pick(&[5u32, 7, 19]));
    let n_in = 1 + rng.below(3) as usize;
    let input = rng.below(n_in as u64);
    let mut ins = vec![];
    for i in 0..n_in {
        let seq = if i as u64 == input {
            expected_seq(rng, kind, ctype, cp_delay)
        } else {
            // the other inputs of a batched sweep carry the sequences of their own outputs
            let e = expected_seq(rng, kind, ctype, cp_delay);
            *rng.pick(&[0u32, 1, 0xffff_fffd, 144, cp_delay as u32, e])
        };
        ins.push((txid_of(1 + i as u8), rng.below(5) as u32, seq));
    }
    let n_out = 1 + rng.below(3) as usize;
    let mut ds = vec![];
    let mut outs = vec![];
    for _ in 0..n_out {
        let d = loop {
            let d = pick_dest(rng, path);
            let (a, b) = owned_by_construction(d, path);
            if a || b {
                break d;
            }
        };
        ds.push(d);
        outs.push((*rng.pick(&[330u64, 1_000, 1_978_997, 0, 2_100_000_000_000_000]), dests.script(d)));
    }
    let anch = is_anchors(ctype);
    let hlim = (height as u64 + 2).min(THRESH as u64 - 1) as u32;
    let (rs, locktime) = match kind {
        1 =>
            if rng.chance(1, 2) {
                let cltv = *rng.pick(&[height as i64 + 40, 800_000, 1, 0, 0x7fff_ffff, 499_999_999, 500_000_000]);
                (Rs::Received { anch, cltv }, *rng.pick(&[cltv as u32, cltv as u32, 0]))
            } else {
                (Rs::Offered { anch }, *rng.pick(&[0, hlim, height.min(hlim)]))
            },
        _ => (Rs::Other(1), *rng.pick(&[0, 0, hlim, height.min(hlim), THRESH])),
    };
    SweepReq {
        kind,
        ctype,
        holder_delay,
        cp_delay,
        height,
        tx: ATx { version: 2, locktime, ins, outs },
        dests: ds,
        input,
        rs,
        path,
        cn: *rng.pick(&[nh, nh, nh + 1, nh.saturating_sub(1), 0]),
        nh,
        rules: vec![],
        label: "base".to_string(),
    }
}

const SWEEP_MUTATIONS: usize = 14;

fn mutate_sweep(rng: &mut Rng, dests: &Dests, r: &mut SweepReq, m: usize) -> &'static str {
    let cltv = if let Rs::Received { cltv, .. } = r.rs { Some(cltv) } else { None };
    match m {
        0 => {
            r.tx.version = *rng.pick(&[1i32, 3, 0, -1, -2, i32::MAX, i32::MIN, 0x0100_0002]);
            "version"
        }
        1 => {
            r.tx.locktime = locktime_edges(rng, r.height, cltv);
            "locktime"
        }
        2 => {
            let i = r.input as usize % r.tx.ins.len();
            let e = r.tx.ins[i].2;
            r.tx.ins[i].2 = seq_values(rng, e, r.cp_delay);
            "sequence-of-signed-input"
        }
        3 => {
            let i = rng.below(r.tx.ins.len() as u64) as usize;
            let e = r.tx.ins[i].2;
            r.tx.ins[i].2 = seq_values(rng, e, r.cp_delay);
            "sequence-of-some-input"
        }
        4 => {
            // swap the signed input's sequence with input 0's (what a check of the wrong input misses)
            let i = r.input as usize % r.tx.ins.len();
            let s0 = r.tx.ins[0].2;
            r.tx.ins[0].2 = r.tx.ins[i].2;
            r.tx.ins[i].2 = s0;
            "swap-sequences"
        }
        5 => {
            if !r.tx.outs.is_empty() {
                let i = rng.below(r.tx.outs.len() as u64) as usize;
                let d = pick_dest(rng, r.path);
                r.dests[i] = d;
                r.tx.outs[i].1 = dests.script(d);
            }
            "destination"
        }
        6 => {
            // a foreign output in the last position of a longer list
            let d = Dest::Foreign(rng.below(3) as u8);
            r.dests.push(d);
            r.tx.outs.push((*rng.pick(&[1u64, 546, 1_000_000]), dests.script(d)));
            "append-foreign-output"
        }
        7 => {
            r.path = *rng.pick(&[PathKind::Empty, PathKind::BadLen, PathKind::Normal(21), PathKind::Normal(5), PathKind::Normal(7)]);
            "wallet-path"
        }
        8 => {
            r.input = *rng.pick(&[r.tx.ins.len() as u64, r.tx.ins.len() as u64 + 1, 0, 1, 2, u32::MAX as u64, u64::MAX]);
            "input-index"
        }
        9 => {
            r.rs = match rng.below(9) {
                0 => Rs::Offered { anch: !is_anchors(r.ctype) },
                1 => Rs::Received { anch: !is_anchors(r.ctype), cltv: r.tx.locktime as i64 },
                2 => Rs::Received { anch: is_anchors(r.ctype), cltv: -(1 + rng.below(1000) as i64) },
                3 => Rs::Received { anch: is_anchors(r.ctype), cltv: *rng.pick(&[0x7fff_ffffi64, 0x8000_0000, 0xffff_ffff, 0x1_0000_0000, -0x7fff_ffff, -0x8000_0000]) },
                4 => Rs::Received { anch: is_anchors(r.ctype), cltv: r.tx.locktime as i64 + *rng.pick(&[-1i64, 0, 1]) },
                5 => Rs::Offered { anch: is_anchors(r.ctype) },
                k => Rs::Other((k - 6) as u8 + if rng.chance(1, 2) { 1 } else { 0 }),
            };
            "redeemscript"
        }
        10 => {
            r.tx.outs.clear();
            r.dests.clear();
            "no-outputs"
        }
        11 => {
            r.cn = *rng.pick(&[r.nh + 1, r.nh + 2, r.nh + 3, u64::MAX >> 16, r.nh]);
            "commitment-number"
        }
        12 => {
            r.rules = rng.pick(&rule_sets()).clone();
            "filter"
        }
        _ => {
            // move the signed input to another position, keeping every sequence with its input
            if r.tx.ins.len() > 1 {
                let i = r.input as usize % r.tx.ins.len();
                let j = (i + 1) % r.tx.ins.len();
                r.tx.ins.swap(i, j);
                r.input = j as u64;
            }
            "move-signed-input"
        }
    }
}

fn random_sweep(rng: &mut Rng, dests: &Dests, kind: u8, ctype: u8, holder_delay: u16, cp_delay: u16, height: u32, nh: u64) -> SweepReq {
    let mut r = base_sweep(rng, dests, kind, ctype, holder_delay, cp_delay, height, nh);
    for _ in 0..(3 + rng.below(5)) {
        let m = rng.below(SWEEP_MUTATIONS as u64) as usize;
        mutate_sweep(rng, dests, &mut r, m);
    }
    if rng.chance(1, 4) {
        r.tx.ins.clear();
    }
    r.label = "malformed".to_string();
    r
}

fn coq_sweep(r: &SweepReq, level: u64, observed: u64) -> String {
    let mut it = Intern::new();
    let tx = coq_tx(&r.tx, &mut it);
    let mut tbl: Vec<String> = vec![];
    let mut seen = vec![];
    for (i, d) in r.dests.iter().enumerate() {
        let id = it.id(r.tx.outs[i].1.as_bytes());
        if !seen.contains(&id) {
            seen.push(id);
            tbl.push(format!("({}, {})", id, dest_class(*d, r.path)));
        }
    }
    format!(
        "(({}, {}, {}, {}), ({}, {}, {}, {}, {}, {}, ({}, {})), {})",
        if overflow_checks() { "Debug" } else { "Release" },
        coq_rules(&r.rules),
        level,
        r.kind,
        coq_setup(r.ctype, r.holder_delay, r.cp_delay),
        r.height,
        tx,
        r.input,
        coq_rs(&r.rs),
        coq_list(&tbl),
        r.cn,
        r.nh,
        observed
    )
}

/// the property's conjunction for an accepted sweep, computed from the request alone
fn sweep_monitor(r: &SweepReq) -> Vec<String> {
    let mut v = vec![];
    if !ref_warned(&r.rules, "policy-sweep-destination-allowlisted") {
        for (i, d) in r.dests.iter().enumerate() {
            let (a, b) = owned_by_construction(*d, r.path);
            let usable_path = matches!(r.path, PathKind::Normal(_));
            if !((a && usable_path) || b) {
                v.push(format!("output {} pays a script that is neither wallet-derivable under the supplied path nor allowlisted", i));
            }
        }
    }
    if r.tx.version != 2 {
        v.push(format!("version {} signed", r.tx.version));
    }
    let lt = r.tx.locktime as u64;
    let h2 = r.height as u64 + 2;
    let height_bound = (lt < THRESH as u64 && lt <= h2) || lt == THRESH as u64;
    let received = match (&r.rs, r.kind) {
        (Rs::Received { anch, cltv }, 1) if *anch == is_anchors(r.ctype) && cltv.unsigned_abs() <= 0x7fff_ffff => Some(*cltv),
        _ => None,
    };
    match r.kind {
        1 => match received {
            Some(cltv) =>
                if cltv < 0 || lt as i64 > cltv {
                    v.push(format!("counterparty received-HTLC sweep with lock time {} beyond the expiry {} of its script", lt, cltv));
                },
            None => {
                if r.rs != (Rs::Offered { anch: is_anchors(r.ctype) }) {
                    v.push("counterparty HTLC sweep signed for a script that is neither HTLC kind of this channel type".to_string());
                } else if !height_bound {
                    v.push(format!("lock time {} neither a height <= current height {} + 2 nor the minimum timestamp", lt, r.height));
                }
            }
        },
        _ =>
            if !height_bound {
                v.push(format!("lock time {} neither a height <= current height {} + 2 nor the minimum timestamp", lt, r.height));
            },
    }
    match r.tx.ins.get(r.input as usize) {
        None => v.push("signature for an input the transaction does not have".to_string()),
        Some((_, _, seq)) => {
            let ok = match r.kind {
                0 => *seq == r.cp_delay as u32,
                1 =>
                    if is_anchors(r.ctype) {
                        *seq == 1
                    } else {
                        NON_ANCHOR_SEQS.contains(seq)
                    },
                _ => NON_ANCHOR_SEQS.contains(seq),
            };
            if !ok {
                v.push(format!(
                    "sequence {} of the signed input {} outside the bound of a {} sweep (contest delay {}, anchors {})",
                    seq,
                    r.input,
                    ["delayed", "counterparty-HTLC", "justice"][r.kind as usize],
                    r.cp_delay,
                    is_anchors(r.ctype)
                ));
            }
        }
    }
    v
}

fn json_sweep(r: &SweepReq) -> Value {
    json!({"sweep": (["delayed", "counterparty_htlc", "justice"][r.kind as usize]), "commitment_type": ctype_name(r.ctype),
           "counterparty_selected_contest_delay": r.cp_delay, "current_height": r.height,
           "current_height_source": "the harness's own count of connected minus disconnected blocks", "tx": json_tx(&r.tx),
           "input": r.input.to_string(), "redeemscript": format!("{:?}", r.rs), "redeemscript_hex": hex::encode(rs_script(&r.rs).as_bytes()),
           "wallet_path": format!("{:?}", r.path), "destinations": r.dests.iter().map(|d| format!("{:?}", d)).collect::<Vec<_>>(),
           "commitment_number": r.cn.to_string(), "next_holder_commit_num": r.nh.to_string(), "filter_rules": r.rules, "label": r.label})
}

fn gen_sweep(rng: &mut Rng, dests: &Dests, id: usize, kind: u8, ctype: u8, hd: u16, cd: u16, height: u32, nh: u64) -> SweepReq {
    match id % 10 {
        0 => random_sweep(rng, dests, kind, ctype, hd, cd, height, nh),
        1 => base_sweep(rng, dests, kind, ctype, hd, cd, height, nh),
        _ => {
            let mut r = base_sweep(rng, dests, kind, ctype, hd, cd, height, nh);
            // one or two mutations; the pairs are cycled so that every pair of decision points meets
            let a = (id / 10) % SWEEP_MUTATIONS;
            let b = rng.below(SWEEP_MUTATIONS as u64 + 1) as usize;
            let la = mutate_sweep(rng, dests, &mut r, a);
            let mut label = la.to_string();
            if b < SWEEP_MUTATIONS && id % 10 >= 5 {
                let lb = mutate_sweep(rng, dests, &mut r, b);
                label = format!("{}+{}", la, lb);
            }
            r.label = label;
            r
        }
    }
}

fn heights(rng: &mut Rng) -> u32 {
    if rng.chance(1, 8) {
        // where `height + 2` stops being a block height (panic) or wraps
        *rng.pick(&[THRESH - 3, THRESH - 2, THRESH - 1, THRESH, U32MAX - 2, U32MAX - 1, U32MAX])
    } else {
        *rng.pick(&[0u32, 1, 3, 1000, 800_000, 800_000, 2_500_000, THRESH - 4, THRESH - 3])
    }
}

fn delays(rng: &mut Rng) -> (u16, u16) {
    *rng.pick(&[(6u16, 7u16), (6, 7), (144, 2016), (2016, 144), (1, 0), (65535, 65535), (7, 7)])
}

fn sweepval_domain(args: &Args) {
    let mut rng = Rng::new(args.seed ^ 0x5ee9);
    let world = World::new(World::default_policy(), [9u8; 32], KeyDerivationStyle::Native);
    let node = world.new_node();
    let (dests, allowlist) = Dests::new(&node);
    node.add_allowlist(&allowlist).expect("allowlist");
    let mut dist: BTreeMap<String, u64> = Default::default();
    let mut labels: BTreeMap<String, u64> = Default::default();
    let mut monitor_failures = 0u64;
    for id in 0..args.n {
        let kind = (id % 3) as u8;
        let ctype = *rng.pick(&[1u8, 3, 1, 3, 0, 2]);
        let (hd, cd) = delays(&mut rng);
        let height = heights(&mut rng);
        let r = gen_sweep(&mut rng, &dests, id, kind, ctype, hd, cd, height, 53);
        let validator = SimpleValidatorFactory::new_with_policy(real_policy(&r.rules, 253, 25_000)).make_validator(NETWORK, node.get_id(), None);
        let setup = real_setup(r.ctype, r.holder_delay, r.cp_delay);
        let cstate = ChainState { current_height: r.height, funding_depth: 6, funding_double_spent_depth: 0, closing_depth: 1 };
        let tx = real_tx(&r.tx);
        let path = real_path(r.path);
        let wallet: &dyn Wallet = &*node;
        let input = r.input as usize;
        let amount = 1_979_997u64;
        let script = rs_script(&r.rs);
        let obs = obs_val(catch_unwind(AssertUnwindSafe(|| match r.kind {
            0 => validator.validate_delayed_sweep(wallet, &setup, &cstate, &tx, input, amount, &path),
            1 => validator.validate_counterparty_htlc_sweep(wallet, &setup, &cstate, &tx, &script, input, amount, &path),
            _ => validator.validate_justice_sweep(wallet, &setup, &cstate, &tx, input, amount, &path),
        })));
        *dist.entry(obs.to_string()).or_insert(0) += 1;
        *labels.entry(r.label.clone()).or_insert(0) += 1;
        let viol = if obs == 0 { sweep_monitor(&r) } else { vec![] };
        if !viol.is_empty() {
            monitor_failures += 1;
        }
        emit(
            "CASE",
            json!({"id": id, "level": "validator", "request": json_sweep(&r), "observed": obs, "monitor_violation": viol,
                   "structured": r.label != "malformed", "coq": coq_sweep(&r, 0, obs)}),
        );
    }
    emit("STATS", json!({"kind": "sweepval", "observed_distribution(0 ok,1 panic,100+class)": dist, "labels": labels, "monitor_failures": monitor_failures}));
}

// ------------------------------------------------------------------ real channels

struct Chan {
    node: Arc<Node>,
    channel_id: ChannelId,
    dbid: u64,
    // `height` below is the harness's OWN count of the best-chain height: blocks it connected minus
    // blocks it disconnected; it never reads the channel's or the tracker's idea of the height
    /// blocks connected after the channel was created: (previous headers, previous height, proven without transactions)
    connected: Vec<(Headers, u32, bool)>,
    /// what moved the chain since the channel exists (for the replay)
    chain_log: Vec<String>,
    dests: Dests,
    height: u32,
    ctype: u8,
    holder_delay: u16,
    cp_delay: u16,
    nh: u64,
    rules: Rules,
    min_feerate: u32,
    max_feerate: u32,
}

fn make_chan(k: u64, ctype: u8, rules: &Rules, blocks: u32, hd: u16, cd: u16, nh: u64, min_feerate: u32, max_feerate: u32) -> Chan {
    // unsafe commitment types can only be set up when their own tag is downgraded
    let mut setup_rules = rules.clone();
    if ctype == 0 || ctype == 2 {
        setup_rules.insert(0, ("policy-channel-safe-type".to_string(), false, true));
    }
    let mut seed = [0u8; 32];
    seed[0] = (k % 251) as u8;
    seed[1] = 0xc9;
    let world = World::new(real_policy(&setup_rules, min_feerate, max_feerate), seed, KeyDerivationStyle::Native);
    let node = world.new_node();
    let (dests, allowlist) = Dests::new(&node);
    node.add_allowlist(&allowlist).expect("allowlist");
    {
        let mut tracker = node.get_tracker();
        for _ in 0..blocks {
            let (header, proof) = make_testnet_header(tracker.tip(), tracker.height());
            tracker.add_block(header, proof).expect("add_block");
        }
    }
    let peer = [2u8; 33];
    let (channel_id, _) = node.new_channel(1 + k, &peer, &node).expect("new_channel");
    let setup = real_setup(ctype, hd, cd);
    node.setup_channel(channel_id.clone(), None, setup, &DerivationPath::master()).expect("setup_channel");
    node.with_channel(&channel_id, |chan| {
        chan.enforcement_state.set_next_holder_commit_num_for_testing(nh);
        Ok(())
    })
    .expect("set next_holder_commit_num");
    Chan { node, channel_id, dbid: 1 + k, connected: vec![], chain_log: vec![], dests, height: blocks, ctype, holder_delay: hd, cp_delay: cd, nh, rules: setup_rules, min_feerate, max_feerate }
}

// ------------------------------------------------------------------ moving the chain

use lightning_signer::bitcoin::consensus::serialize as consensus_serialize;
use lightning_signer::chain::tracker::Headers;
use lightning_signer::txoo::proof::{ProofType, TxoProof};
use lightning_signer::txoo::spv::SpvProof;

/// the block on top of `prev`, proven either the way the chain follower proves a block that
/// touches none of the signer's watches (compact filter, SPV part without transactions) or with
/// its transactions in the SPV part
fn block_on(prev: &Headers, prev_height: u32, unmatched: bool) -> (lightning_signer::bitcoin::block::Header, TxoProof) {
    let (header, mut proof) = make_testnet_header(prev, prev_height);
    if unmatched {
        match std::mem::replace(&mut proof.proof, ProofType::ExternalBlock()) {
            ProofType::Filter(content, _all) => proof.proof = ProofType::Filter(content, SpvProof { txs: vec![], proof: None }),
            other => proof.proof = other,
        }
    }
    (header, proof)
}

/// connect `up` blocks and disconnect `down` of the newest ones again, through the node's real
/// tracker (its listeners attached) or as AddBlock / RemoveBlock messages; keeps the harness's
/// own height count in `ch.height`
fn move_chain(rng: &mut Rng, ch: &mut Chan, up: u32, down: u32, via_handler: bool) {
    let root = if via_handler { Some(make_root_handler(&ch.node, 6)) } else { None };
    for _ in 0..up {
        let unmatched = rng.chance(2, 3);
        let (prev, prev_height) = {
            let tracker = ch.node.get_tracker();
            (tracker.tip().clone(), tracker.height())
        };
        let (header, proof) = block_on(&prev, prev_height, unmatched);
        match &root {
            None => {
                ch.node.get_tracker().add_block(header, proof).expect("add_block");
            }
            Some(h) => {
                let m = msgs::AddBlock { header: Octets(consensus_serialize(&header)), unspent_proof: Some(msgs::DebugTxoProof(proof)) };
                let msg = msgs::from_vec(m.as_vec()).expect("AddBlock survives the wire");
                h.handle(msg).expect("AddBlock");
            }
        }
        ch.connected.push((prev, prev_height, unmatched));
        ch.height += 1;
        ch.chain_log.push(format!("add({},{})", if unmatched { "filter-proof-without-txs" } else { "proof-with-txs" }, if via_handler { "AddBlock" } else { "tracker" }));
    }
    for _ in 0..down {
        let (prev, prev_height, unmatched) = match ch.connected.pop() {
            Some(x) => x,
            None => break,
        };
        let (_header, proof) = block_on(&prev, prev_height, unmatched);
        match &root {
            None => {
                ch.node.get_tracker().remove_block(proof, prev).expect("remove_block");
            }
            Some(h) => {
                let m = msgs::RemoveBlock {
                    unspent_proof: Some(vls_protocol::serde_bolt::LargeOctets(consensus_serialize(&proof))),
                    prev_block_header: prev.0,
                    prev_filter_header: prev.1,
                };
                let msg = msgs::from_vec(m.as_vec()).expect("RemoveBlock survives the wire");
                h.handle(msg).expect("RemoveBlock");
            }
        }
        ch.height -= 1;
        ch.chain_log.push(format!("remove({},{})", if unmatched { "filter-proof-without-txs" } else { "proof-with-txs" }, if via_handler { "RemoveBlock" } else { "tracker" }));
    }
    // the tracker itself must agree with the count (a harness error otherwise, not a verdict)
    assert_eq!(ch.node.get_tracker().height(), ch.height, "harness lost count of the chain height");
}

/// some cases move the chain first: growth, and reorganisations of depth 1..3
fn maybe_move_chain(rng: &mut Rng, ch: &mut Chan, via_handler: bool) {
    match rng.below(6) {
        0 => {
            let up = 1 + rng.below(3) as u32;
            move_chain(rng, ch, up, up, via_handler); // a reorg back to where we were
        }
        1 => {
            let up = 1 + rng.below(3) as u32;
            let down = rng.below(up as u64 + 1) as u32;
            move_chain(rng, ch, up, down, via_handler);
        }
        2 => {
            // disconnect older blocks too (deeper than what was just connected)
            let down = 1 + rng.below(3) as u32;
            move_chain(rng, ch, 0, down, via_handler);
        }
        _ => {}
    }
}

fn verify_sig(tx: &Transaction, input: usize, sig: &Signature, pubkey: &PublicKey, amount: u64, script: &ScriptBuf, ty: EcdsaSighashType) -> bool {
    let secp = Secp256k1::verification_only();
    match SighashCache::new(tx).p2wsh_signature_hash(input, script, Amount::from_sat(amount), ty) {
        Ok(h) => secp.verify_ecdsa(&Message::from_digest(h.to_byte_array()), sig, pubkey).is_ok(),
        Err(_) => false,
    }
}

fn sweepchan_domain(args: &Args) {
    let mut rng = Rng::new(args.seed ^ 0xc4a9);
    let mut pool: HashMap<String, Chan> = HashMap::new();
    let mut dist: BTreeMap<String, u64> = Default::default();
    let mut labels: BTreeMap<String, u64> = Default::default();
    let (mut monitor_failures, mut signed, mut sig_checked) = (0u64, 0u64, 0u64);
    let sets = rule_sets();
    for id in 0..args.n {
        // ids 0..2: the multi-input witnesses of the sequence check (signed input 1), end to end
        let witness = id < 3;
        let kind = (id % 3) as u8;
        let ctype = if witness { 1 } else { *rng.pick(&[1u8, 3, 1, 3, 0, 2]) };
        let ri = if witness { 0 } else { rng.below(6) as usize };
        let blocks = if witness { 3 } else { *rng.pick(&[0u32, 3, 5]) };
        let (hd, cd) = if witness { (6, 7) } else { *rng.pick(&[(6u16, 7u16), (144, 2016)]) };
        let key = format!("{}-{}-{}-{}", ctype, ri, blocks, cd);
        if !pool.contains_key(&key) {
            let k = pool.len() as u64 + 1000 * (args.seed % 1000);
            pool.insert(key.clone(), make_chan(k, ctype, &sets[ri], blocks, hd, cd, 53, 253, 25_000));
        }
        {
            let chm = pool.get_mut(&key).unwrap();
            if !witness {
                maybe_move_chain(&mut rng, chm, false);
            }
        }
        let ch = pool.get(&key).unwrap();
        let mut r = if witness {
            let mut r = base_sweep(&mut rng, &ch.dests, kind, ctype, hd, cd, ch.height, ch.nh);
            let good = expected_seq(&mut rng, kind, ctype, cd);
            r.tx.ins = vec![(txid_of(1), 0, good), (txid_of(2), 4, if kind == 0 { 42 } else { 65535 })];
            r.input = 1;
            r.cn = ch.nh;
            r.label = "witness:unchecked-sequence-of-signed-input".to_string();
            r
        } else {
            gen_sweep(&mut rng, &ch.dests, id, kind, ctype, hd, cd, ch.height, ch.nh)
        };
        // the filter is the channel's
        r.rules = ch.rules.clone();
        let tx = real_tx(&r.tx);
        let path = real_path(r.path);
        let input = r.input as usize;
        let amount = 1_979_997u64;
        let script = rs_script(&r.rs);
        let remote_point = make_test_pubkey(10);
        let revocation_secret = SecretKey::from_slice(&[0x35u8; 32]).unwrap();
        let cn = r.cn;
        let res: std::thread::Result<Result<Signature, Status>> = catch_unwind(AssertUnwindSafe(|| {
            ch.node.with_channel(&ch.channel_id, |chan| match r.kind {
                0 => chan.sign_delayed_sweep(&tx, input, cn, &script, amount, &path),
                1 => chan.sign_counterparty_htlc_sweep(&tx, input, &remote_point, &script, amount, &path),
                _ => chan.sign_justice_sweep(&tx, input, &revocation_secret, &script, amount, &path),
            })
        }));
        let obs = obs_status(&res);
        *dist.entry(obs.to_string()).or_insert(0) += 1;
        *labels.entry(r.label.clone()).or_insert(0) += 1;
        let mut viol = vec![];
        let mut sig_valid: Option<bool> = None;
        if obs == 0 {
            signed += 1;
            viol = sweep_monitor(&r);
            // the signature is one for the input that was named
            if let Ok(Ok(sig)) = &res {
                if r.kind <= 1 {
                    let pk = if r.kind == 0 {
                        match ch.node.with_channel(&ch.channel_id, |chan| chan.get_per_commitment_point(cn)) {
                            Ok(point) => Some(get_channel_delayed_payment_pubkey(&ch.node, &ch.channel_id, &point)),
                            Err(_) => None,
                        }
                    } else {
                        Some(get_channel_htlc_pubkey(&ch.node, &ch.channel_id, &remote_point))
                    };
                    let ok = match pk {
                        Some(pk) => verify_sig(&tx, input, sig, &pk, amount, &script, EcdsaSighashType::All),
                        None => false,
                    };
                    sig_checked += 1;
                    sig_valid = Some(ok);
                    if !ok {
                        viol.push("the returned signature does not verify for the named input under SIGHASH_ALL".to_string());
                    }
                }
            }
        }
        if !viol.is_empty() {
            monitor_failures += 1;
        }
        let poisoned = obs == 1;
        emit(
            "CASE",
            json!({"id": id, "level": "channel", "request": json_sweep(&r), "observed": obs, "monitor_violation": viol,
                   "chain_history_of_this_channel": ch.chain_log.iter().rev().take(60).rev().collect::<Vec<_>>(),
                   "signature_verifies_for_named_input": sig_valid, "structured": r.label != "malformed",
                   "coq": coq_sweep(&r, 1, obs)}),
        );
        if poisoned {
            pool.remove(&key);
        }
    }
    emit(
        "STATS",
        json!({"kind": "sweepchan", "observed_distribution(0 signed,1 panic,109 invalid argument,150 refused)": dist, "labels": labels,
               "signed": signed, "signatures_verified": sig_checked, "channels": pool.len(), "monitor_failures": monitor_failures}),
    );
}

// ------------------------------------------------------------------ second-level HTLC transactions

#[derive(Clone, Debug)]
struct HtlcReq {
    is_cp: bool,
    ctype: u8,
    holder_delay: u16,
    cp_delay: u16,
    min_feerate: u32,
    max_feerate: u32,
    rules: Rules,
    tx: ATx,
    /// what output 0 was built from: (revocation key variant, delay, delayed key variant); None = some other script
    out0: Option<(u8, u16, u8)>,
    rs: Rs,
    amount: u64,
    point_given: bool,
    cn: u64,
    nh: u64,
    label: String,
}

fn htlc_weight(ctype: u8, offered: bool) -> u64 {
    // LDK: the anchor weights go with the zero-fee-HTLC feature only
    let a = ctype == 3;
    match (offered, a) {
        (true, false) => 663,
        (true, true) => 666,
        (false, false) => 703,
        (false, true) => 706,
    }
}

struct KeySet {
    /// [canonical, other per-commitment point]
    revocation: [PublicKey; 2],
    delayed: [PublicKey; 2],
}

fn out_script(keys: &KeySet, rev: u8, delay: u16, del: u8) -> ScriptBuf {
    revokeable_script(&keys.revocation[rev as usize], delay, &keys.delayed[del as usize]).to_p2wsh()
}

fn fee_edges(rng: &mut Rng, w: u64, min: u32, max: u32) -> u64 {
    let f = |r: u64| r * w / 1000;
    let r = *rng.pick(&[
        min as u64,
        min as u64,
        (min as u64).saturating_sub(1),
        min as u64 + 1,
        max as u64,
        (max as u64).saturating_sub(1),
        max as u64 + 1,
        max as u64 + 2,
        1000,
        5000,
        0,
        1,
        U32MAX as u64,
        U32MAX as u64 + 1,
        (1u64 << 32) + 302,
    ]);
    f(r) + *rng.pick(&[0u64, 0, 0, 0, 1])
}

fn base_htlc(rng: &mut Rng, is_cp: bool, ctype: u8, hd: u16, cd: u16, min: u32, max: u32, nh: u64) -> HtlcReq {
    let offered = rng.chance(1, 2);
    let anch = is_anchors(ctype);
    let w = htlc_weight(ctype, offered);
    let amount = *rng.pick(&[1_000_000u64, 1_000_001, 10_000_999, 100_000, 123_457, 2_100_000_000_000_000]);
    let rate = *rng.pick(&[min as u64, min as u64 + 1, 1000.max(min as u64).min(max as u64), (max as u64).saturating_sub(1), (min as u64 + max as u64) / 2]);
    let fee = if ctype == 3 { 0 } else { rate * w / 1000 };
    let delay = if is_cp { hd } else { cd };
    let locktime = if offered { *rng.pick(&[2u32 << 16, 800_144, 1, THRESH - 1]) } else { 0 };
    // LDK's builder follows the zero-fee feature for the sequence
    let seq = if ctype == 3 { 1 } else { 0 };
    HtlcReq {
        is_cp,
        ctype,
        holder_delay: hd,
        cp_delay: cd,
        min_feerate: min,
        max_feerate: max,
        rules: vec![],
        tx: ATx { version: 2, locktime, ins: vec![(txid_of(2), rng.below(4) as u32, seq)], outs: vec![(amount.saturating_sub(fee), ScriptBuf::new())] },
        out0: Some((0, delay, 0)),
        rs: if offered { Rs::Offered { anch } } else { Rs::Received { anch, cltv: 800_144 } },
        amount,
        point_given: rng.chance(1, 2),
        cn: *rng.pick(&[nh, nh, nh + 1, nh.saturating_sub(1)]),
        nh,
        label: "base".to_string(),
    }
}

const HTLC_MUTATIONS: usize = 17;

fn mutate_htlc(rng: &mut Rng, r: &mut HtlcReq, m: usize) -> &'static str {
    let offered = matches!(r.rs, Rs::Offered { .. });
    let w = htlc_weight(r.ctype, offered);
    match m {
        0 => {
            r.tx.version = *rng.pick(&[1i32, 3, 0, -1]);
            "version"
        }
        1 => {
            r.tx.locktime = *rng.pick(&[0u32, 1, 2 << 16, THRESH - 1, THRESH, THRESH + 1, U32MAX, r.tx.locktime.wrapping_add(1)]);
            "locktime"
        }
        2 => {
            if !r.tx.ins.is_empty() {
                r.tx.ins[0].2 = *rng.pick(&[0u32, 1, 2, 0xffff_fffd, 0xffff_ffff, r.cp_delay as u32]);
            }
            "sequence"
        }
        3 => {
            let (_, d, _) = r.out0.unwrap_or((0, 0, 0));
            let other = if d == r.holder_delay { r.cp_delay } else { r.holder_delay };
            r.out0 = Some((0, *rng.pick(&[other, other, d.wrapping_add(1), d.wrapping_sub(1), 0]), 0));
            "to-self-delay"
        }
        4 => {
            if let Some((_, d, k)) = r.out0 {
                r.out0 = Some((1, d, k));
            }
            "revocation-key"
        }
        5 => {
            if let Some((v, d, _)) = r.out0 {
                r.out0 = Some((v, d, 1));
            }
            "delayed-key"
        }
        6 => {
            r.out0 = None;
            "output-script"
        }
        7 => {
            if !r.tx.outs.is_empty() {
                let fee = fee_edges(rng, w, r.min_feerate, r.max_feerate);
                r.tx.outs[0].0 = r.amount.saturating_sub(fee);
            }
            "fee"
        }
        8 => {
            if !r.tx.outs.is_empty() {
                r.tx.outs[0].0 = *rng.pick(&[r.amount, r.amount.saturating_add(1), 0, r.amount - r.amount.min(1), u64::MAX]);
            }
            "output-value"
        }
        9 => {
            r.amount = *rng.pick(&[0u64, 546, 1 << 32, u64::MAX / 1000, u64::MAX / 1000 + 1, u64::MAX / 1000 + 1_000_000, u64::MAX]);
            if !r.tx.outs.is_empty() {
                let fee = if r.ctype == 3 { 0 } else { *rng.pick(&[r.min_feerate as u64, 1000]) * w / 1000 };
                r.tx.outs[0].0 = *rng.pick(&[r.amount.saturating_sub(fee), r.amount.saturating_sub(fee), ((r.amount as u128 * 1000) % (1u128 << 64) / 1000) as u64]);
            }
            "amount"
        }
        10 => {
            r.tx.ins.push((txid_of(9), 1, *rng.pick(&[0u32, 1, 0xffff_fffd])));
            "extra-input"
        }
        11 => {
            r.tx.outs.push((*rng.pick(&[0u64, 330, 1_000_000]), Address::p2wpkh(&make_test_bitcoin_pubkey(50), NETWORK).script_pubkey()));
            "extra-output"
        }
        12 => {
            if rng.chance(1, 2) {
                r.tx.outs.clear();
                "no-outputs"
            } else {
                r.tx.ins.clear();
                "no-inputs"
            }
        }
        13 => {
            let a = is_anchors(r.ctype);
            r.rs = match rng.below(7) {
                0 => Rs::Offered { anch: !a },
                1 => Rs::Received { anch: !a, cltv: 800_144 },
                2 => Rs::Offered { anch: a },
                3 => Rs::Received { anch: a, cltv: *rng.pick(&[0i64, 1, -5, 0x7fff_ffff, 0x8000_0000]) },
                k => Rs::Other((k - 4) as u8),
            };
            "redeemscript"
        }
        14 => {
            r.rules = rng.pick(&rule_sets()).clone();
            "filter"
        }
        15 => {
            r.point_given = false;
            r.cn = *rng.pick(&[r.nh + 1, r.nh + 2, r.nh + 3, u64::MAX >> 16]);
            "commitment-number"
        }
        _ => {
            if !r.tx.ins.is_empty() {
                r.tx.ins[0].0 = txid_of(*rng.pick(&[3u8, 4]));
                r.tx.ins[0].1 = *rng.pick(&[0u32, 7, U32MAX]);
            }
            "outpoint"
        }
    }
}

fn gen_htlc(rng: &mut Rng, id: usize, is_cp: bool, ctype: u8, hd: u16, cd: u16, min: u32, max: u32, nh: u64) -> HtlcReq {
    let mut r = base_htlc(rng, is_cp, ctype, hd, cd, min, max, nh);
    match id % 10 {
        0 => {
            for _ in 0..(3 + rng.below(5)) {
                let m = rng.below(HTLC_MUTATIONS as u64) as usize;
                mutate_htlc(rng, &mut r, m);
            }
            r.label = "malformed".to_string();
        }
        1 => {}
        _ => {
            let a = (id / 10) % HTLC_MUTATIONS;
            let b = rng.below(HTLC_MUTATIONS as u64 + 1) as usize;
            let la = mutate_htlc(rng, &mut r, a);
            let mut label = la.to_string();
            if b < HTLC_MUTATIONS && id % 10 >= 5 {
                let lb = mutate_htlc(rng, &mut r, b);
                label = format!("{}+{}", la, lb);
            }
            r.label = label;
        }
    }
    r
}

/// fill in output 0's script from its description
fn finish_htlc(r: &mut HtlcReq, keys: &KeySet) {
    if let Some(o) = r.tx.outs.get_mut(0) {
        o.1 = match r.out0 {
            Some((rev, d, del)) => out_script(keys, rev, d, del),
            None => Address::p2wpkh(&make_test_bitcoin_pubkey(51), NETWORK).script_pubkey(),
        };
    }
}

fn coq_htlc(r: &HtlcReq, keys: &KeySet, level: u64, observed: u64) -> String {
    let mut it = Intern::new();
    let tx = coq_tx(&r.tx, &mut it);
    let rs_id = it.id(rs_script(&r.rs).as_bytes());
    // the script table: the canonical keys (1, 2) with either negotiated delay
    let a = it.id(out_script(keys, 0, r.holder_delay, 0).as_bytes());
    let b = it.id(out_script(keys, 0, r.cp_delay, 0).as_bytes());
    let tbl = vec![format!("(1, {}, 2, {})", r.holder_delay, a), format!("(1, {}, 2, {})", r.cp_delay, b)];
    format!(
        "(({}, {}, (mkPol 4 2016 1000000001 1000 16777216 false {} {}), {}, {}), ({}, (1, 2), {}, {}, {}, {}, {}, ({}, {}, {})), {})",
        if overflow_checks() { "Debug" } else { "Release" },
        coq_rules(&r.rules),
        r.min_feerate,
        r.max_feerate,
        level,
        if r.is_cp { 1 } else { 0 },
        coq_setup(r.ctype, r.holder_delay, r.cp_delay),
        coq_list(&tbl),
        tx,
        rs_id,
        coq_rs(&r.rs),
        r.amount,
        coq_bool(r.point_given),
        r.cn,
        r.nh,
        observed
    )
}

/// the property's conjunction for an accepted second-level HTLC transaction (u128 arithmetic)
fn htlc_monitor(r: &HtlcReq, keys: &KeySet) -> (Vec<String>, bool) {
    let mut v = vec![];
    // outside the theorem's domain: the non-zero-fee anchors type, and a wrapped amount in release builds
    let out_of_domain = r.ctype == 2 || (r.amount as u128 * 1000 > u64::MAX as u128);
    let a = is_anchors(r.ctype);
    let offered = match &r.rs {
        Rs::Offered { anch } if *anch == a => Some(true),
        Rs::Received { anch, cltv } if *anch == a && cltv.unsigned_abs() <= 0x7fff_ffff => Some(false),
        _ => None,
    };
    let offered = match offered {
        None => {
            v.push("signed for a redeemscript that is neither HTLC kind of this channel type".to_string());
            return (v, out_of_domain);
        }
        Some(o) => o,
    };
    if r.tx.ins.is_empty() || r.tx.outs.is_empty() {
        v.push("signed a transaction without input 0 / output 0".to_string());
        return (v, out_of_domain);
    }
    if r.tx.version != 2 {
        v.push(format!("version {}", r.tx.version));
    }
    if !offered && r.tx.locktime != 0 {
        v.push(format!("HTLC-success with lock time {}", r.tx.locktime));
    }
    if offered && r.tx.locktime == 0 && !ref_warned(&r.rules, "policy-htlc-locktime") {
        v.push("HTLC-timeout with lock time 0".to_string());
    }
    if r.tx.ins[0].2 != if a { 1 } else { 0 } {
        v.push(format!("input sequence {} (BOLT-3: {})", r.tx.ins[0].2, if a { 1 } else { 0 }));
    }
    let delay = if r.is_cp { r.holder_delay } else { r.cp_delay };
    if r.tx.outs[0].1 != out_script(keys, 0, delay, 0) {
        v.push("output 0 is not the revokeable script of the negotiated delay, revocation key and delayed key".to_string());
    }
    if !a && (r.tx.ins.len() != 1 || r.tx.outs.len() != 1) {
        v.push("SIGHASH_ALL signature over a transaction with more than the HTLC input and output".to_string());
    }
    // fee: exactly the BOLT-3 fee of some rate within policy
    let value = r.tx.outs[0].0 as u128;
    let amount = r.amount as u128;
    if value > amount {
        v.push("output above the HTLC amount".to_string());
    } else {
        let fee = amount - value;
        if r.ctype == 3 {
            if fee != 0 {
                v.push(format!("zero-fee HTLC transaction pays {} sat of the HTLC in fees", fee));
            }
        } else if !ref_warned(&r.rules, "policy-htlc-fee-range") {
            let w = (if a { if offered { 666 } else { 706 } } else if offered { 663 } else { 703 }) as u128;
            // rates whose BOLT-3 fee floor(r*w/1000) is this fee: [ceil(fee*1000/w), ceil((fee+1)*1000/w) - 1]
            let lo = (fee * 1000 + w - 1) / w;
            let hi = ((fee + 1) * 1000 + w - 1) / w - 1;
            let lo2 = lo.max(r.min_feerate as u128);
            let hi2 = hi.min(r.max_feerate as u128);
            if lo > hi {
                v.push(format!("fee {} is not the BOLT-3 fee of any rate at weight {}", fee, w));
            } else if lo2 > hi2 {
                v.push(format!("fee {} corresponds to rates {}..{} per kw, outside [{}, {}]", fee, lo, hi, r.min_feerate, r.max_feerate));
            }
        }
    }
    (v, out_of_domain)
}

fn json_htlc(r: &HtlcReq) -> Value {
    json!({"call": if r.is_cp { "sign_counterparty_htlc_tx" } else { "sign_holder_htlc_tx" }, "commitment_type": ctype_name(r.ctype),
           "holder_selected_contest_delay": r.holder_delay, "counterparty_selected_contest_delay": r.cp_delay,
           "min_feerate_per_kw": r.min_feerate, "max_feerate_per_kw": r.max_feerate, "filter_rules": r.rules,
           "tx": json_tx(&r.tx), "output0": format!("{:?}", r.out0), "redeemscript": format!("{:?}", r.rs),
           "htlc_amount_sat": r.amount.to_string(), "per_commitment_point_supplied": r.point_given,
           "commitment_number": r.cn.to_string(), "next_holder_commit_num": r.nh.to_string(), "label": r.label})
}

fn feerates(rng: &mut Rng) -> (u32, u32) {
    *rng.pick(&[(253u32, 25_000u32), (253, 25_000), (253, 333_333), (1000, 1000), (0, U32MAX), (5000, 253), (253, U32MAX - 1)])
}

fn keys_from(points_a: &ChannelPublicKeys, points_b: &ChannelPublicKeys, point: &PublicKey) -> TxCreationKeys {
    let secp = Secp256k1::new();
    TxCreationKeys::derive_new(
        &secp,
        point,
        &points_a.delayed_payment_basepoint,
        &points_a.htlc_basepoint,
        &points_b.revocation_basepoint,
        &points_b.htlc_basepoint,
    )
}

fn keyset(canon: &TxCreationKeys, other: &TxCreationKeys) -> KeySet {
    KeySet {
        revocation: [canon.revocation_key.to_public_key(), other.revocation_key.to_public_key()],
        delayed: [canon.broadcaster_delayed_payment_key.to_public_key(), other.broadcaster_delayed_payment_key.to_public_key()],
    }
}

fn htlcval_domain(args: &Args) {
    let mut rng = Rng::new(args.seed ^ 0x471c);
    let mut dist: BTreeMap<String, u64> = Default::default();
    let mut labels: BTreeMap<String, u64> = Default::default();
    let (mut monitor_failures, mut out_of_domain_accepts) = (0u64, 0u64);
    let base_setup = make_test_channel_setup();
    let holder_points = ChannelPublicKeys {
        funding_pubkey: make_test_pubkey(60),
        revocation_basepoint: make_test_pubkey(61).into(),
        payment_point: make_test_pubkey(62),
        delayed_payment_basepoint: make_test_pubkey(63).into(),
        htlc_basepoint: make_test_pubkey(64).into(),
    };
    let cp_points = base_setup.counterparty_points.clone();
    let point = make_test_pubkey(10);
    let other_point = make_test_pubkey(11);
    for id in 0..args.n {
        let is_cp = id % 2 == 1;
        let ctype = *rng.pick(&[1u8, 3, 1, 3, 0, 2]);
        let (hd, cd) = delays(&mut rng);
        let (min, max) = feerates(&mut rng);
        let mut r = gen_htlc(&mut rng, id, is_cp, ctype, hd, cd, min, max, 53);
        r.point_given = true; // no channel here
        let (a, b) = if is_cp { (&cp_points, &holder_points) } else { (&holder_points, &cp_points) };
        let txkeys = keys_from(a, b, &point);
        let keys = keyset(&txkeys, &keys_from(a, b, &other_point));
        finish_htlc(&mut r, &keys);
        let validator = SimpleValidatorFactory::new_with_policy(real_policy(&r.rules, min, max)).make_validator(NETWORK, make_test_pubkey(1), None);
        let setup = real_setup(r.ctype, r.holder_delay, r.cp_delay);
        let cstate = ChainState { current_height: 1000, funding_depth: 6, funding_double_spent_depth: 0, closing_depth: 0 };
        let tx = real_tx(&r.tx);
        let script = rs_script(&r.rs);
        let witscript = revokeable_script(&keys.revocation[0], if is_cp { hd } else { cd }, &keys.delayed[0]);
        let amount = r.amount;
        let obs = obs_val(catch_unwind(AssertUnwindSafe(|| {
            let (feerate, htlc, _sighash, _ty) = validator.decode_and_validate_htlc_tx(is_cp, &setup, &txkeys, &tx, &script, amount, &witscript)?;
            validator.validate_htlc_tx(&setup, &cstate, is_cp, &htlc, feerate)
        })));
        *dist.entry(obs.to_string()).or_insert(0) += 1;
        *labels.entry(r.label.clone()).or_insert(0) += 1;
        let (mut viol, ood) = if obs == 0 { htlc_monitor(&r, &keys) } else { (vec![], false) };
        if obs == 0 && ood {
            out_of_domain_accepts += 1;
            viol.clear();
        }
        if !viol.is_empty() {
            monitor_failures += 1;
        }
        emit(
            "CASE",
            json!({"id": id, "level": "validator", "request": json_htlc(&r), "observed": obs, "monitor_violation": viol,
                   "accepted_outside_theorem_domain": obs == 0 && ood, "structured": r.label != "malformed",
                   "coq": coq_htlc(&r, &keys, 0, obs)}),
        );
    }
    emit(
        "STATS",
        json!({"kind": "htlcval", "observed_distribution(0 ok,1 panic,100+class)": dist, "labels": labels,
               "accepted_outside_theorem_domain": out_of_domain_accepts, "monitor_failures": monitor_failures}),
    );
}

fn htlcchan_domain(args: &Args) {
    let mut rng = Rng::new(args.seed ^ 0x47c4);
    let mut pool: HashMap<String, Chan> = HashMap::new();
    let mut dist: BTreeMap<String, u64> = Default::default();
    let mut labels: BTreeMap<String, u64> = Default::default();
    let (mut monitor_failures, mut signed, mut sig_checked, mut out_of_domain_accepts) = (0u64, 0u64, 0u64, 0u64);
    let sets = rule_sets();
    let other_point = make_test_pubkey(11);
    for id in 0..args.n {
        let is_cp = id % 2 == 1;
        let ctype = *rng.pick(&[1u8, 3, 1, 3, 0, 2]);
        let ri = *rng.pick(&[0usize, 0, 6, 7, 8]);
        let (hd, cd) = *rng.pick(&[(6u16, 7u16), (144, 2016)]);
        let (min, max) = *rng.pick(&[(253u32, 25_000u32), (1000, 1000), (0, U32MAX)]);
        let key = format!("{}-{}-{}-{}", ctype, ri, cd, max);
        if !pool.contains_key(&key) {
            let k = pool.len() as u64 + 1000 * (args.seed % 1000) + 500;
            pool.insert(key.clone(), make_chan(k, ctype, &sets[ri], 3, hd, cd, 53, min, max));
        }
        let ch = pool.get(&key).unwrap();
        let mut r = gen_htlc(&mut rng, id, is_cp, ctype, hd, cd, min, max, ch.nh);
        r.rules = ch.rules.clone();
        // the per-commitment point the request names
        let remote_point = make_test_pubkey(10);
        let point_res: Result<Option<PublicKey>, Status> = ch.node.with_channel(&ch.channel_id, |chan| {
            if is_cp {
                Ok(Some(remote_point))
            } else if r.point_given {
                Ok(Some(chan.get_per_commitment_point(ch.nh)?))
            } else {
                Ok(chan.get_per_commitment_point(r.cn).ok())
            }
        });
        let (holder_points, cp_points) = ch
            .node
            .with_channel(&ch.channel_id, |chan| Ok((chan.get_channel_basepoints(), chan.setup.counterparty_points.clone())))
            .expect("points");
        // when the commitment number is refused there is no point; the keys are then irrelevant
        let point = point_res.expect("point").unwrap_or(remote_point);
        let (a, b) = if is_cp { (&cp_points, &holder_points) } else { (&holder_points, &cp_points) };
        let txkeys = keys_from(a, b, &point);
        let keys = keyset(&txkeys, &keys_from(a, b, &other_point));
        finish_htlc(&mut r, &keys);
        let tx = real_tx(&r.tx);
        let script = rs_script(&r.rs);
        let witscript = revokeable_script(&keys.revocation[0], if is_cp { hd } else { cd }, &keys.delayed[0]);
        let amount = r.amount;
        let (cn, given) = (r.cn, r.point_given);
        let res = catch_unwind(AssertUnwindSafe(|| {
            ch.node.with_channel(&ch.channel_id, |chan| {
                if is_cp {
                    chan.sign_counterparty_htlc_tx(&tx, &remote_point, &script, amount, &witscript)
                } else {
                    chan.sign_holder_htlc_tx(&tx, cn, if given { Some(point) } else { None }, &script, amount, &witscript)
                }
            })
        }));
        let obs = obs_status(&res);
        *dist.entry(obs.to_string()).or_insert(0) += 1;
        *labels.entry(r.label.clone()).or_insert(0) += 1;
        let mut viol = vec![];
        let mut ood = false;
        let mut sig_valid: Option<bool> = None;
        if obs == 0 {
            signed += 1;
            let (v, o) = htlc_monitor(&r, &keys);
            viol = v;
            ood = o;
            if let Ok(Ok(ts)) = &res {
                let pk = get_channel_htlc_pubkey(&ch.node, &ch.channel_id, &point);
                let ty = if is_anchors(r.ctype) { EcdsaSighashType::SinglePlusAnyoneCanPay } else { EcdsaSighashType::All };
                let ok = ts.typ == ty && verify_sig(&tx, 0, &ts.sig, &pk, amount, &script, ty);
                sig_checked += 1;
                sig_valid = Some(ok);
                if !ok && !ood {
                    viol.push("the returned signature does not verify for the submitted transaction under the channel's sighash type".to_string());
                }
            }
            if ood {
                out_of_domain_accepts += 1;
                viol.clear();
            }
        }
        if !viol.is_empty() {
            monitor_failures += 1;
        }
        let poisoned = obs == 1;
        emit(
            "CASE",
            json!({"id": id, "level": "channel", "request": json_htlc(&r), "observed": obs, "monitor_violation": viol,
                   "accepted_outside_theorem_domain": obs == 0 && ood, "signature_verifies": sig_valid,
                   "structured": r.label != "malformed", "coq": coq_htlc(&r, &keys, 1, obs)}),
        );
        if poisoned {
            pool.remove(&key);
        }
    }
    emit(
        "STATS",
        json!({"kind": "htlcchan", "observed_distribution(0 signed,1 panic,109 invalid argument,150 refused)": dist, "labels": labels,
               "signed": signed, "signatures_verified": sig_checked, "channels": pool.len(),
               "accepted_outside_theorem_domain": out_of_domain_accepts, "monitor_failures": monitor_failures}),
    );
}

// ------------------------------------------------------------------ handler level

use lightning_signer::bitcoin::bip32::Fingerprint;
use lightning_signer::bitcoin::psbt::Psbt;
use lightning_signer::bitcoin::secp256k1::XOnlyPublicKey;
use lightning_signer::util::test_utils::get_channel_revocation_pubkey;
use vls_protocol::model::{DisclosedSecret, PubKey};
use vls_protocol::msgs::{self, Message as WireMessage, SerBolt};
use vls_protocol::serde_bolt::{Octets, WithSize};
use vls_protocol_signer::handler::Handler;

const PEER: [u8; 33] = [2u8; 33];

/// INDEPENDENT MAPPING — what each wire field must become at the Channel call (written from
/// the protocol's meaning, not from handler.rs):
///   * input index      per-channel messages (SignDelayedPaymentToUs, SignRemoteHtlcToUs,
///                      SignPenaltyToUs, SignLocalHtlcTx, SignRemoteHtlcTx) sign input 0;
///                      SignAny* sign `input`
///   * amount           psbt.inputs[that input].witness_utxo.value, satoshi, no unit conversion
///   * script code      `wscript`, byte for byte
///   * transaction      the message's `tx` (not the PSBT's unsigned_tx)
///   * key              delayed sweep: delayed-payment key of holder commitment
///                      `commitment_number`; remote HTLC sweep / remote HTLC tx: HTLC key tweaked
///                      by `remote_per_commitment_point`; penalty: revocation key of
///                      `revocation_secret`; local HTLC tx: HTLC key of holder commitment
///                      `commitment_number`
///   * wallet path      the single key origin of PSBT output 0 (bip32_derivation, else
///                      tap_key_origins), the empty path when it has none; it is the one path
///                      every output is judged under
///   * channel          peer id + dbid (SignAny*), the handler's channel otherwise
///   * sighash type     ALL for sweeps; HTLC transactions: SINGLE|ANYONECANPAY with anchors
/// A second-level HTLC transaction is validated and signed at input 0 / output 0 only
/// (channel.rs sign_htlc_tx): for SignAnyLocalHtlcTx with input k the amount is PSBT input k's
/// and the signature is over input 0 (recorded in the evidence as a limit, see notes).
struct Glue {
    any: bool,
    proto: u32,
    found: bool,
    wire_input: u32,
    /// witness_utxo value per PSBT input
    psbt_ins: Vec<Option<u64>>,
    /// key origins per PSBT output: (bip32 paths, taproot paths)
    psbt_outs: Vec<(Vec<PathKind>, Vec<PathKind>)>,
    /// witness_script per PSBT output (HTLC messages)
    psbt_wits: Vec<bool>,
    label: String,
}

fn build_psbt(tx: &ATx, g: &Glue, witscript: &ScriptBuf) -> Psbt {
    // the PSBT's own transaction only provides the shape; the signer must use the message's tx
    let n_in = g.psbt_ins.len();
    let n_out = if g.psbt_wits.is_empty() { g.psbt_outs.len() } else { g.psbt_wits.len() };
    let mut shape = tx.clone();
    while shape.ins.len() < n_in {
        shape.ins.push((txid_of(0x70 + shape.ins.len() as u8), 0, 0));
    }
    shape.ins.truncate(n_in.max(1));
    while shape.outs.len() < n_out {
        shape.outs.push((1, ScriptBuf::new()));
    }
    shape.outs.truncate(n_out);
    let mut psbt = Psbt::from_unsigned_tx(real_tx(&shape)).expect("psbt");
    // the witness_utxo script is the p2wsh of whatever; the signer reads the value only
    for (i, a) in g.psbt_ins.iter().enumerate() {
        if i < psbt.inputs.len() {
            psbt.inputs[i].witness_utxo = a.map(|v| TxOut { value: Amount::from_sat(v), script_pubkey: witscript.to_p2wsh() });
        }
    }
    let secp = Secp256k1::new();
    for (j, (b, t)) in g.psbt_outs.iter().enumerate() {
        if j >= psbt.outputs.len() {
            break;
        }
        for (n, p) in b.iter().enumerate() {
            psbt.outputs[j].bip32_derivation.insert(make_test_pubkey(70 + (2 * j + n) as u8), (Fingerprint::default(), real_path(*p)));
        }
        for (n, p) in t.iter().enumerate() {
            let (x, _) = XOnlyPublicKey::from_keypair(&secp256k1::Keypair::from_secret_key(&secp, &SecretKey::from_slice(&[90 + (2 * j + n) as u8; 32]).unwrap()));
            psbt.outputs[j].tap_key_origins.insert(x, (vec![], (Fingerprint::default(), real_path(*p))));
        }
    }
    for (j, w) in g.psbt_wits.iter().enumerate() {
        if j < psbt.outputs.len() && *w {
            psbt.outputs[j].witness_script = Some(witscript.clone());
        }
    }
    psbt
}

/// mapping: the wallet path is the single key origin of PSBT output 0
fn mapped_path(g: &Glue) -> Option<PathKind> {
    match g.psbt_outs.first() {
        None => None,
        Some((b, t)) =>
            if let Some(p) = b.first() {
                Some(*p)
            } else if let Some(p) = t.first() {
                Some(*p)
            } else {
                Some(PathKind::Empty)
            },
    }
}

fn coq_opt_list(v: &[Option<u64>]) -> String {
    coq_list(&v.iter().map(|a| match a { Some(x) => format!("Some {}", x), None => "None".to_string() }).collect::<Vec<_>>())
}

fn handle_wire<H: Handler>(h: &H, bytes: Vec<u8>) -> Option<std::thread::Result<Result<(Vec<u8>, u8), ()>>> {
    let msg = match msgs::from_vec(bytes) {
        Ok(m) => m,
        Err(_) => return None,
    };
    Some(catch_unwind(AssertUnwindSafe(|| match h.handle(msg) {
        Ok(reply) => match msgs::from_vec(reply.as_vec()) {
            Ok(WireMessage::SignTxReply(r)) => Ok((r.signature.signature.0.to_vec(), r.signature.sighash)),
            _ => Err(()),
        },
        Err(_) => Err(()),
    })))
}

fn obs_wire(r: &std::thread::Result<Result<(Vec<u8>, u8), ()>>) -> u64 {
    match r {
        Err(_) => 1,
        Ok(Ok(_)) => 0,
        Ok(Err(_)) => 150,
    }
}

fn glue_json(g: &Glue) -> Value {
    json!({"sign_any_variant": g.any, "protocol_version": g.proto, "channel_exists": g.found, "wire_input": g.wire_input,
           "psbt_input_witness_utxo_sat": g.psbt_ins.iter().map(|a| a.map(|v| v.to_string())).collect::<Vec<_>>(),
           "psbt_output_key_origins(bip32,taproot)": g.psbt_outs.iter().map(|(b, t)| format!("{:?} / {:?}", b, t)).collect::<Vec<_>>(),
           "psbt_output_witness_script": g.psbt_wits, "glue_label": g.label})
}

fn sweephandler_domain(args: &Args) {
    let mut rng = Rng::new(args.seed ^ 0x4a9d);
    let mut pool: HashMap<String, Chan> = HashMap::new();
    let mut dist: BTreeMap<String, u64> = Default::default();
    let mut labels: BTreeMap<String, u64> = Default::default();
    let (mut monitor_failures, mut signed, mut sig_checked, mut unencodable) = (0u64, 0u64, 0u64, 0u64);
    let sets = rule_sets();
    for id in 0..args.n {
        let kind = (id % 3) as u8;
        let ctype = *rng.pick(&[1u8, 3, 1, 3, 0, 2]);
        let ri = rng.below(6) as usize;
        let blocks = *rng.pick(&[0u32, 3, 5]);
        let (hd, cd) = *rng.pick(&[(6u16, 7u16), (144, 2016)]);
        let key = format!("{}-{}-{}-{}", ctype, ri, blocks, cd);
        if !pool.contains_key(&key) {
            let k = pool.len() as u64 + 1000 * (args.seed % 1000) + 200;
            pool.insert(key.clone(), make_chan(k, ctype, &sets[ri], blocks, hd, cd, 53, 253, 25_000));
        }
        maybe_move_chain(&mut rng, pool.get_mut(&key).unwrap(), true);
        let ch = pool.get(&key).unwrap();
        let mut r = gen_sweep(&mut rng, &ch.dests, id, kind, ctype, hd, cd, ch.height, ch.nh);
        r.rules = ch.rules.clone();
        if r.tx.ins.is_empty() {
            // a transaction without inputs does not survive the wire encoding
            r.tx.ins.push((txid_of(1), 0, 0));
        }
        let any = rng.chance(1, 2);
        if !any && (r.input as usize) < r.tx.ins.len() {
            // the per-channel messages sign input 0: keep the request's signed input there
            r.tx.ins.swap(0, r.input as usize);
            r.input = 0;
        }
        // ---- the wire fields
        let wire_input: u32 = if any { r.input.min(u32::MAX as u64) as u32 } else { *rng.pick(&[0u32, 0, 1, 7]) };
        if any {
            r.input = wire_input as u64;
        }
        let n_in = r.tx.ins.len();
        let mut g = Glue {
            any,
            proto: *rng.pick(&[4u32, 5, 6]),
            found: true,
            wire_input,
            // distinct true amounts per input: a value read from the wrong PSBT input shows
            psbt_ins: (0..n_in).map(|i| Some(1_979_997 + 1_000 * i as u64)).collect(),
            psbt_outs: vec![],
            psbt_wits: vec![],
            label: "plain".to_string(),
        };
        // key origins: output 0 encodes the request's wallet path; the others carry their own
        for (j, d) in r.dests.iter().enumerate() {
            let own = match d {
                Dest::Wallet(idx, _) => Some(PathKind::Normal(*idx)),
                _ => None,
            };
            let p = if j == 0 { Some(r.path) } else { own };
            let taproot = matches!(d, Dest::Wallet(_, 2));
            g.psbt_outs.push(match p {
                Some(PathKind::Empty) | None => (vec![], vec![]),
                Some(p) => if taproot { (vec![], vec![p]) } else { (vec![p], vec![]) },
            });
        }
        match rng.below(30) {
            0 => {
                let i = rng.below(n_in as u64) as usize;
                g.psbt_ins[i] = None;
                g.label = "witness_utxo-missing".into();
            }
            1 => {
                g.psbt_ins.truncate(n_in - 1);
                g.label = "psbt-fewer-inputs".into();
            }
            2 => {
                g.psbt_ins.push(Some(5));
                g.label = "psbt-more-inputs".into();
            }
            3 => {
                if !g.psbt_outs.is_empty() {
                    let j = rng.below(g.psbt_outs.len() as u64) as usize;
                    g.psbt_outs[j].0.push(PathKind::Normal(21));
                    g.psbt_outs[j].0.push(PathKind::Normal(19));
                    g.label = "two-key-origins".into();
                }
            }
            4 => {
                g.psbt_outs.clear();
                g.label = "psbt-no-outputs".into();
            }
            5 => {
                g.found = false;
                g.label = "unknown-dbid".into();
            }
            6 => {
                // the first PSBT output names another wallet index than the destinations use
                if let Some(o) = g.psbt_outs.first_mut() {
                    *o = (vec![PathKind::Normal(21)], vec![]);
                    g.label = "output0-origin-other-index".into();
                }
            }
            7 => {
                // origins of output 0 and output 1 exchanged (a signer reading the wrong output's path shows)
                if g.psbt_outs.len() >= 2 {
                    g.psbt_outs.swap(0, 1);
                    g.label = "origins-of-output-0-and-1-exchanged".into();
                }
            }
            8 => {
                for a in g.psbt_ins.iter_mut() {
                    *a = a.map(|v| v * 1000);
                }
                g.label = "psbt-amounts-msat-sized".into();
            }
            _ => {}
        }
        // the model's wallet table is relative to the mapped path
        let mp = mapped_path(&g);
        let mut rm = r.clone();
        if let Some(p) = mp {
            rm.path = p;
        }
        // PSBT outputs beyond the transaction's are not destinations
        let script = rs_script(&r.rs);
        let psbt = build_psbt(&r.tx, &g, &script);
        let tx = real_tx(&r.tx);
        let remote_point = make_test_pubkey(10);
        let revocation_secret = [0x35u8; 32];
        let dbid = if g.found { ch.dbid } else { ch.dbid + 77_000 };
        let (t, p, w) = (WithSize(tx.clone()), WithSize(psbt.into()), Octets(script.to_bytes()));
        let bytes = match (r.kind, any) {
            (0, false) => msgs::SignDelayedPaymentToUs { commitment_number: r.cn, tx: t, psbt: p, wscript: w }.as_vec(),
            (0, true) => msgs::SignAnyDelayedPaymentToUs { commitment_number: r.cn, tx: t, psbt: p, wscript: w, input: wire_input, peer_id: PubKey(PEER), dbid }.as_vec(),
            (1, false) => msgs::SignRemoteHtlcToUs { remote_per_commitment_point: PubKey(remote_point.serialize()), tx: t, psbt: p, wscript: w, option_anchors: is_anchors(ctype) }.as_vec(),
            (1, true) => msgs::SignAnyRemoteHtlcToUs { remote_per_commitment_point: PubKey(remote_point.serialize()), tx: t, psbt: p, wscript: w, option_anchors: rng.chance(1, 2), input: wire_input, peer_id: PubKey(PEER), dbid }.as_vec(),
            (_, false) => msgs::SignPenaltyToUs { revocation_secret: DisclosedSecret(revocation_secret), tx: t, psbt: p, wscript: w }.as_vec(),
            (_, true) => msgs::SignAnyPenaltyToUs { revocation_secret: DisclosedSecret(revocation_secret), tx: t, psbt: p, wscript: w, input: wire_input, peer_id: PubKey(PEER), dbid }.as_vec(),
        };
        let root = make_root_handler(&ch.node, g.proto);
        let res = if any { handle_wire(&root, bytes) } else { handle_wire(&root.for_new_client(1, PubKey(PEER), dbid), bytes) };
        let res = match res {
            None => {
                unencodable += 1;
                continue;
            }
            Some(r) => r,
        };
        let obs = obs_wire(&res);
        *dist.entry(obs.to_string()).or_insert(0) += 1;
        *labels.entry(format!("{}|{}", if any { "any" } else { "chan" }, g.label)).or_insert(0) += 1;
        // ---- the property on what was signed
        let mut viol = vec![];
        let mut sig_valid: Option<bool> = None;
        let named = if any { wire_input as usize } else { 0 };
        if let Ok(Ok((sig, sighash))) = &res {
            signed += 1;
            let true_amount = g.psbt_ins.get(named).cloned().flatten();
            let pk: Option<PublicKey> = match r.kind {
                0 => {
                    let cn = r.cn;
                    // a number whose point the channel does not hand out cannot have been signed for
                    match ch.node.with_channel(&ch.channel_id, |chan| chan.get_per_commitment_point(cn)) {
                        Ok(point) => Some(get_channel_delayed_payment_pubkey(&ch.node, &ch.channel_id, &point)),
                        Err(_) => None,
                    }
                }
                1 => Some(get_channel_htlc_pubkey(&ch.node, &ch.channel_id, &remote_point)),
                _ => {
                    let secp = Secp256k1::new();
                    let point = PublicKey::from_secret_key(&secp, &SecretKey::from_slice(&revocation_secret).unwrap());
                    Some(get_channel_revocation_pubkey(&ch.node, &ch.channel_id, &point))
                }
            };
            let ok = match (Signature::from_compact(sig), true_amount, pk) {
                (Ok(s), Some(a), Some(pk)) => *sighash == EcdsaSighashType::All as u8 && verify_sig(&tx, named, &s, &pk, a, &script, EcdsaSighashType::All),
                _ => false,
            };
            sig_checked += 1;
            sig_valid = Some(ok);
            if !ok {
                viol.push(format!(
                    "the returned signature is not a SIGHASH_ALL signature by the mapped key over input {} of the request's transaction with that input's amount {:?} and the request's script: something else was signed than was named",
                    named, true_amount
                ));
            }
            let mut signed_req = rm.clone();
            signed_req.input = named as u64;
            viol.extend(sweep_monitor(&signed_req));
        }
        if !viol.is_empty() {
            monitor_failures += 1;
        }
        let mut rq = json_sweep(&rm);
        rq["glue"] = glue_json(&g);
        rq["chain_history_of_this_channel"] = json!(ch.chain_log.iter().rev().take(60).rev().collect::<Vec<_>>());
        let origins: Vec<String> = g.psbt_outs.iter().map(|(b, t)| (b.len() + t.len()).to_string()).collect();
        let coq = format!(
            "(({}, {}, {}, {}), {})",
            coq_opt_list(&g.psbt_ins),
            coq_list(&origins),
            coq_bool(any),
            coq_bool(g.found),
            coq_sweep(&SweepReq { input: wire_input as u64, ..rm.clone() }, 2, obs)
        );
        emit(
            "CASE",
            json!({"id": id, "level": "handler", "request": rq, "observed": obs, "monitor_violation": viol,
                   "signature_verifies_for_named_input": sig_valid, "structured": r.label != "malformed", "coq": coq}),
        );
        if obs == 1 {
            pool.remove(&key);
        }
    }
    emit(
        "STATS",
        json!({"kind": "sweephandler", "observed_distribution(0 signed,1 panic,150 refused)": dist, "labels": labels, "signed": signed,
               "signatures_verified": sig_checked, "requests_not_encodable": unencodable, "monitor_failures": monitor_failures}),
    );
}

fn htlchandler_domain(args: &Args) {
    let mut rng = Rng::new(args.seed ^ 0x47ad);
    let mut pool: HashMap<String, Chan> = HashMap::new();
    let mut dist: BTreeMap<String, u64> = Default::default();
    let mut labels: BTreeMap<String, u64> = Default::default();
    let (mut monitor_failures, mut signed, mut sig_checked, mut out_of_domain_accepts, mut unencodable, mut any_nonzero_signed) = (0u64, 0u64, 0u64, 0u64, 0u64, 0u64);
    let sets = rule_sets();
    let other_point = make_test_pubkey(11);
    for id in 0..args.n {
        // 0 SignLocalHtlcTx, 1 SignAnyLocalHtlcTx, 2 SignRemoteHtlcTx
        let msg = (id % 3) as u64;
        let is_cp = msg == 2;
        let ctype = *rng.pick(&[1u8, 3, 1, 3, 0, 2]);
        let ri = *rng.pick(&[0usize, 0, 6, 7, 8]);
        let (hd, cd) = *rng.pick(&[(6u16, 7u16), (144, 2016)]);
        let (min, max) = *rng.pick(&[(253u32, 25_000u32), (1000, 1000), (0, U32MAX)]);
        let key = format!("{}-{}-{}-{}", ctype, ri, cd, max);
        if !pool.contains_key(&key) {
            let k = pool.len() as u64 + 1000 * (args.seed % 1000) + 700;
            pool.insert(key.clone(), make_chan(k, ctype, &sets[ri], 3, hd, cd, 53, min, max));
        }
        let ch = pool.get(&key).unwrap();
        let mut r = gen_htlc(&mut rng, id, is_cp, ctype, hd, cd, min, max, ch.nh);
        r.rules = ch.rules.clone();
        r.point_given = false;
        if r.tx.ins.is_empty() {
            r.tx.ins.push((txid_of(2), 0, 0));
        }
        let remote_point = make_test_pubkey(10);
        let cn = r.cn;
        let holder_point: Option<PublicKey> = ch.node.with_channel(&ch.channel_id, |chan| Ok(chan.get_per_commitment_point(cn).ok())).expect("point");
        let point = if is_cp { remote_point } else { holder_point.unwrap_or(remote_point) };
        let (holder_points, cp_points) = ch
            .node
            .with_channel(&ch.channel_id, |chan| Ok((chan.get_channel_basepoints(), chan.setup.counterparty_points.clone())))
            .expect("points");
        let (a, b) = if is_cp { (&cp_points, &holder_points) } else { (&holder_points, &cp_points) };
        let txkeys = keys_from(a, b, &point);
        let keys = keyset(&txkeys, &keys_from(a, b, &other_point));
        finish_htlc(&mut r, &keys);
        // ---- the wire fields
        let n_in = r.tx.ins.len();
        let wire_input: u32 = if msg == 1 { *rng.pick(&[0u32, 0, 0, 0, 1, 2, 7]) } else { 0 };
        let mut g = Glue {
            any: msg == 1,
            proto: *rng.pick(&[4u32, 5, 6]),
            found: true,
            wire_input,
            psbt_ins: (0..n_in.max(wire_input as usize + if rng.chance(2, 3) { 1 } else { 0 }))
                .map(|i| Some(if i == wire_input as usize { r.amount } else { r.amount.saturating_add(1_000 * (i as u64 + 1)) }))
                .collect(),
            psbt_outs: vec![],
            psbt_wits: (0..r.tx.outs.len()).map(|_| true).collect(),
            label: "plain".to_string(),
        };
        match rng.below(24) {
            0 => {
                let i = rng.below(n_in as u64) as usize;
                g.psbt_ins[i] = None;
                g.label = "witness_utxo-missing".into();
            }
            1 => {
                g.psbt_ins.push(Some(r.amount / 2 + 3));
                g.label = "psbt-more-inputs".into();
            }
            2 => {
                if let Some(w) = g.psbt_wits.first_mut() {
                    *w = false;
                    g.label = "output0-witness_script-missing".into();
                }
            }
            3 => {
                g.psbt_wits.push(true);
                g.label = "psbt-more-outputs".into();
            }
            4 => {
                g.psbt_wits.clear();
                g.label = "psbt-no-outputs".into();
            }
            5 => {
                g.found = false;
                g.label = "unknown-dbid".into();
            }
            6 => {
                // the amount as millisatoshi (a unit slip between wire and core shows)
                for a in g.psbt_ins.iter_mut() {
                    *a = a.map(|v| v.saturating_mul(1000));
                }
                g.label = "psbt-amounts-msat-sized".into();
            }
            _ => {}
        }
        let named_psbt = if msg == 1 { wire_input as usize } else { 0 };
        let mapped_amount = g.psbt_ins.get(named_psbt).cloned().flatten();
        let tx = real_tx(&r.tx);
        let script = rs_script(&r.rs);
        let witscript = revokeable_script(&keys.revocation[0], if is_cp { hd } else { cd }, &keys.delayed[0]);
        let psbt = build_psbt(&r.tx, &g, &witscript);
        let dbid = if g.found { ch.dbid } else { ch.dbid + 77_000 };
        let (t, p, w) = (WithSize(tx.clone()), WithSize(psbt.into()), Octets(script.to_bytes()));
        let oa = is_anchors(ctype);
        let bytes = match msg {
            0 => msgs::SignLocalHtlcTx { commitment_number: cn, tx: t, psbt: p, wscript: w, option_anchors: oa }.as_vec(),
            1 => msgs::SignAnyLocalHtlcTx { commitment_number: cn, tx: t, psbt: p, wscript: w, option_anchors: oa, input: wire_input, peer_id: PubKey(PEER), dbid }.as_vec(),
            _ => msgs::SignRemoteHtlcTx { tx: t, psbt: p, wscript: w, remote_per_commitment_point: PubKey(remote_point.serialize()), option_anchors: oa }.as_vec(),
        };
        let root = make_root_handler(&ch.node, g.proto);
        let res = if msg == 1 { handle_wire(&root, bytes) } else { handle_wire(&root.for_new_client(1, PubKey(PEER), dbid), bytes) };
        let res = match res {
            None => {
                unencodable += 1;
                continue;
            }
            Some(r) => r,
        };
        let obs = obs_wire(&res);
        *dist.entry(obs.to_string()).or_insert(0) += 1;
        *labels.entry(format!("{}|{}", ["SignLocalHtlcTx", "SignAnyLocalHtlcTx", "SignRemoteHtlcTx"][msg as usize], g.label)).or_insert(0) += 1;
        let mut viol = vec![];
        let mut ood = false;
        let mut sig_valid: Option<bool> = None;
        // the request as the mapping reads it: the amount is the named PSBT input's
        let mut rm = r.clone();
        if let Some(a) = mapped_amount {
            rm.amount = a;
        }
        if let Ok(Ok((sig, sighash))) = &res {
            signed += 1;
            if msg == 1 && wire_input != 0 {
                any_nonzero_signed += 1;
            }
            let pk = get_channel_htlc_pubkey(&ch.node, &ch.channel_id, &point);
            let ty = if is_anchors(r.ctype) { EcdsaSighashType::SinglePlusAnyoneCanPay } else { EcdsaSighashType::All };
            let ok = match (Signature::from_compact(sig), mapped_amount) {
                (Ok(s), Some(a)) => *sighash == ty as u8 && verify_sig(&tx, 0, &s, &pk, a, &script, ty),
                _ => false,
            };
            sig_checked += 1;
            sig_valid = Some(ok);
            let (v, o) = htlc_monitor(&rm, &keys);
            ood = o;
            viol = v;
            if !ok {
                viol.push(format!(
                    "the returned signature is not one by the mapped HTLC key over input 0 of the request's transaction with the amount {:?} of PSBT input {} and the request's script under the channel's sighash type",
                    mapped_amount, named_psbt
                ));
            }
            if ood {
                out_of_domain_accepts += 1;
                viol.clear();
            }
        }
        if !viol.is_empty() {
            monitor_failures += 1;
        }
        let mut rq = json_htlc(&rm);
        rq["glue"] = glue_json(&g);
        let coq = format!(
            "(({}, {}, {}, {}, {}), {})",
            coq_opt_list(&g.psbt_ins),
            coq_list(&g.psbt_wits.iter().map(|b| coq_bool(*b).to_string()).collect::<Vec<_>>()),
            msg,
            wire_input,
            coq_bool(g.found),
            coq_htlc(&r, &keys, 2, obs)
        );
        emit(
            "CASE",
            json!({"id": id, "level": "handler", "request": rq, "observed": obs, "monitor_violation": viol,
                   "accepted_outside_theorem_domain": obs == 0 && ood, "signature_verifies": sig_valid,
                   "structured": r.label != "malformed", "coq": coq}),
        );
        if obs == 1 {
            pool.remove(&key);
        }
    }
    emit(
        "STATS",
        json!({"kind": "htlchandler", "observed_distribution(0 signed,1 panic,150 refused)": dist, "labels": labels, "signed": signed,
               "signatures_verified": sig_checked, "accepted_outside_theorem_domain": out_of_domain_accepts,
               "SignAnyLocalHtlcTx_signed_with_input_above_0(signature is over input 0, amount of PSBT input k)": any_nonzero_signed,
               "requests_not_encodable": unencodable, "monitor_failures": monitor_failures}),
    );
}

fn main() {
    let argv: Vec<String> = std::env::args().collect();
    let sub = argv.get(1).cloned().unwrap_or_default();
    let args = parse_args(&argv[2.min(argv.len())..]);
    // panics are observations here, not noise
    std::panic::set_hook(Box::new(|_| {}));
    let r = catch_unwind(self_test);
    if r.is_err() {
        eprintln!("self test failed: the hand-built script templates differ from LDK's");
        std::process::exit(3);
    }
    match sub.as_str() {
        "sweepval" => sweepval_domain(&args),
        "sweepchan" => sweepchan_domain(&args),
        "htlcval" => htlcval_domain(&args),
        "htlcchan" => htlcchan_domain(&args),
        "sweephandler" => sweephandler_domain(&args),
        "htlchandler" => htlchandler_domain(&args),
        other => {
            eprintln!("unknown sub-domain {:?}", other);
            std::process::exit(2);
        }
    }
}
